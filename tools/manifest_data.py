"""Per-property manifest texts.  claimed=False entries go to not_applicable."""

SOURCE_COMMITS = []

NOTES = (
    "Technique family: static analysis only. Every check parses /repo/src/clikit from the working tree on each run "
    "(python ast, nothing imported or executed) and decides named structural clauses that are necessary conditions "
    "of the property; the value-level remainder of each property is declined in DESIGN.md section 5/7. "
    "Exit 0 = all obligations discharged (known findings printed as KNOWN-FINDING), 1 = VIOLATION, 2 = ANALYSIS-ERROR."
)

_NOT_YET = "check not built yet (build in progress, see DESIGN.md section 8)"

PROPS = {("C%02d" % i): {"claimed": False, "na_reason": _NOT_YET} for i in range(1, 21)}

PROPS["C12"] = {
    "claimed": True,
    "technique": "static analysis: CFG must-pass-through (cache invalidation), order-polarity of container operations, guard dominance, key provenance",
    "text": (
        "Decides the whole ordering/caching mechanism of EventDispatcher from source: every write to the listener store is "
        "followed on all paths by invalidation of the sorted cache for that key (INVALID); registration appends, the sort is "
        "descending in priority only and iteration is forward (POLARITY); each listener call is dominated in its iteration by "
        "the propagation test whose stopped-edge leaves the loop (GUARD); the sorted list is rebuilt from empty (RESET); store, "
        "cache and dispatch use the method's own event key (KEY); a cache miss is rebuilt before the cached list is returned. "
        "These are path-universal facts no finite history sample can give; they are necessary and, for this 100-line class, "
        "jointly close to sufficient for the stated order."
    ),
    "note": "Assumes CPython dict/list/sorted (stable) semantics and that listeners are registered only through add_listener "
            "(who-may-write is part of R1: every write site in the class is enumerated). Does not execute dispatches.",
}

SOURCE_COMMITS.append("2c59a26")  # fix: gate ANSI section writes by the caller's flags (C10)

PROPS["C10"] = {
    "claimed": True,
    "technique": "static analysis: guard dominance on the CFG (every stream write under the gate), flags-forwarding dataflow over the computed write family, decision-table extraction of the gate",
    "text": (
        "Decides the gating mechanism for every output class in the package: each resolved OutputStream.write call is dominated "
        "by the true edge of _may_write(<the method's own flags>) and nobody outside the Output classes writes a stream (GUARD + "
        "who-may-call); every member of the computed write family (methods of Output/IO classes that reach a stream write) that "
        "hands its text to another writing or recording method forwards its flags or is itself gated there (flags dataflow); the "
        "gate's path table is extracted and compared with: quiet refuses first, levels tested ascending, each with >= the same "
        "level, fallthrough True, None normalised (TABLE). A write method added later is covered because the family is computed, "
        "not listed."
    ),
    "note": "Decides the in-package mechanism, not the bytes: assumes user code writes through the Output/IO API. "
            "Level constants are read from clikit.api.io.flags on each run.",
}

SOURCE_COMMITS.append("e030674")  # fix: reset the parser's option scratch map (C05)
SOURCE_COMMITS.append("049c08b")  # fix: help resolver hands the caller's tokens back unchanged (C05/C17)

PROPS["C05"] = {
    "claimed": True,
    "technique": "static analysis: CFG reset-before-use of per-parse scratch attributes; interprocedural effect/alias (origin) analysis for caller-owned argv / raw args / format",
    "text": (
        "Decides the two structural sources of history dependence. RESET: the attributes a parser writes during a parse are computed "
        "(methods reachable from parse on the same object); for each, a fresh rebind must lie on every path from the start of parse to "
        "its first use or to the first call that reaches a use. OWNER: a flow-sensitive origin analysis with interprocedural summaries "
        "shows that no function of the args/resolver/handler modules mutates, at any alias depth, an argv list, a RawArgs (incl. the list "
        "its tokens getter returns) or an ArgsFormat it was handed, except a del X[0] whose inverse insert(0, ..) is on every exit "
        "including exceptional ones. 'State leaks from parse n to n+1' is invisible to single-parse tests but is one CFG query."
    ),
    "note": "Does not prove equality with a fresh parser for all histories: determinism of the rest (no clock/randomness) is assumed. "
            "Closed world for clikit.*; mutation through reflection/setattr is not modelled.",
}

SOURCE_COMMITS += ["4e1f807", "c61a457", "b3f9592"]  # C17 fixes: border style copy, leniency restore, snippet cache key

PROPS["C17"] = {
    "claimed": True,
    "technique": "static analysis: ownership of memoised objects via interprocedural origin/effect analysis, acquire/release pairing on normal and exceptional CFG exits, cache-key coverage, read-only render, inventory of process-wide containers",
    "text": (
        "Decides the named sources of cross-run state: (R1) objects returned by memoising factories (class slot filled under an is-None "
        "test) are never mutated by receivers nor planted uncopied into another object's field; (R2) a temporary leniency switch is "
        "switched back (or was already on) on every exit, exceptional edges included; (R3) resolvers/handlers do not edit the caller's "
        "raw tokens unless the inverse edit is on every exit; (R4) the key of a class-level memo names every input of the memoised "
        "value; (R5) render() of every Component writes no component state except fields reset before use; (R6) every class-/module-"
        "level mutable container is either never mutated or only filled as a memo. These are exactly the mechanisms by which an "
        "earlier run can influence a later one without any single-run test noticing."
    ),
    "note": "Run-by-run equality of whole applications is not claimed; only these mechanisms are. User code mutating shared singletons "
            "(BorderStyle.none() itself) is outside the closed world.",
}

PROPS["C14"] = {
    "claimed": True,
    "technique": "static analysis: interprocedural effect/alias analysis (deep read-only of the table's rows, header and style under render)",
    "text": (
        "Decides only the last clause of the property - rendering does not modify the table: no mutation event reachable from "
        "Table.render touches an object rooted at the table's fields at any alias depth, and the row lists that BorderUtil.draw_row "
        "splits and pops in place are rooted at the CellWrapper created for this render. The geometric clauses (rectangle, widths, "
        "text preservation) are arithmetic over runtime lengths and are declined."
    ),
    "note": "Rectangle / width / text-preservation clauses are NOT decided (no sound static bound in reach); see DESIGN.md C14.",
}

SOURCE_COMMITS.append("7d8b138")  # fix: highlight empty / continuation-led source without KeyError (C20)

_MARKUP_NOTE = (
    "Eight flows of non-markup text into the markup interpreter are genuine defects recorded in known_findings.json "
    "(each with a concrete failing input, findings/repro_markup.py) rather than repaired: a repair needs an escaping policy "
    "at every write site of the trace renderer and changes what applications that put markup into exception messages see. "
)

PROPS["C04"] = {
    "claimed": True,
    "technique": "static analysis: interval evaluation of returned statuses, try-coverage and handler-path checks on the CFG with exceptional edges, call multiplicity, taint dataflow (untrusted text -> markup interpreter)",
    "text": (
        "Decides, on every path of ConsoleApplication.run / Command.handle / Command._do_handle: returned statuses lie in 0..255, "
        "0 only on the falsy arm and >= 1 on every exception arm (interval evaluation with return summaries); io creation, "
        "resolution and handling are inside the try whose handlers cover Exception and KeyboardInterrupt, every handler path sets "
        "the status and the only re-raise is under 'exceptions not caught'; the configured handler is invoked at most once and "
        "never after a pre-handle listener handled the event; handle()/run() call their callee exactly once; the command and its "
        "arguments come from one resolved command. A taint analysis over the error-report code reachable from run()'s exception "
        "arm reports every flow of exception/source/file-name text into a markup-interpreting sink that can raise (the 'can raise' "
        "fact is extracted from the installed pastel source on each run)."
    ),
    "note": _MARKUP_NOTE + "The correctness of the printed report is not decided.",
}

PROPS["C20"] = {
    "claimed": True,
    "technique": "static analysis: interprocedural taint dataflow into markup sinks, guard dominance (ignore filter), sibling index expressions, must-write of name and message, Optional-key reaching definitions",
    "text": (
        "Decides: (R1) no text that is not authored markup (exception message, source lines, file names) reaches Formatter.format/"
        "remove_format or a formatted write of IO/Output - interprocedural, through the Highlighter closure - because those sinks can "
        "raise on an unmatched closing tag; (R2) ignored-path frames are skipped only under 'not debug'; (R3) the marker test and the "
        "printed line number are the same index expression and numbering starts at 1; (R4) class name and message are written on "
        "every path of the full report, the message in simple mode; (R5) a token type that may still be None is never used as a key "
        "of the theme table (reaching definitions over the CFG)."
    ),
    "note": _MARKUP_NOTE + "Trace content for all exceptions, verbatim source lines and recursion folding are not decided.",
}

SOURCE_COMMITS.append("0d24757")  # fix: empty-string token does not end the resolver's scan (C03)

PROPS["C03"] = {
    "claimed": True,
    "technique": "static analysis: sibling agreement of index sets (add/get/__contains__), guard dominance and loop-exit ordering on the CFG, registration decision tables, sentinel-consistency lint",
    "text": (
        "Decides the structural clauses of command selection: every index CommandCollection.add records is consulted by both get and "
        "__contains__ and nobody else touches the indices (alias clause); a token becomes a candidate name only on the false edge of a "
        "dash-prefix test and the first option/'--' ends the scan; the tree walk leaves the loop on the first miss and descends through "
        "named sub-commands; the undefined-command raise under 'candidates non-empty' precedes any use of default commands; "
        "application-level and sub-command-level registration have the same (condition -> collection) table with 'enabled' dominating; "
        "a scan that draws tokens with next(it, None) tests that sentinel, not truthiness."
    ),
    "note": "Which command is selected for every tree x command line (value-dependent) is not decided.",
}

PROPS["C09"] = {
    "claimed": True,
    "technique": "static analysis: who-may-read lint on raw args, declared-option vs tested-spelling tables, minimal guarding cuts on the CFG (switch -> setter/formatter), listener registration and dispatch-order checks, setter sibling agreement",
    "text": (
        "Decides how the default configuration wires the global switches: the configuration reads the command line only through "
        "has_option_token (tokens after '--' cannot count); every spelling of every value-less option declared in configure() is "
        "tested and nothing undeclared is; the minimal set of tests guarding each effect is extracted from the CFG and compared with "
        "the documented table (-v/-vv/-vvv -> VERBOSE/VERY_VERBOSE/DEBUG, -q/--quiet -> set_quiet(True), -n/--no-interaction -> "
        "set_interactive(False), --no-ansi -> PlainFormatter and --ansi -> forced AnsiFormatter for both outputs); the help listener is "
        "registered pre-resolve, sets the resolved command and stops propagation under exactly -h/--help, and resolve_command returns "
        "it before the resolver; the version listener is registered pre-handle and marks the event handled (default status 0); the IO "
        "setters reach both outputs and the interactive flag is the one read_line tests."
    ),
    "note": "Output bytes of whole runs and 'the help page of that command' are not decided. With C08-R3 (option tokens = prefix "
            "before '--') this gives the 'same tokens after -- have no effect' clause.",
}

SOURCE_COMMITS.append("8f81bcb")  # fix: trailing backslash is a literal backslash (C08)

PROPS["C08"] = {
    "claimed": True,
    "technique": "static analysis: typestate/null analysis of the scanner's Optional characters on the CFG, loop-progress (termination) argument with advance summaries, sibling agreement of RawArgs implementations",
    "text": (
        "Decides totality-relevant structure of the tokenizer: the current/lookahead characters (Optional) are used as strings only in "
        "the 'valid' typestate - established by the true edge of the validity test and killed by any call that reaches the cursor "
        "advance; every iteration of every scanner loop passes a call that always advances (summaries computed bottom-up from _next) "
        "or leaves the loop, so the scan terminates; every RawArgs implementation derives option tokens as takewhile(!= '--') of its "
        "tokens and answers has_option_token / has_token from the right list."
    ),
    "note": "The quote/unquote inverse law and exact splitting at whitespace are string-valued and not decided. Infeasible-edge pruning "
            "is limited to re-evaluations of the validity test in the valid typestate.",
}

SOURCE_COMMITS += ["8ed1b85", "c6f80c1", "be8f80a", "34a94da"]  # C01/C02 fixes

PROPS["C01"] = {
    "claimed": True,
    "technique": "static analysis: key-provenance dataflow on the value maps, reaching-definition conversion check on stores, guard dominance of option parsing by the '--' flag, order-polarity lint, sibling default tables",
    "text": (
        "Decides the clauses of value recovery that are visible in code shape: the value maps of Args are subscripted/tested/deleted "
        "only with canonical keys taken from the format (so access by long name, short name or position agrees); every definition "
        "reaching a store into the maps is <declaration>.parse(...) or the literal True (reaching definitions over the CFG, incl. the "
        "element-wise loop for multi-values); every option-parsing call in the token loop is dominated by the separator flag, which is "
        "only cleared, and only at '--'; collected values are appended / assigned in place, iterated forward, never reversed or sorted, "
        "and a looked-ahead token is pushed back at the front; option()/options() and argument()/arguments() report the same value "
        "for an unset parameter."
    ),
    "note": "That every spelling/interleaving of every assignment parses to exactly that assignment depends on token contents and is "
            "not decided (needs execution or a solver).",
}

PROPS["C02"] = {
    "claimed": True,
    "technique": "static analysis: mode-variable slice (non-interference proof for 'lenient'), exception-flow over the CFG with handler coverage, guarded-lookup dominance, raised-class table, implicit-raiser model for int()/float(), two-sided index predicate",
    "text": (
        "Proves the lenient/strict agreement clause for the current source: every use of 'lenient' under parse() is either forwarding "
        "into a callee's 'lenient' parameter or a guard whose strict arm inevitably raises, so a strict run that completes took the "
        "same arm as the lenient run at every such test (lock-step argument, DESIGN.md C02). Further decides: neither parse error can "
        "escape in lenient mode (each raise is in a strict arm or under parse()'s handler that re-raises only when strict); every "
        "format lookup that can raise is dominated by the matching has_* on the same key; the parser raises only the two documented "
        "classes and unknown options raise the no-such-option class; int()/float() conversions are under handlers covering every "
        "class the implicit-raiser model lists and re-raise ValueError; the by-position existence test bounds the index on both sides."
    ),
    "note": "Implicit exceptions that need string-length reasoning (token[0], name[0], pop(0)) are not decided. Determinism of the "
            "non-'lenient' part of the parser is assumed.",
}

SOURCE_COMMITS += ["10aa832", "c9fb36b", "9394b2a"]  # C06 fixes: base handed to element builder; argument merge order; command-name list copied

PROPS["C06"] = {
    "claimed": True,
    "technique": "static analysis: raise-before-write atomicity on the CFG, must-flow of the base format into the validating builder, abstract sibling summaries of the 17 shared queries, checked-names vs inserted-names tables, container aliasing via the effect analysis",
    "text": (
        "Decides: (R1) in every add_* of the builder no write of builder state can be followed by a raise (a rejected addition leaves the "
        "builder unchanged); (R2) the base format given to ArgsFormat(elements, base) reaches the builder that validates the elements; "
        "(R3) for each of the has_*/get_* queries shared by ArgsFormat and ArgsFormatBuilder the abstract summaries agree - indices "
        "consulted, base fall-through call and its include_base guard, own/base merge order, exception raised - and every builder field "
        "is mirrored in the format; (R4) has_X and get_X consult the same indices; (R5) every key an option is inserted under was "
        "checked against options and command options before insertion, and the three argument-ordering checks and both markers are "
        "present; (R6) the finished format shares no mutable container with the builder."
    ),
    "note": "Agreement of every query answer with 'what the listed elements imply' for every history is value-level and not decided.",
}

PROPS["C07"] = {
    "claimed": True,
    "technique": "static analysis: decision-table extraction (bit constants, forbidden pairs under nested/elif bit tests, completion masks, predicate bits, converter dispatch) compared with the documented tables; regex AST sibling comparison",
    "text": (
        "Extracts, from the current source, the tables that make flag handling consistent and compares them: flag constants are distinct "
        "single bits per hierarchy; the set of (A, B) pairs whose joint presence reaches a raise in the chained validators equals the "
        "documented contradiction table (if/elif and sequential-raise chains are recognised as rejecting all pairs of the group, with "
        "the soundness argument in DESIGN.md), including short-preference-without-short-name and the default rules of set_default; "
        "completion masks are exactly the validator's exclusive groups and add a member of the group, MULTI_VALUED adds REQUIRED_VALUE; "
        "each predicate tests its own bit; the type bit selects the matching converter with the NULLABLE bit, identically for options "
        "and arguments; the name patterns of options, aliases and arguments are one pattern each (compared as parsed regex trees); the "
        "boolean literal sets contain 'true'/'false'. This is a comparison of extracted tables, not an evaluation on flag words."
    ),
    "note": "Exhaustive behaviour over all 2^13 / 2^11 flag words and text->value round trips are execution/solver territory and not "
            "decided; the converters' ValueError discipline is rule C02-R4.",
}

SOURCE_COMMITS.append("6192fa4")  # fix: a question gives up at end of input (C18)

PROPS["C18"] = {
    "claimed": True,
    "technique": "static analysis: exception-flow through the call graph into retry loops (handler coverage x loop boundedness), reaching-definition provenance of returned choices, guard dominance of reads/writes by the interactive test, per-iteration multiplicity of the attempt decrement",
    "text": (
        "Decides: (R1) no handler that covers the end-of-input abort (the raise under 'not <value read>') sits in a loop with an unbounded "
        "condition around a call that reaches that raise through the call graph (closures and callable attributes resolved), so end of "
        "input leaves every retry loop; (R2) every definition reaching the value appended to a choice question's result is "
        "self._values[...] - the False sentinel is excluded by a dominating raise; (R3) in Question.ask every call that reaches an IO "
        "read or write is dominated by the true edge of the interactive test and the other edge returns the default; (R4) every path "
        "from a failed attempt back to the loop test passes exactly one decrement of the budget (or the 'unlimited' edge), one error "
        "line is written per retry, and an exhausted budget raises."
    ),
    "note": "Index/value interchangeability, confirmation pattern semantics and the exact error texts are value-level and not decided.",
}

SOURCE_COMMITS += ["9552069", "fb49ac9"]  # C19 fixes: BaseException exit stops the spinner; frame under a lock

PROPS["C19"] = {
    "claimed": True,
    "technique": "static analysis: acquire/release pairing on every exit of the generator context manager (incl. BaseException thrown at the yield), lockset analysis of the two-write frame over thread-side and caller-side call paths, guard ordering in advance()",
    "text": (
        "Decides the schedule-independent structure: thread entry points are found from Thread(target=...); (R1) the yield of the "
        "automatic mode is inside a try whose finally / catch-all handler sets the stop event and joins the thread, and the normal "
        "exit passes a call that does so - exits by SystemExit / GeneratorExit included, which no test schedule exercises; (R2) every "
        "function on the spinner side that writes a frame with more than one write is entered, on every call path from either thread, "
        "inside 'with self.<lock>' where the lock is created in __init__ (lockset); (R3) in manual mode the redraw is dominated by "
        "the 'interval elapsed' edge and re-arms the next update time."
    ),
    "note": "Enumeration of interleavings and 'the end message is the last frame' are schedule/value properties and not decided. "
            "Atomic single-attribute stores of CPython are assumed benign; only multi-write frames need the lock.",
}

SOURCE_COMMITS += ["236aa37", "4c467be"]  # C11 fixes: plain section newline; IO.*_line_raw write a line

PROPS["C11"] = {
    "claimed": True,
    "technique": "static analysis: per-concrete-class newline summary by constant propagation of boolean parameters through virtual dispatch, SGR table Style <-> converter <-> installed pastel, sibling registration checks, context-manager restore pairing and scoped-use lint",
    "text": (
        "Decides: (R1) for every concrete Output and IO class, each line-writing method (write_line, write_line_raw, error_line, "
        "error_line_raw, SectionOutput.overwrite) appends exactly one newline to its text on every path that writes it - computed by "
        "path enumeration with propagation of the new_line argument through self/super/attribute delegation resolved per concrete "
        "class; (R2) every boolean attribute of api.formatter.Style has a predicate that StyleConverter consults and maps to an option "
        "name present in the installed pastel's OPTIONS table with the expected SGR code; (R3) style set, add_style and per-call style "
        "all go through the converter with foreground, background and options; (R4) the plain formatter is built with colours off, "
        "never switches them, registers the same style set, and Output.write strips markup on undecorated outputs; (R5) Indent saves "
        "before it sets, restores unconditionally, does not swallow exceptions, and every indent()/increment_indent() call is a "
        "'with' item (one enumerated exception)."
    ),
    "note": "ANSI-stripped = plain = tag-stripped for all messages and exact prefixes of indented lines go through a third-party "
            "formatter and are not decided.",
}

PROPS["C15"] = {
    "claimed": True,
    "technique": "static analysis: interprocedural guard dominance of control-code writes by the ANSI test, newline summary for the plain arm, order-polarity product of the section registration / scan / reversal chain",
    "text": (
        "Decides: (R1) every write of a literal containing ESC/CR in SectionOutput, and every call of the helper that emits such "
        "literals, lies on paths that pass the true edge of the ANSI test (supports_ansi / force_ansi), so a plain output gets no control "
        "codes; (R2) write_line / overwrite of a section append exactly one newline on the plain and on the ANSI arm (same engine as "
        "C11-R1); (R3) the sections erased below this one are re-printed in creation order: the registration polarity (insert at front), "
        "the scan (forward until self, on the same shared list) and the final reversal multiply to 'oldest first' over exactly the "
        "sections created later."
    ),
    "note": "The screen model for every history and row accounting with wrapping (ceil(len/width)) are arithmetic over runtime text and "
            "not decided.",
}

PROPS["C16"] = {
    "claimed": True,
    "technique": "static analysis: guard dominance of control-code writes by the overwrite flag and of the flag's clearing by the ANSI test, who-may-touch lint on raw streams in clikit.ui, ordering of the at-maximum draw vs the throttle, must-call in finish()",
    "text": (
        "Decides: (R1) carriage-return / cursor-up literals are written only under the overwrite flag, the flag is cleared in __init__ "
        "when the output lacks ANSI support and never switched back on; (R2) no UI component reaches a raw stream (one enumerated "
        "exception: the hidden-question getpass), and display() returns before drawing when the output is quiet - with C10 a quiet "
        "output receives nothing; (R3) in set_progress the 'step == max' arm always reaches display() and the time throttle is "
        "consulted only on its false edge; (R4) finish() passes set_progress(max) on every path except 'already at max and not "
        "overwriting'."
    ),
    "note": "Bar segment width, percentage, redraw spacing under a clock and residue of longer frames are arithmetic/timing and not decided.",
}

SOURCE_COMMITS += ["1dc5755", "50f0622"]  # C13 fixes: missing descriptions; hidden default sub-command in USAGE

PROPS["C13"] = {
    "claimed": True,
    "technique": "static analysis: flow-sensitive nullness dataflow from getters declared Optional, with dangerous-parameter and dangerous-field summaries across components; hidden-test dominance for every command loop (in the loop or in the callee); listing-coverage table; layout lifetime",
    "text": (
        "Decides: (R1) no value read from a getter whose type comment declares Optional (option/argument descriptions, help texts, "
        "names) reaches a string operation un-narrowed - operand of +/+=, method receiver, textwrap.wrap/re.sub/len argument - directly "
        "or by being handed to a component that stores it in a field another method dereferences (LabeledParagraph text -> "
        "textwrap.wrap); (R2) every loop over a command collection in the help renderers that produces page elements is dominated per "
        "iteration by the false edge of is_hidden(), in the loop or in the callee it delegates to; (R3) arguments are listed with the "
        "inherited ones, options as own plus inherited, both names of an option are printed, named sub-commands are listed; (R4) each "
        "render builds its own layout."
    ),
    "note": "No line wider than the terminal, 'help <path>' == '<path> --help', and success for every width are numeric/text and not decided.",
}


# ---- round 3 (second seeding round): deciding methods added per property; appended to "technique" / "text" by the loop below
ROUND3 = {
    "C01": ("path totality of the after-separator arm (every drawn token reaches the positional parse once the flag edges are removed), slice-shape check of the attached value, deep read-only effect analysis of the Args accessors, scratch-reset rule",
            "(R3, extended) with the separator flag cleared every drawn token reaches the positional parse; (R8) the value attached with '=' is the open-ended remainder after the first '='; (R9) no accessor of Args mutates the value maps; (R10) = C05-R1."),
    "C02": ("feasible-path enumeration with flag-condition tracking for constant indices into freshly drawn tokens, reaching-definition order of the value-misuse test",
            "(R7) = last clause of C01-R3; (R8) a constant index into a value just drawn from the token list is behind a non-emptiness test on every feasible path; (R9) no None assignment reaches the value-given-to-a-flag test except under a non-string sentinel; (R10) = C01-R6."),
    "C03": ("handler-class table of the trial parse, receiver check of the registration predicates",
            "(R5, extended) the registration markers are asked of the command being added; (R11) the trial parse of a default is caught for the cannot-parse class only."),
    "C04": ("getter/setter field agreement, result pass-through check on every return, per-attribute memo-key cover",
            "(R8) PreHandleEvent.is_handled reads exactly the field handled() writes; (R9) _do_handle and CallbackHandler.handle return the handler's result unchanged; (R10) = C17-R4 for the trace's snippet memo."),
    "C05": ("statelessness of the pass-through Command.parse", "(R4) Command.parse stores nothing and returns the parser's result of this call."),
    "C06": ("minimal guard set of each marker write", "(R5, extended) each argument marker is set under its own predicate and under no further test of the element; the ordering checks may sit in a helper called before the first write."),
    "C07": ("must-call analysis over the constructor chain incl. helpers, raise-before-write atomicity of set_default",
            "(R8) every constructor chain calls every unconditional validator of its hierarchy on every path; (R9) a rejected set_default stores nothing; (R10) = C02-R4."),
    "C08": ("call-site constant check of a parameterised escape set, post-dominance of the token append",
            "(R4, extended) an escape set passed as a parameter is the constant delimiter set at its default and at every call site; (R5) every scanned token is appended on every path."),
    "C09": ("dominance of command resolution by the I/O construction, 8-row truth table of the decoration decision by abstract evaluation of the constructor's CFG (boolean locals carried)",
            "(R6, extended) the IO setters reach both outputs on every path; (R9) the I/O built from the command line precedes resolve_command; (R10) Output() decorates iff forced, or supported and not disabled; (R11) = lookahead clause of C01-R4; (R12) = C02-R2."),
    "C10": ("post-dominance of both forwarding calls in the IO setters", "(R5) IO.set_quiet / set_verbosity reach both outputs on every path (= C09-R6)."),
    "C11": ("statement order of indentation vs formatting, sibling delegation signatures of the IO write/error twins",
            "(R7) lines are prefixed before the formatter runs; (R8) IO.error_* delegates exactly like IO.write_*."),
    "C12": ("post-dominance of the carry-over append per iteration, rebuild-loop dominance for the all-events form, control dependence of object state on has_listeners()",
            "(R4, extended) the rebuild carries over every stored listener; (R6, extended) get_listeners() rebuilds every missing entry; (R9) listener presence is never stored outside the dispatcher."),
    "C13": ("linear-form evaluation of the wrap width against the prefixes added outside the wrapper, read-only effect analysis of help renders",
            "(R6) the width handed to textwrap subtracts every `' ' * n` prefix put in front of a wrapped line outside the wrapper; (R7) = C17-R5 for the help pages."),
    "C14": ("post-dominance of running maxima per row iteration, order of strip vs emptiness test, in-place `+=` through aliases in the effect engine",
            "(R1, extended) `x += [...]` on an alias of a style field is a mutation; (R4) running column maxima are updated for every row; (R5) a border line is tested for emptiness after stripping."),
    "C15": ("unit analysis (terminal rows vs logical lines: reaching definitions used in both units), keyword check of every re-print, process-wide container ownership, record/print path pairing",
            "(R4) erased sections are re-printed with indentation off; (R5) no class-level container of the I/O classes is mutated (= C17-R6); (R6) no value is used both as a number of lines and as a number of rows, and the row counter only changes incrementally - this rule found F24; (R7) recording and printing of a section's text happen on the same paths."),
    "C16": ("lower-bound decision on every path to the step store, control independence of the throttle store from the output kind",
            "(R1, extended) erasing a section is an overwrite-mode operation; (R6) every path to `self._step = step` passes a lower-bound decision; (R7) the constructor stores the minimum redraw interval whatever the output; (R8) = C15-R3."),
    "C17": ("owner rule for configured values (write only under `is None`), scratch-reset rule for CellWrapper.fit and for parsers kept on a config, global-rooted effect events through callees",
            "(R4, extended) memo-key cover per attribute; (R5, extended) the reset-before-use exemption follows same-object calls only; (R6, extended) a class-level container handed to code that mutates it; (R8) a getter never replaces a configured value by something derived from it; (R9)/(R10) = C05-R1 for CellWrapper.fit and ArgsParser.parse."),
    "C18": ("handler-width check around the replaceable validator, taint of the blank-collapsed answer, API table (match vs search), sentinel form of the end-of-input test",
            "(R5) the validator call sits under `except Exception`; (R6) the blank-collapsed answer does not reach the single-select candidate; (R7) the confirmation pattern is applied with re.match/fullmatch; (R8) the abort is raised under a falsiness test (streams return '' at the end, never None)."),
    "C19": ("writer-thread ownership of the handle and stop-event fields", "(R6) code reachable from the spinner thread's target never rebinds the fields the caller joins through."),
    "C20": ("per-attribute memo-key cover, handler check around single-line tokenising, line-splitting API table",
            "(R8) = C17-R4; (R9) tokenising a single frame line is under a handler for tokenize.TokenError; (R10) text is cut into lines at '\\n' only."),
}
for _k, (_t, _x) in ROUND3.items():
    PROPS[_k]["technique"] = PROPS[_k]["technique"] + "; round 3: " + _t
    PROPS[_k]["text"] = PROPS[_k]["text"] + " Round 3: " + _x

SOURCE_COMMITS += ["16751ae"]  # C15 fix F24: partial clear of a wrapped line


# ---- round 4 (third seeding round): deciding methods added per property
ROUND4 = {
    "C01": "reaching-definition order of the value look-ahead test, uniqueness test of synthesised names against the format, C07-R2 borrowed",
    "C02": "control independence of the required-argument scan, None-sentinel form of the mode default in the Command.parse facade",
    "C03": "reaching definitions of the name at the primary-index test, boolean-marker vs None comparison, recursive base fall-through, leniency pairing (C17-R2 borrowed), registration table through helpers",
    "C04": "return values of every __exit__, scratch-reset rule for parsers, listener-cache invalidation (C12-R1) and configured-value ownership (C17-R8) borrowed, order of the handler look-up against the handled return",
    "C05": "mode default under `is None` only, leniency pairing, process-wide container ownership for the parser classes",
    "C06": "path-restricted upper-bound check of positional list access, control independence of the alias-index loops, recursive base fall-through, dominance-based base gating in the sibling summaries",
    "C07": "return-type table of the converters (isinstance of exactly the target type), measured-value = stored-value check of the alias classification",
    "C08": "whitespace predicate must be str.isspace, scratch-reset rule for TokenParser.parse (resets through helpers that read only reset fields), argv aliasing (C05-R2 borrowed)",
    "C09": "style-set argument on every formatter built by the I/O factory, handler look-up order (C04-R15), lenient-switch order (C13-R11), argv aliasing (C05-R2) and flag forwarding (C10-R2) borrowed",
    "C10": "bit-independence of the level constants (constant folding), writer ownership of the gate fields incl. constructor re-runs, post-dominance of the facade's delegation, raise-before-write in the gate setters",
    "C11": "post-dominance of the style registration in add_style, style-set argument on every formatter of the I/O factory, same-engine check of format / remove_format",
    "C12": "must-assign analysis over the constructor chains of the event classes, override check of the propagation methods, plain-dict store, match-guarded return of get_listener_priority, cache entries never bound to existing lists",
    "C13": "source of the inherited-options listing, wrap-or-delegate ownership of help components, declared-type check of str.join arguments, freshness of the resolve result after the lenient switch, help-token deletion (C17-R3 borrowed)",
    "C14": "definitional form of the total width, None-marker sentinel discipline, constructor derives nothing from the style, memoised border styles (C17-R1 borrowed)",
    "C15": "invalidation of fields computed from the content list, measured = recorded string, same-engine stripping (C11-R10 borrowed)",
    "C16": "dominance of redraws by the throttle edge or the at-maximum edge, _nomax variant look-up under `not max`, co-assignment of step and percentage",
    "C17": "effect analysis of the I/O factory on the long-lived configuration, argv aliasing (C05-R2 borrowed)",
    "C18": "truncate-before-write in the string input stream, ambiguity test on every path to the acceptance, pattern stored as given, max(*seq) behind len > 1",
    "C19": "join on every normal path of the ending method (transitively), thread start on every path to the with-body, modulo at the use of the spinner index, receiver of the capability questions",
    "C20": "subject of the ignore-pattern match, str(exception) in simple mode, handler on every path into the tokenizer (call site or inside the highlighter), empty-literal returns of subscripted calls, lossy re-encoding",
}
for _k, _t in ROUND4.items():
    PROPS[_k]["technique"] = PROPS[_k]["technique"] + "; round 4: " + _t

SOURCE_COMMITS += ["7f7c280", "8156858", "3a39c59"]  # F25 ConfigEvent, F26 untokenizable source, F27 help from a fresh lenient parse


# ---- round 5 (fourth seeding round, fourth refactor round): deciding methods added per property
ROUND5 = {
    "C01": "interprocedural canonical-key check of the parser's own option map (a key parameter must be bound to `.long_name` or '--' text at every call site), order of subtype vs base-type isinstance arms in the converters (C07-R13 borrowed)",
    "C02": "every-path return analysis of the error factories behind `raise f(...)`, allow-list of the predicates that may dominate the requires-a-value raise, writer ownership of the config's parser field (C05-R8 borrowed)",
    "C03": "reaching definition of what the empty-line arm resolves, order of the CONFIG dispatch against every read of the command configuration in the application constructor, writer ownership of the config's parser field (C05-R8 borrowed)",
    "C04": "handler-call multiplicity along exceptional edges (a retry in a handler), partial path functions on frame file names (C20-R13 borrowed)",
    "C05": "alias-aware detection of scratch containers (a local bound to a self attribute), writer ownership of the field behind Config.args_parser",
    "C06": "alias filed = alias measured and validated (C07-R12 borrowed); alias-index loops followed into private helpers",
    "C07": "order of subtype vs base-type isinstance arms whose arm rebinds the value, explicit raises outside handlers in the numeric converters, raw spelling vs normalised value in the alias classification, table-driven dispatch read through constant-loop unrolling",
    "C08": "length bound in force (dominating tests and enclosing conditional expressions) against every constant index into a string whose length the method tests",
    "C09": "switch families on the dominating edges of each effect in create_io (one family per effect), threshold table of the level predicates, application argument at every construction of a Command",
    "C10": "positional parameter order of overriding flagged write methods against the overridden one",
    "C11": "parameter forwarding of the IO / Output facades (every parameter of a forwarding method appears in the forwarded call)",
    "C12": "liveness of configuration reads across the CONFIG dispatch in the application constructor, sentinel form of the optional event-name parameter in every query",
    "C13": "the consumer of the lazily parsed result lies inside the lenient window (no disable reaches it)",
    "C14": "wrap width = the column-length parameter, decision form of the list-extension guard (normalised threshold), instance-level memo keys (CACHEKEY), module-level instances never configured per call (C17-R13)",
    "C15": "stride of row-counting loops over the paired content list, environment width not kept in the Terminal object",
    "C16": "membership (not truthiness / .get) decides whether a message exists, interprocedural overwrite gate (a private helper is gated when every call site is)",
    "C17": "publication order of lazily created class-slot objects (no attribute store on the object after the slot store), class- / module-level containers of mutable package instances, module-level instances never configured per call, leniency pairing for listeners inside the config package",
    "C18": "whole-object hand-over of the Input in every section(), order of tell() against the seek to the end in append(), switch independence in create_io (C09-R18 borrowed), validator rules follow its own helper methods and comprehensions",
    "C19": "truthiness guard on the store of the end message, arity of every join of the spinner thread (a bounded join is no join), direct aliases of the output in the two-write frame",
    "C20": "partial path functions under a handler, syntactic form of the simple-mode test, keyword check of every Highlighter construction, agreement of the code_snippet call sites, strip before split in the highlighter",
}
for _k, _t in ROUND5.items():
    PROPS[_k]["technique"] = PROPS[_k]["technique"] + "; round 5: " + _t


# ---- round 6 (fifth, small seeding round: six properties, 14 changes)
ROUND6 = {
    "C03": "fields changed in place are never bound to a caller's object (defensive-copy ownership of the configuration lists)",
    "C14": "line-splitting API table of the table modules (split('\\n'), never splitlines())",
    "C17": "scratch-reset rule for LabelAlignment.align",
    "C18": "trim API table of the answer read (strip), order of the by-value look-up against int(entry), reachability of stream-moving calls in the input stream's constructor (hasattr on a literal constant-folded)",
    "C19": "no clear() of the stop event on the spinner side, unit of the redraw deadline (every store comes from the millisecond clock), frame renderer referenced under the lock only",
    "C20": "the handler around the tokenizer takes both TokenError and SyntaxError, match-API table of the ignore pattern",
}
for _k, _t in ROUND6.items():
    PROPS[_k]["technique"] = PROPS[_k]["technique"] + "; round 6: " + _t
