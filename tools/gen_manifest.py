#!/venv/bin/python
"""Regenerates /verif/MANIFEST.json from tools/manifest_data.py (run after adding a check)."""
import json
import os
import sys

here = os.path.dirname(os.path.abspath(__file__))
sys.path.insert(0, here)
import manifest_data as md  # noqa

root = os.path.dirname(here)
# every commit made to /repo on top of the pinned snapshot is a "fix:" commit
import subprocess
_log = subprocess.run(["git", "-C", "/repo", "log", "--reverse", "--format=%h %s", "41c2242..HEAD"], capture_output=True, text=True).stdout.strip().split("\n")
assert all(l.split(" ", 1)[1].startswith("fix:") for l in _log if l), _log
md.SOURCE_COMMITS = [l.split()[0] for l in _log if l]
checks = []
na = []
for pid in ["C%02d" % i for i in range(1, 21)]:
    d = md.PROPS[pid]
    # the list of rules actually evaluated comes from the last evidence file, so the claim cannot drift from the code
    evp = os.path.join(root, "evidence", pid + ".json")
    rules_txt = ""
    if os.path.exists(evp):
        ev = json.load(open(evp))
        rules_txt = " Rules evaluated on every run (id:kind): " + ", ".join("%s:%s" % (r["id"], r["kind"]) for r in ev["coverage"]["rules"]) + \
                    ". Rule statements: DESIGN.md section 10."
    if d.get("claimed"):
        d = dict(d, text=d["text"] + rules_txt)
        checks.append({
            "property_id": pid,
            "quick_cmd": "./check %s" % pid,
            "thorough_cmd": "./check %s --tier thorough" % pid,
            "evidence_file": "/verif/evidence/%s.json" % pid,
            "replay_cmd_template": "./check %s --replay {path}" % pid,
            "engine": "clikit_sa",
            "level_claimed": {
                "category": "other",
                "text": d["text"],
                "design_ref": "DESIGN.md section 5, %s" % pid,
            },
            "level_note": d["note"],
            "technique": d["technique"],
        })
    else:
        na.append({"property_id": pid, "reason": d["na_reason"]})
man = {
    "version": 1,
    "setup_cmd": "true",
    "hooks": {
        "guard": "CLIKIT_VERIF",
        "enable": "no hooks: the checks are static analyses that only parse /repo/src; nothing in clikit is instrumented",
        "baseline_off_cmd": "cd /repo && /venv/bin/python -m pytest -ra -q -p no:cacheprovider --timeout=900 --continue-on-collection-errors",
        "source_commits": md.SOURCE_COMMITS,
        "add_only": True,
    },
    "engines": [{
        "name": "clikit_sa",
        "path": "/verif/clikit_sa",
        "serves_properties": [c["property_id"] for c in checks],
        "kind_free_text": "repository-specific static analysis on Python ast: resolver + call graph with dynamic-dispatch "
                          "tables, statement CFG with split conditions and exceptional edges, effect/alias, provenance "
                          "dataflow, table/sibling extraction; stdlib only",
    }],
    "checks": checks,
    "not_applicable": na,
    "notes": md.NOTES,
}
with open(os.path.join(root, "MANIFEST.json"), "w") as f:
    json.dump(man, f, indent=1)
    f.write("\n")
print("checks:", len(checks), "not_applicable:", len(na))
