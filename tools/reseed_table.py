#!/venv/bin/python
"""Re-run all checks against every kept seeded change (/verif/seeded/*/patch.diff), update meta.json
(detected_by / finding_keys) and print a markdown table for DESIGN.md section 9."""
import glob, json, os, re, subprocess, sys
root = os.path.dirname(os.path.dirname(os.path.abspath(__file__)))
rows = []
for d in sorted(glob.glob(os.path.join(root, "seeded", "C*-*"))):
    meta = json.load(open(os.path.join(d, "meta.json")))
    t = subprocess.run([os.path.join(root, "tools/try_seed.py"), os.path.join(d, "patch.diff")], capture_output=True, text=True)
    det = re.findall(r"^(C\d+) exit=1", t.stdout, re.M)
    err = re.findall(r"^(C\d+) exit=2", t.stdout, re.M)
    keys = [k.strip() for k in re.findall(r"^\s{5,}(C\d+-R[^\n]*)$", t.stdout, re.M)]
    meta["detected_by"], meta["analysis_errors"], meta["finding_keys"] = det, err, keys[:8]
    json.dump(meta, open(os.path.join(d, "meta.json"), "w"), indent=1)
    rules = sorted({k.split("|")[0] for k in keys})
    stat = subprocess.run("grep -E '^\\+\\+\\+ ' %s | sed 's#+++ b/src/clikit/##' | tr '\\n' ' '" % os.path.join(d, "patch.diff"), shell=True, capture_output=True, text=True).stdout.strip()
    rows.append((os.path.basename(d), meta["property"], stat, ", ".join(rules) if rules else ("ANALYSIS-ERROR " + ",".join(err) if err else "-"), "yes" if det else "no"))
    print(os.path.basename(d), "DETECTED" if det else "missed", rules, flush=True)
out = "| seed | property | file changed | rule(s) that report it | detected |\n|------|----------|--------------|------------------------|----------|\n"
for r in rows:
    out += "| %s | %s | %s | %s | %s |\n" % r
open(os.path.join(root, "seeded", "TABLE.md"), "w").write(out)
print("detected %d / %d" % (sum(1 for r in rows if r[4] == "yes"), len(rows)))
