#!/venv/bin/python
"""Re-run all checks against every kept seeded change (/verif/seeded/*/patch.diff), update meta.json
(detected_by / finding_keys) and write the markdown table seeded/TABLE.md (DESIGN.md section 9 reads it).
usage: reseed_table.py [seed names ...]   (with names: only those are re-run; the table is rebuilt from all meta.json)"""
import glob, json, os, re, subprocess, sys
root = os.path.dirname(os.path.dirname(os.path.abspath(__file__)))
only = sys.argv[1:]
rows = []
for d in sorted(glob.glob(os.path.join(root, "seeded", "C*-*"))):
    meta = json.load(open(os.path.join(d, "meta.json")))
    if not only or os.path.basename(d) in only:
        t = subprocess.run([os.path.join(root, "tools/try_seed.py"), os.path.join(d, "patch.diff")], capture_output=True, text=True)
        det = re.findall(r"^(C\d+) exit=1", t.stdout, re.M)
        err = re.findall(r"^(C\d+) exit=2", t.stdout, re.M)
        keys = [k.strip() for k in re.findall(r"^\s{5,}(C\d+-R[^\n]*)$", t.stdout, re.M)]
        meta["detected_by"], meta["analysis_errors"], meta["finding_keys"] = det, err, keys[:8]
        meta["finding_rules"] = sorted({k.split("|")[0] for k in keys})
        json.dump(meta, open(os.path.join(d, "meta.json"), "w"), indent=1)
        print(os.path.basename(d), "DETECTED" if det else "missed", meta["finding_rules"], flush=True)
        rules = meta["finding_rules"]
        stat = subprocess.run("grep -E '^\\+\\+\\+ ' %s | sed 's#+++ b/src/clikit/##' | tr '\\n' ' '" % os.path.join(d, "patch.diff"), shell=True, capture_output=True, text=True).stdout.strip()
        rows.append((os.path.basename(d), meta["property"], stat, ", ".join(rules) if rules else ("ANALYSIS-ERROR " + ",".join(err) if err else "-"), "yes" if det else "no"))
tbl = os.path.join(root, "seeded", "TABLE.md")
head = "| seed | property | file changed | rule(s) that report it | detected |\n|------|----------|--------------|------------------------|----------|\n"
if only and os.path.exists(tbl):
    # replace the rows of the seeds that were re-run, keep the others as the last full run wrote them
    new_rows = {r[0]: "| %s | %s | %s | %s | %s |" % r for r in rows}
    lines = open(tbl).read().rstrip("\n").split("\n")
    out_lines = []
    for ln in lines:
        m = re.match(r"\| (C\d+-\d+) \|", ln)
        out_lines.append(new_rows.pop(m.group(1)) if m and m.group(1) in new_rows else ln)
    out_lines += list(new_rows.values())
    open(tbl, "w").write("\n".join(out_lines) + "\n")
else:
    out = head
    for r in rows:
        out += "| %s | %s | %s | %s | %s |\n" % r
    open(tbl, "w").write(out)
n_yes = sum(1 for ln in open(tbl) if ln.rstrip().endswith("| yes |"))
n_all = sum(1 for ln in open(tbl) if re.match(r"\| C\d+-\d+ \|", ln))
print("detected %d / %d" % (n_yes, n_all))
