#!/venv/bin/python
"""For every /tmp/refout/<ID>/refN.diff (behaviour-preserving change written by an independent sub-agent):
confirm that it applies and keeps the suite at baseline (scratch worktree), run ALL checks against it
(applied to /repo, undone straight afterwards) and report every non-zero exit = false alarm.
Confirmed refactors are kept under /verif/twins/<ID>-<N>.diff.   usage: try_refactors.py [ID ...]"""
import glob, json, os, re, shutil, subprocess, sys, tempfile
root = os.path.dirname(os.path.dirname(os.path.abspath(__file__)))
src = "/tmp/refout"
ids = sys.argv[1:] or sorted(os.path.basename(d) for d in glob.glob(src + "/C*"))
os.makedirs(os.path.join(root, "twins"), exist_ok=True)
def sh(cmd, **kw):
    return subprocess.run(cmd, shell=True, capture_output=True, text=True, **kw)
alarms = 0
for pid in ids:
    for patch in sorted(glob.glob("%s/%s/ref*.diff" % (src, pid))):
        n = re.search(r"ref(\d+)\.diff", patch).group(1)
        dest = os.path.join(root, "twins", "%s-%s.diff" % (pid, n))
        if not os.path.exists(dest):
            wt = tempfile.mkdtemp(prefix="reft_", dir="/tmp"); os.rmdir(wt)
            sh("git -C /repo worktree add -q --detach %s HEAD" % wt)
            try:
                a = sh("git -C %s apply %s" % (wt, patch))
                if a.returncode:
                    print("SKIP %s-%s: does not apply" % (pid, n)); continue
                env = dict(os.environ, PYTHONPATH=wt + "/src", PYTHONDONTWRITEBYTECODE="1")
                t = sh("cd %s && timeout 900 /venv/bin/python -m pytest -q -p no:cacheprovider --timeout=900 2>&1 | tail -4" % wt, env=env)
                last = t.stdout.strip().split("\n")[-1]
                m = re.search(r"(\d+) failed, (\d+) passed", last)
                if not (m and m.group(1) == "1" and m.group(2) == "396"):
                    print("SKIP %s-%s: suite not at baseline: %s" % (pid, n, last)); continue
            finally:
                sh("git -C /repo worktree remove --force %s" % wt); shutil.rmtree(wt, ignore_errors=True)
            shutil.copy(patch, dest)
        t = sh("%s %s" % (os.path.join(root, "tools/try_seed.py"), dest))
        bad = re.findall(r"^(C\d+) exit=(\d)", t.stdout, re.M)
        if bad:
            alarms += 1
            print("FALSE-ALARM %s-%s:" % (pid, n))
            print("\n".join("    " + l for l in t.stdout.strip().split("\n")[:-1]))
        else:
            print("silent %s-%s" % (pid, n))
print("false alarms:", alarms)
