#!/venv/bin/python
"""Set the 'reference=' instance counts in the rule modules to what the last run measured
(run only after the instances were confirmed by reading the report)."""
import json, os, re, sys
root = os.path.dirname(os.path.dirname(os.path.abspath(__file__)))
for prop in sys.argv[1:]:
    ev = json.load(open(os.path.join(root, "evidence", prop + ".json")))
    path = os.path.join(root, "clikit_sa", "rules", prop.lower() + ".py")
    src = open(path).read()
    for r in ev["coverage"]["rules"]:
        rid, n = r["id"], r["instances"]
        for fn in [path] + [os.path.join(root, "clikit_sa", "rules", f) for f in os.listdir(os.path.join(root, "clikit_sa", "rules")) if f.endswith(".py")]:
            s = open(fn).read()
            m = re.search(r'"%s"(.*?)reference=(\d+)' % re.escape(rid), s, re.S)
            if m and len(m.group(1)) < 600:
                s2 = s[:m.start(2)] + str(n) + s[m.end(2):]
                if s2 != s:
                    open(fn, "w").write(s2)
                    print(rid, m.group(2), "->", n)
                break
