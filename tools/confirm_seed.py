#!/venv/bin/python
"""Confirm a seeded change in a fresh scratch worktree (outside /repo and /verif):
 - the patch applies to /repo's HEAD, the package still imports,
 - the pinned suite gives the baseline result (396 passed, the one pre-existing failure),
 - the demonstration fails with the change and passes without it.
usage: confirm_seed.py <patch.diff> <demo.py>      prints CONFIRMED / REJECTED and why; removes the worktree."""
import os, re, subprocess, sys, shutil, tempfile

patch, demo = os.path.abspath(sys.argv[1]), os.path.abspath(sys.argv[2])
wt = tempfile.mkdtemp(prefix="confirm_", dir="/tmp")
os.rmdir(wt)
def sh(cmd, **kw):
    return subprocess.run(cmd, shell=True, capture_output=True, text=True, **kw)
ok = True
why = []
try:
    r = sh("git -C /repo worktree add -q --detach %s HEAD" % wt)
    if r.returncode:
        sys.exit("cannot create worktree: " + r.stderr)
    env = dict(os.environ, PYTHONPATH=wt + "/src", PYTHONDONTWRITEBYTECODE="1")
    def run_demo():
        try:
            return sh("cd /tmp && timeout 120 /venv/bin/python %s" % demo, env=env)
        except Exception as e:
            return None
    d0 = run_demo()
    if d0.returncode != 0:
        ok = False; why.append("demo fails on the pristine tree: " + (d0.stdout + d0.stderr)[-300:])
    r = sh("git -C %s apply %s" % (wt, patch))
    if r.returncode:
        ok = False; why.append("patch does not apply: " + r.stderr[-300:])
    else:
        t = sh("cd %s && timeout 900 /venv/bin/python -m pytest -q -p no:cacheprovider --timeout=900 2>&1 | tail -4" % wt, env=env)
        last = t.stdout.strip().split("\n")[-1]
        m = re.search(r"(\d+) failed, (\d+) passed", last)
        if not (m and m.group(1) == "1" and m.group(2) == "396" and "test_supports_utf8_with_encoding" in t.stdout):
            ok = False; why.append("suite not at baseline: " + last)
        d1 = run_demo()
        if d1.returncode == 0:
            ok = False; why.append("demo passes WITH the change")
        else:
            why.append("demo fails with the change: " + (d1.stdout + d1.stderr).strip().split("\n")[-1][:200])
        files = sh("git -C %s diff --stat | tail -1" % wt).stdout.strip()
        why.append("change: " + files)
finally:
    sh("git -C /repo worktree remove --force %s" % wt)
    shutil.rmtree(wt, ignore_errors=True)
print(("CONFIRMED" if ok else "REJECTED") + " " + patch)
for w in why:
    print("   " + w)
sys.exit(0 if ok else 1)
