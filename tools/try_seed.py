#!/venv/bin/python
"""Apply a seeded change to /repo, run checks, undo it straight afterwards.

usage: try_seed.py <patch.diff> [C01 C02 ...]      (default: all properties)
prints, per property, exit code and the VIOLATION keys; /repo is restored with `git checkout -- .`
"""
import os, re, subprocess, sys, json
from concurrent.futures import ThreadPoolExecutor

root = os.path.dirname(os.path.dirname(os.path.abspath(__file__)))
patch = os.path.abspath(sys.argv[1])
props = sys.argv[2:] or ["C%02d" % i for i in range(1, 21)]
st = subprocess.run(["git", "-C", "/repo", "status", "--short"], capture_output=True, text=True).stdout.strip()
if st:
    sys.exit("refusing: /repo has uncommitted changes:\n" + st)
r = subprocess.run(["git", "-C", "/repo", "apply", patch], capture_output=True, text=True)
if r.returncode:
    sys.exit("patch does not apply: " + r.stderr)
try:
    def run(p):
        e = dict(os.environ, CLIKIT_SA_EVIDENCE_DIR="/tmp/seed_evidence")
        c = subprocess.run([os.path.join(root, "check"), p], capture_output=True, text=True, env=e, timeout=600)
        keys = re.findall(r"key: (.*)", c.stdout)
        errs = re.findall(r"ANALYSIS-ERROR.*", c.stdout)
        return p, c.returncode, keys, errs
    with ThreadPoolExecutor(16) as ex:
        res = list(ex.map(run, props))
finally:
    subprocess.run(["git", "-C", "/repo", "checkout", "--", "."], check=True)
hit = False
for p, rc, keys, errs in res:
    if rc:
        hit = True
        print("%s exit=%d" % (p, rc))
        for k in keys:
            print("     ", k[:200])
        for e in errs:
            print("     ", e[:200])
print("DETECTED" if hit else "MISSED", os.path.basename(os.path.dirname(patch)), os.path.basename(patch))
