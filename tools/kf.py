#!/venv/bin/python
"""Maintain /verif/known_findings.json.  usage:
  kf.py fixed <prop> <commit> <key> <what>
  kf.py known <prop> <key> <what> [also=C20,...]
"""
import json, os, sys
path = os.path.join(os.path.dirname(os.path.dirname(os.path.abspath(__file__))), "known_findings.json")
d = json.load(open(path))
kind = sys.argv[1]
if kind == "fixed":
    prop, commit, key, what = sys.argv[2:6]
    d["fixed"].append({"property": prop, "commit": commit, "key": key, "what": what,
                       "line": "fixed: property=%s %s %s" % (prop, commit, what)})
elif kind == "known":
    prop, key, what = sys.argv[2:5]
    e = {"property": prop, "key": key, "what": what, "line": "known: property=%s %s %s" % (prop, key, what)}
    for a in sys.argv[5:]:
        if a.startswith("also="):
            e["also"] = a[5:].split(",")
    d["known"].append(e)
json.dump(d, open(path, "w"), indent=1)
open(path, "a").write("\n")
