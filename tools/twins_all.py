#!/venv/bin/python
"""Run EVERY property's quick check against EVERY kept behaviour-preserving refactor (/verif/twins/*.diff), in memory
(loader overlay, like the self-test) and on 16 processes.  Any finding that the unmodified tree does not have is a
false alarm.  usage: twins_all.py [--seeds]   (--seeds: also list, per seeded change, every property that reports it)"""
import glob, json, multiprocessing, os, sys
from concurrent.futures import ProcessPoolExecutor, as_completed
root = os.path.dirname(os.path.dirname(os.path.abspath(__file__)))
sys.path.insert(0, root)
from clikit_sa import selftest
from clikit_sa.loader import REPO, AnalysisError
from clikit_sa.cli import run_property

PROPS = ["C%02d" % i for i in range(1, 21)]


def base(prop):
    _, res = run_property(prop, "quick", 0)
    return prop, set(selftest._keys(res))


def one(args):
    prop, name, diff, base_keys = args
    m = selftest.M(name, None, None, None, twin=True)
    m.diff = diff
    return (prop,) + selftest._one((prop, 0, m, base_keys, REPO))


if __name__ == "__main__":
    from clikit_sa.parallel import pmap

    bases = dict(pmap(base, PROPS))
    jobs = []
    only = [a for a in sys.argv[1:] if not a.startswith("--")]
    props = PROPS
    for a in sys.argv[1:]:
        if a.startswith("--props="):
            props = a[8:].split(",")
    for f in sorted(glob.glob(os.path.join(root, "twins", "*.diff"))):
        if only and os.path.basename(f)[:-5] not in only:
            continue
        d = open(f).read()
        for p in props:
            jobs.append((p, os.path.basename(f)[:-5], d, bases[p]))
    res = pmap(one, jobs, label=lambda j: "%s under %s" % (j[1], j[0]))
    out = []
    for j, o in zip(jobs, res):
        if o and o[0] == "__error__":
            out.append((j[0], j[1], "FAILED", o[1], []))
        else:
            out.append(o)
    bad = [o for o in out if o[2] not in ("silent",)]
    for o in bad:
        print("FALSE-ALARM" if o[2] == "FAILED" else o[2].upper(), "twin", o[1], "under", o[0], o[3])
    print("%d twin x property runs, %d not silent" % (len(out), len(bad)))
    sys.exit(1 if bad else 0)
