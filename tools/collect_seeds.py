#!/venv/bin/python
"""For every /tmp/seedout/<ID>/patchN.diff + demoN.py: confirm it in a scratch worktree, run all checks
against it (applied to /repo and undone straight afterwards) and, when confirmed, keep it under
/verif/seeded/<ID>-<N>/ (patch.diff, demo.py, meta.json).  usage: collect_seeds.py [ID ...]"""
import glob, json, os, re, shutil, subprocess, sys

root = os.path.dirname(os.path.dirname(os.path.abspath(__file__)))
src = os.environ.get("SEED_SRC", "/tmp/seedout")
offset = int(os.environ.get("SEED_OFFSET", "0"))
ids = sys.argv[1:] or sorted(os.path.basename(d) for d in glob.glob(src + "/C*"))
for pid in ids:
    for patch in sorted(glob.glob("%s/%s/patch*.diff" % (src, pid))):
        n = re.search(r"patch(\d+)\.diff", patch).group(1)
        demo = "%s/%s/demo%s.py" % (src, pid, n)
        dest = os.path.join(root, "seeded", "%s-%d" % (pid, int(n) + offset))
        if os.path.exists(os.path.join(dest, "meta.json")) or not os.path.exists(demo):
            continue
        cached = "%s/%s/confirm%s.txt" % (src, pid, n)  # written by a parallel pre-pass of confirm_seed.py
        if os.path.exists(cached):
            class c: stdout = open(cached).read()
            confirmed = c.stdout.startswith("CONFIRMED")
        else:
            c = subprocess.run([os.path.join(root, "tools/confirm_seed.py"), patch, demo], capture_output=True, text=True)
            confirmed = c.returncode == 0
        print(c.stdout.strip())
        if not confirmed:
            continue
        t = subprocess.run([os.path.join(root, "tools/try_seed.py"), patch], capture_output=True, text=True)
        print(t.stdout.strip())
        detected_by = re.findall(r"^(C\d+) exit=1", t.stdout, re.M)
        errors = re.findall(r"^(C\d+) exit=2", t.stdout, re.M)
        keys = [k.strip() for k in re.findall(r"^\s{5,}(C\d+-R.*)$", t.stdout, re.M)]
        notes = ""
        np_ = "%s/%s/notes.md" % (src, pid)
        if os.path.exists(np_):
            notes = open(np_).read()
        os.makedirs(dest, exist_ok=True)
        shutil.copy(patch, os.path.join(dest, "patch.diff"))
        shutil.copy(demo, os.path.join(dest, "demo.py"))
        meta = {
            "property": pid,
            "origin": "independent sub-agent given only the property record and a scratch worktree",
            "needs_to_manifest": "see notes",
            "author_notes": notes,
            "confirmed": {"suite": "396 passed, 1 pre-existing failure (baseline)", "demo_with_change": "fails", "demo_without_change": "passes",
                          "how": "tools/confirm_seed.py in a scratch worktree under /tmp (removed afterwards)", "detail": c.stdout.strip().split("\n")[1:]},
            "checks_run": "tools/try_seed.py (git -C /repo apply; all 20 quick checks; git -C /repo checkout -- .)",
            "detected_by": detected_by,
            "analysis_errors": errors,
            "finding_keys": keys[:8],
        }
        json.dump(meta, open(os.path.join(dest, "meta.json"), "w"), indent=1)
