#!/venv/bin/python
"""In-memory regression run of every kept seeded change against every property's quick check (16 processes).
Prints, per seed, the properties that report it; exits 1 if a seed that meta.json records as detected is no longer
reported by the same properties.  (The authoritative run - git apply to /repo - is tools/reseed_table.py.)"""
import glob, json, multiprocessing, os, sys
from concurrent.futures import ProcessPoolExecutor, as_completed
root = os.path.dirname(os.path.dirname(os.path.abspath(__file__)))
sys.path.insert(0, root)
from clikit_sa import selftest
from clikit_sa.loader import REPO
from clikit_sa.cli import run_property

PROPS = ["C%02d" % i for i in range(1, 21)]


def base(prop):
    _, res = run_property(prop, "quick", 0)
    return prop, set(selftest._keys(res))


def one(args):
    prop, name, diff, base_keys = args
    m = selftest.M(name, None, None, None, expect=prop + "-R")
    m.diff = diff
    return (prop,) + selftest._one((prop, 0, m, base_keys, REPO))


if __name__ == "__main__":
    only = [a for a in sys.argv[1:] if not a.startswith("--")]
    from clikit_sa.parallel import pmap

    bases = dict(pmap(base, PROPS))
    jobs = []
    metas = {}
    for d in sorted(glob.glob(os.path.join(root, "seeded", "C*-*"))):
        name = os.path.basename(d)
        if only and name not in only:
            continue
        metas[name] = json.load(open(os.path.join(d, "meta.json")))
        diff = open(os.path.join(d, "patch.diff")).read()
        for p in PROPS:
            jobs.append((p, name, diff, bases[p]))
    res = pmap(one, jobs, label=lambda j: "%s under %s" % (j[1], j[0]))
    out = [((j[0], j[1], "broken", o[1], []) if (o and o[0] == "__error__") else o) for j, o in zip(jobs, res)]
    det = {}
    for o in out:
        if o[2] == "detected":
            det.setdefault(o[1], []).append(o[0])
        elif o[2] in ("skipped", "broken"):
            print("NOTE", o[1], o[0], o[2], o[3])
    lost = 0
    for name, meta in sorted(metas.items()):
        now = sorted(det.get(name, []))
        was = sorted(set(meta.get("detected_by", [])) | set(meta.get("analysis_errors", [])))
        flag = ""
        if set(was) - set(now):
            flag = "   <-- LOST " + ",".join(sorted(set(was) - set(now)))
            lost += 1
        print(name, now, flag)
    print("%d seeds, %d reported, %d lost a reporter" % (len(metas), sum(1 for n in metas if det.get(n)), lost))
    sys.exit(1 if lost else 0)
