#!/venv/bin/python
"""Regenerates the generated parts of DESIGN.md: section 9 (seeded changes table) and section 10 (rule inventory from the evidence files)."""
import glob, json, os, re
root = os.path.dirname(os.path.dirname(os.path.abspath(__file__)))
p = os.path.join(root, "DESIGN.md")
s = open(p).read()
table = open(os.path.join(root, "seeded", "TABLE.md")).read()
metas = {os.path.basename(d): json.load(open(os.path.join(d, "meta.json"))) for d in glob.glob(os.path.join(root, "seeded", "C*-*"))}
n = len(metas)
det = sum(1 for m in metas.values() if m["detected_by"])
own = sum(1 for k, m in metas.items() if m["property"] in m["detected_by"])
sec9 = """## 9. Independently seeded changes: which checks catch which

Twenty sub-agents (one per property) were each given only the property
record and a scratch git worktree of /repo under /tmp - nothing from /verif -
and asked for three changes that break the property through different
mechanisms, keep the pinned suite at its baseline and need something specific
to manifest, each with a demonstration program. All %d deliveries were
confirmed by `tools/confirm_seed.py` in a fresh scratch worktree (patch applies,
suite = 396 passed + the one pre-existing failure, demonstration fails with
the change and passes without it; worktree removed afterwards) and are kept
under `/verif/seeded/<ID>-<n>/` (`patch.diff`, `demo.py`, `meta.json` with the
author's notes on what the change needs in order to manifest). Each was then
applied to /repo (`git apply`), all 20 quick checks were run, and /repo was
restored at once (`tools/try_seed.py`, `tools/reseed_table.py`).

First pass (rules as built in round 1): 25 of 60 were reported. Every miss was
triaged: where the broken clause is visible in the shape of the code and is a
necessary condition of the property, a rule was added or generalised (round 2
below); where it is a value-level fact it stays declined. Now **%d of %d** are
reported, %d of them by the check of the very property the change was seeded
for (the others by a neighbouring property's check as well or instead - the
shared rules are instantiated under both ids where the property text covers
them). Every kept seed that a check reports is also part of that check's
self-test in the thorough tier (the patch is applied in memory), so a later
weakening of a rule that lets one through again is an ANALYSIS-ERROR.

%s
Not reported (all four are arithmetic / string-value facts, i.e. clauses this
family declines - no structural necessary condition distinguishes them from
correct code):

* `C01-1` - the last letter of a short-option group is handed `""` instead of
  `None` (`name[i + 1:]` without the `length - 1 == i` test): whether a slice
  is empty is index arithmetic.
* `C14-1` - the rounding correction of the column widths is applied to the
  wrong column index: arithmetic over runtime widths.
* `C15-1` - rows of a wrapped line counted as `len // width + 1` instead of
  `ceil(len / width) or 1`: arithmetic.
* `C16-2` - `(k * count) %% width` rewritten as `k * (count %% width)`: arithmetic.

Rules added or generalised in round 2 because a seed showed the gap (each is a
necessary condition of its property and silent on the unchanged tree):
C01-R6 (sentinel loops in the parser), C01-R7 (presence by membership, not by
`is None`), C02-R6 (= C05-R1 under C02), C03-R8 (option pass hands on the
command it was given), C03-R9 (`default`/`anonymous` markers written together),
C03-R10 (own command only when no default sub-command result), C04-R1 (falsy
test on the handler's own result), C04-R6 (no unguarded conversion of foreign
data in the exception arm), C04-R7 (= C20-R5), the `setdefault` model in the
effect engine (C05-R2), C06-R7 (`set_*` resets every field `add_*` writes),
C07-R2 (default routed when `is not None`), C07-R6 (prefix stripping removes
one prefix), C08-R4 (unescape set = delimiters; one whitespace predicate),
C09-R7/R8 (= C10-R3, C18-R3 under C09), C11-R2 (an option is emitted under its
own predicate only), C11-R5 (one saved indentation per output), C11-R6 /
C15-R1 (the ANSI decision is the output's own, not the raw stream's), C12-R7
(no constructed defaults in the event classes), C12-R8 (registration facades
forward every parameter), C13-R3 (section guards include inherited elements),
C13-R5 (long words are broken; the help command takes a path), C14-R3
(budgeted border characters = drawn ones; pad width measured format-aware),
C15-R3 (slice form of the scan), C16-R5 (who may write the throttle reference
and the on-screen length), C17-R7 / C20-R7 (no stateful object shared at class
level or as a default), C18-R2 (per-entry freshness, exceptional edges do not
count as assignments), C19-R4 (no join under a lock the spinner takes), C19-R5
(join before the end frame), C20-R6 (gap text copied from the source line).

**Refactor twins (false-alarm test).** A second round of twenty sub-agents, again
given only a property record and a scratch worktree, each wrote four
behaviour-preserving changes of different kinds to the code named in the
property's anchors (rename private names, extract / inline a helper,
restructure control flow, reorder / split statements, equivalent idioms,
modernise). All 80 keep the suite at baseline and are kept as
`/verif/twins/<ID>-<n>.diff`. Run against all 20 checks
(`tools/try_refactors.py`), the round-1/2 rules raised an alarm on 26 of them
- every one a defect of the *checker* (a rule tied to a name, to one
syntactic form, or to one function where the construct had moved to a
helper). All 26 were corrected in the rules (never by loosening what is
demanded): anchors are now found by what the code does (the validity
predicate and cursor advance of the tokenizer, the listener store and its
sorted cache, the section scan, the spinner thread attribute, the marker
fields of the builder and the field behind a getter), guards are accepted in
either polarity / conjunct order / De Morgan form, and every rule that looks
for a construct in a function also looks through the private helpers that
function calls on `self` (resets, invalidations, collision checks, joins,
registrations, formatter choice, gate level table, option-token prefix,
report writes). Taint findings are keyed by (class, kind of source -> kind of
sink) so that extracting a helper or renaming a local does not turn a known
finding into a new one. Now **0 of 80** raise an alarm, and all seeds are
reported exactly as before. The four twins of each property are part of that
property's thorough self-test.

Findings the sub-agents reported about the *unchanged* tree while looking for
seeds (cross-checked): markup in messages / file names makes `run()` raise
(= K1a-K1h); `help help` vs `help --help` differ, sections ignore `-q`/`-v` of
their parent, ascii tables raise `ValueError: invalid width` for narrow widths,
a frame whose file is not Python source makes `render` raise `TokenError`,
an exception that was never raised renders nothing - these are outside the
clauses decided here (value-level or not covered by a property clause that
static rules can state) and are listed for whoever takes the other families.

---------------------------------------------------------------------------

""" % (n, det, n, own, table)
rules = []
for f in sorted(glob.glob(os.path.join(root, "evidence", "C*.json"))):
    ev = json.load(open(f))
    for r in ev["coverage"]["rules"]:
        rules.append((r["id"], r["kind"], r["instances"], r["statement"]))
sec10 = "## 10. Rule inventory (generated from the evidence files of the last run)\n\n| rule | kind | instances | statement |\n|------|------|-----------|-----------|\n"
for r in rules:
    sec10 += "| %s | %s | %d | %s |\n" % (r[0], r[1], r[2], r[3].replace("|", "/"))
i = s.index("## 9. Independently seeded changes")
s = s[:i] + sec9 + sec10
open(p, "w").write(s)
print("rules:", len(rules))
