#!/venv/bin/python
"""Regenerates the generated parts of DESIGN.md: section 9 (seeded changes table) and section 10 (rule inventory from the evidence files)."""
import glob, json, os, re
root = os.path.dirname(os.path.dirname(os.path.abspath(__file__)))
p = os.path.join(root, "DESIGN.md")
s = open(p).read()
table = open(os.path.join(root, "seeded", "TABLE.md")).read()
metas = {os.path.basename(d): json.load(open(os.path.join(d, "meta.json"))) for d in glob.glob(os.path.join(root, "seeded", "C*-*"))}
n = len(metas)
det = sum(1 for m in metas.values() if m["detected_by"])
own = sum(1 for k, m in metas.items() if m["property"] in m["detected_by"])
ntw = len(glob.glob(os.path.join(root, "twins", "*.diff")))
twin_note = open(os.path.join(root, "twins", "STATUS.md")).read().strip() if os.path.exists(os.path.join(root, "twins", "STATUS.md")) else ""
sec9 = """## 9. Independently seeded changes: which checks catch which

Four rounds of twenty sub-agents (one per property) were each given only the
property record and a scratch git worktree of /repo under /tmp - nothing from
/verif - and asked for changes that break the property through different
mechanisms, keep the pinned suite at its baseline and need something specific
to manifest, each with a demonstration program: three per property in the
first round, four in each of the second, third and fourth (the later rounds were
also handed the notes of the earlier ones as "already tried"; the fourth was
asked to re-read the statement clause by clause for a clause none of the
eleven earlier changes touches and to look two steps away from the anchors -
what builds the objects and wires them together at application start; the third was
asked for code one step away from the anchors - helpers, constructors,
accessors, facades, sibling classes - for changes spread over two sites, for
not-quite-equivalent modernisations and for boundary cases; the second got a
list of kinds of slip to spread over: a moved
check or reset, a condition weakened or strengthened by one conjunct, a value
cached or shared where it was recomputed or copied, two siblings made to
disagree, state not updated on an early-return or exception path, a wrong but
plausible argument, an exception type or handler changed, iteration order or
insertion position). All %d deliveries were confirmed by `tools/confirm_seed.py`
in a fresh scratch worktree (patch applies, suite = 396 passed + the one
pre-existing failure, demonstration fails with the change and passes without
it; worktree removed afterwards) and are kept under `/verif/seeded/<ID>-<n>/`
(`patch.diff`, `demo.py`, `meta.json` with the author's notes on what the
change needs in order to manifest; n = 1-3 first round, 4-7 second round, 8-11
third round, 12-15 fourth round, 16-18 a fifth, small round for C03, C14, C17, C18,
C19 and C20 - 25 minutes per agent, 14 changes). One
delivery of the second round (`C13-5`) had been swapped with another agent's
change through the repository-wide `git stash`; the confirmation step caught
it (the demonstration passed with the patch) and the right diff, which the
other agent had saved, was confirmed instead. Each change was then applied to
/repo (`git apply`), all 20 quick checks were run, and /repo was restored at
once (`tools/try_seed.py`, `tools/reseed_table.py`). The seed `C15-1` and two
refactor twins touch the lines that the repair F24 rewrote; they were
re-derived on the repaired tree (same change) and confirmed again.

First round: 25 of 60 were reported by the rules as first built, 56 of 60
after the rules of "round 2" below. Second round: of the 80 new changes 28
were reported by the check of their own property, 12 only by a neighbouring
property's check and 40 by none. Every miss was triaged: where the broken
clause is visible in the shape of the code and is a necessary condition of
the property, a rule was added or generalised ("round 3" below); where it is a
value-level fact, or outside what the property quantifies over, it stays
declined. Third round: of its 80 changes 14 were reported by the check of
their own property, 15 only by a neighbouring property's check and 51 by none
- the rules of "round 4" below came out of that triage. Three repairs (F24,
F26, F27) changed code that kept seeds patch; `C15-1` and `C20-8` were
re-derived on the repaired tree and confirmed again, `C20-6`, `C03-9` and
`C17-1` could no longer be confirmed (their demonstrations relied on the
repaired behaviour) and were retired to `seeded/retired/` with the reason in
their `meta.json`. Fourth round: of its 80 changes 26 were reported by the check
of their own property, 10 only by a neighbouring property's check and 44 by
none; the rules of "round 5" below came out of that triage (41 of the 44 are
reported now, three stay declined - below). Fifth (small) round: 3 of 14 reported
as the checks stood, all 14 after the rules of "round 6" below. Now **%d of %d** are reported, %d of them by the check of the very
property the change was seeded for (shared rules are instantiated under both
ids where the property text covers them). Every kept seed that a check
reports is also part of that check's self-test in the thorough tier (the patch
is applied in memory), so a later weakening of a rule that lets one through
again is an ANALYSIS-ERROR.

%s
Not reported by the property they were seeded for:

* `C01-1` - the last letter of a short-option group is handed `""` instead of
  `None` (`name[i + 1:]` without the `length - 1 == i` test): whether a slice
  is empty is index arithmetic.
* `C14-1` - the rounding correction of the column widths is applied to the
  wrong column index: arithmetic over runtime widths.
* `C15-1` - rows of a wrapped line counted as `len // width + 1` instead of
  `ceil(len / width) or 1`: arithmetic (wrong only for exact multiples).
* `C16-2` - `(k * count) %% width` rewritten as `k * (count %% width)`: arithmetic.
* `C16-8` - the `+ 1` dropped from the number of section rows a progress bar
  clears: arithmetic.
* `C08-13` - a backslash that escapes nothing consumes only itself instead of
  itself and the next character: which characters a token consists of is the
  value-level inverse law of quoting (declined in section 5); every structural
  clause (progress, null-safety, tables) still holds.
* `C18-13` - `ChoiceQuestion.choices` returns a copy, so the validator checks a
  snapshot while the prompt prints the live list: it needs the caller to edit
  the list between constructing and asking the question, and whether a getter
  should alias or copy is a design choice no clause of the property fixes.
* `C19-13` - the frame format is looked up in a table keyed by the exact
  verbosity, which has no DEBUG row: which format string is shown at which level
  is a value-level table the property does not state.

* `C16-12` - rows of a frame counted as `len // width + 1` in
  `SectionOutput._get_row_count` (the arithmetic of `C15-1` again, now in the
  helper that F24 introduced): no rule decides it, but the row-counter rules of
  C15 identify the counter as "the field incremented by a ceiling", lose that
  anchor and end in ANALYSIS-ERROR (exit 2) - fail-closed, not a verdict.
* `C04-15` - the version listener writes `event.handled(version_requested)`
  unconditionally, un-handling what an earlier listener handled: reported by
  C09-R5 (the listener marks the event handled under the version test only). It
  is not instantiated under C04 because C09 already instantiates a C04 rule
  (C04-R15) and `Ctx.borrow` must stay acyclic.

`C05-7` (and its re-inventions `C02-13`, `C03-14`: `Config.args_parser` keeps
the default parser it creates, so all commands and threads of a configuration
share one parser) was declined until round 5 because a rule against "a getter
that fills in a default" would fire on the command resolver and the style set
of the unchanged tree. C05-R8 is confined to the one field whose object has
per-request scratch state (the parser): that field is written by the
constructor and its setter only. What it decides is the ownership clause; that
two overlapping parses on one parser actually corrupt each other remains a
statement about schedules.
* `C08-7` - one `TokenParser` kept as a class attribute of `StringArgs`:
  reported by C17-R7 (a stateful object created once at class level), not by
  C08: tokenising any single string still gives the right tokens (`parse()`
  re-initialises the scanner), the demonstration again needs two constructor
  calls interleaved on two threads.

Rules added or generalised in round 2 because a seed showed the gap (each is a
necessary condition of its property and silent on the unchanged tree):
C01-R6 (sentinel loops in the parser), C01-R7 (presence by membership, not by
`is None`), C02-R6 (= C05-R1 under C02), C03-R8 (option pass hands on the
command it was given), C03-R9 (`default`/`anonymous` markers written together),
C03-R10 (own command only when no default sub-command result), C04-R1 (falsy
test on the handler's own result), C04-R6 (no unguarded conversion of foreign
data in the exception arm), C04-R7 (= C20-R5), the `setdefault` model in the
effect engine (C05-R2), C06-R7 (`set_*` resets every field `add_*` writes),
C07-R2 (default routed when `is not None`), C07-R6 (prefix stripping removes
one prefix), C08-R4 (unescape set = delimiters; one whitespace predicate),
C09-R7/R8 (= C10-R3, C18-R3 under C09), C11-R2 (an option is emitted under its
own predicate only), C11-R5 (one saved indentation per output), C11-R6 /
C15-R1 (the ANSI decision is the output's own, not the raw stream's), C12-R7
(no constructed defaults in the event classes), C12-R8 (registration facades
forward every parameter), C13-R3 (section guards include inherited elements),
C13-R5 (long words are broken; the help command takes a path), C14-R3
(budgeted border characters = drawn ones; pad width measured format-aware),
C15-R3 (slice form of the scan), C16-R5 (who may write the throttle reference
and the on-screen length), C17-R7 / C20-R7 (no stateful object shared at class
level or as a default), C18-R2 (per-entry freshness, exceptional edges do not
count as assignments), C19-R4 (no join under a lock the spinner takes), C19-R5
(join before the end frame), C20-R6 (gap text copied from the source line).

Rules added or generalised in round 3 (second seeding round; same standard):
C01-R3 / C02-R7 (with the separator flag cleared every drawn token reaches
the positional parse - a second `--` is a value), C01-R8 (the attached value
is the open-ended remainder after the FIRST `=`), C01-R9 (the accessors of
`Args` never mutate the value maps, at any alias depth), C01-R10 (= C05-R1
under C01), C02-R8 (a constant index into a freshly drawn token only behind a
non-emptiness test, on every *feasible* path - flag conditions are tracked),
C02-R9 (no `None` assignment can reach the value-given-to-a-flag test except
under a non-string sentinel), C02-R10 (= C01-R6), C03-R5 (the registration
markers are asked of the command being added, not of its parent), C03-R11
(the trial parse of a default is caught for the cannot-parse class only),
C04-R8 (`is_handled` reads exactly the field `handled()` writes), C04-R9 (the
handler's result is passed on unchanged), C04-R10 / C20-R8 (= C17-R4, whose
key cover is now per attribute: `frame.filename` in the key does not cover
`frame.lineno` in the value), C05-R4 (`Command.parse` stores nothing),
C06-R5 (a marker is set under its own predicate and under no other), C07-R8
(every constructor chain calls every unconditional validator of its
hierarchy), C07-R9 (a rejected `set_default` stores nothing), C07-R10 (=
C02-R4), C08-R4 (the unescape set may be a parameter: default and every
argument must be the constant delimiter set), C08-R5 (every scanned token is
appended on every path), C09-R6 / C10-R5 (`IO.set_*` reaches both outputs on
every path), C09-R9 (the I/O is built before the command is resolved),
C09-R10 (the decoration decision of `Output()` as an 8-row truth table),
C09-R11 / R12 (= C01-R4 lookahead clause, C02-R2), C11-R7 (lines are indented
before they are formatted), C11-R8 (`IO.error_*` delegates like `IO.write_*`),
C12-R4 (the rebuild carries over every stored listener), C12-R6 (the
all-events form rebuilds every missing entry), C12-R9 (listener presence is
never stored), C13-R6 (the wrap width pays for every prefix added outside the
wrapper), C13-R7 (= C17-R5 for help pages; the reset-before-use exemption now
follows calls on the same object only), C14-R4 (running maxima over every
row), C14-R5 (emptiness of a border line is tested after stripping), `x +=
[...]` on an alias of a field is an in-place mutation in the effect engine
(C14-R1, C17-R5), C15-R4 (erased sections are re-printed un-indented), C15-R5
/ C17-R6 (a class-level container handed to a constructor that registers in
it), C15-R6 (rows and lines are different units - found F24), C15-R7 (record
and print on the same paths), C16-R1 (erasing a section is an overwrite-mode
operation), C16-R6 (lower bound of the stored step on every path), C16-R7
(the throttle parameter is stored whatever the output), C16-R8 (= C15-R3),
C17-R8 (a getter never replaces a configured value by what it derived from
it), C17-R9 / R10 (= C05-R1 for `CellWrapper.fit` and for parsers kept on a
config), C18-R5 (the validator call sits under `except Exception`), C18-R6
(the blank-collapsed answer does not reach the single-select candidate),
C18-R7 (`re.match`, not `re.search`), C18-R8 (end of input is `''`, so the
abort is under a falsiness test), C19-R6 (the spinner thread never rebinds
the handle / stop event the caller joins through), C20-R9 (a single frame
line is tokenised under a handler for `TokenError`), C20-R10 (lines are cut
at `\\n` only, never with `splitlines()`).

Rules added or generalised in round 4 (third seeding round; same standard; a
rule named "= Cxx-Ry" is that rule instantiated here through `Ctx.borrow` or a
shared function, with this property's own statement of why it needs it):
C01-R11 / C02-R9 (the look-ahead for an option value sees whether a value was
attached, not whether it is empty), C01-R12 (a synthesised argument name is
tested against the format it will be merged with), C01-R13 (= C07-R2),
C02-R11 (the required-argument scan is unconditional), C02-R12 / C05-R5 (the
facade `Command.parse` defaults the mode only when it is None), C03-R1 (the
name as given is tested before any alias translation; `any(.. in index for
index in ..)`), C03-R12 (a boolean marker is not compared with None), C03-R13
/ C06-R8 (the fall-through to the base format is recursive), C03-R14 /
C05-R6 (= C17-R2), C04-R11 (no `__exit__` returns something truthy), C04-R12
(= C05-R1), C04-R13 (= C12-R1), C04-R14 (= C17-R8), C04-R15 / C09-R16 (the
handler is not looked up before the handled return), C05-R7 (= C17-R6 for
the parser classes), C06-R9 (positional look-up is bounded or handled),
C06-R10 (alias loops run for every command option), C07-R11 (a converter
returns its input only under `isinstance` of exactly the target type),
C07-R12 (the value whose length classifies an alias is the value stored),
C08-R4 (whitespace is `str.isspace()`, not a literal list), C08-R6 / C09-R13
/ C17-R11 (= C05-R2), C08-R7 (= C05-R1 for `TokenParser.parse`), C09-R14 (=
C10-R2), C09-R15 / C11-R9 (every arm of the I/O factory hands the style set
to its formatter), C09-R17 / C13-R11 (the lenient switch governs the parse
handed on - found F27), C10-R6 (level flags are distinct single bits, constant
expressions folded), C10-R7 (gate fields written by constructor and own
setters only; re-running the constructor on self counts), C10-R8 (the I/O
facade delegates on every path), C10-R9 (no store before the check in the
gate setters), C11-R3 (`add_style` registers on every path), C11-R10 /
C15-R8 (`remove_format` strips with the engine `format` renders with), C12-R4
(no cache entry bound to an existing list), C12-R10 (every event class
initialises the propagation state - found F25), C12-R11 (no event class
overrides the propagation methods), C12-R12 (plain-dict store;
`get_listener_priority` returns only on a match), C13-R3 (inherited options
come from the format's base chain), C13-R8 (= C17-R3), C13-R9 (help
components wrap, write constants, or delegate), C13-R10 (no `str.join` over
a parameter declared Any), C14-R6 (= C17-R1), C14-R7 (total width = sum of
column maxima), C14-R8 (None-marked lists are tested with `is None`), C14-R9
(the table constructor derives nothing from the style), C15-R9 (a field
computed from the content list is dropped on every change of the list),
C15-R10 (what is measured is what is recorded), C16-R3 (nothing but reaching
the maximum goes around the throttle), C16-R9 (`_nomax` variant first),
C16-R10 (step and percentage are set together), C17-R12 (building the I/O
writes nothing into the long-lived configuration), C18-R9 (`set` truncates
before it writes), C18-R10 (the ambiguity test is on every path to the
acceptance), C18-R11 (the pattern is stored as given), C18-R12 (`max(*seq)`
only behind `len > 1`), C19-R7 (every normal path of the joining method
joins; a created thread is started on every path to the body), C19-R8 (the
spinner index is reduced where it is used), C19-R9 (capability questions go
to `self._io` after the unwrap), C20-R2 (the ignore pattern is matched
against the frame's own file name), C20-R4 (simple mode prints
`str(exception)`, not a component), C20-R9 (every path into the tokenizer
passes a handler - found F26), C20-R11 (no empty literal from a method whose
result is subscripted), C20-R12 (no lossy re-encoding).

Rules added or generalised in round 5 (fourth seeding round; same standard):
C01-R14 (the parser's own option map is keyed by the long name: a key
parameter is bound to `.long_name` or to text cut from a `--` token at every
call site), C01-R15 / C07-R13 (the isinstance arm of a subtype is not pre-empted
by an arm of its base type that rebinds the value - bool before int), C02-R13
(an error factory behind `raise f(...)` returns a value on every path), C02-R14
(nothing but `value is None` and `is_value_required()` governs the
requires-a-value raise), C02-R15 / C03-R17 / C05-R8 (the field behind
`Config.args_parser` is written by constructor and setter only), C03-R15 (the
empty-line arm resolves what `process_default_commands` chose), C03-R16 (the
CONFIG event is dispatched before the command configuration is read),
C04-R3 (a second handler call reached through a handler's exceptional edge),
C04-R16 / C20-R13 (no partial path function - `commonpath`, `relpath`,
`stat` ... - on a frame's file name outside a handler), C05-R1 (scratch
containers mutated through a local alias), C06-R11 / C07-R12 (the alias filed is
the alias measured and validated, not the spelling before the dash was
removed), C07-R14 (the numeric converters raise only from the handler around
the builtin conversion), C08-R8 (a constant index is covered by the length
test in force), C09-R18 / C18-R15 (each effect in `create_io` is governed by
one switch family), C09-R19 (level predicates are thresholds), C09-R20 (every
construction of a Command passes the application), C10-R10 (an overriding
flagged write keeps the parameter positions), C11-R11 (the IO / Output
facades forward every parameter), C12-R13 (nothing read from the
configuration before the CONFIG event is used after it), C12-R14 (the
optional event name is tested against None, not for truthiness), C13-R11 /
C09-R17 (the consumer of the lazily parsed result is inside the lenient
window), C14-R10 (cells are wrapped to the column length itself), C14-R11 /
C17-R13 (a module-level instance is never configured per call), C14-R12 (the
alignment list is extended exactly when `col >= len`), C14-R13 (an
instance-level memo is keyed by everything its value is computed from),
C15-R11 (row-counting loops over the paired content list step by two),
C15-R12 (the width announced by the environment is not kept in the Terminal),
C16-R11 (membership decides whether a message exists), C17-R2 (leniency
switched on by a listener inside the config package is paired too), C17-R14
(a lazily created class-slot object is published when complete), C17-R15 (no
class- / module-level container of mutable package instances), C18-R13 (every
`section()` hands on the Input object itself), C18-R14 (`append` takes the
read position before it seeks to the end), C19-R1 / C19-R10 (joins of the
spinner thread are unbounded; the end message is stored whatever it is),
C20-R14 (the simple arm depends on `simple` alone), C20-R15 (every
Highlighter is told the output's UTF-8 support; snippet call sites agree),
C20-R16 (the source is split unstripped).

Rules added or generalised in round 6 (fifth, small seeding round): C03-R18 (a
configuration field that is changed in place is never bound to the caller's
list), C14-R14 (cells are cut with `split('\\n')`, never `splitlines()`),
C17-R16 (= the scratch-reset rule for `LabelAlignment.align`), C18-R16 (the
answer is trimmed with `strip()`), C18-R17 (an entry is looked up by value
before it is read as an index), C18-R18 (no reachable statement of the input
stream's constructor moves the stream - the `seek(0)` of the unchanged tree is
dead code: its guard `hasattr("stream", "seekable")` asks a string literal and
is constant-false, which the CFG now folds; the seed "repairs" the guard),
C19-R11 (the spinner side never resets the stop event), C19-R12 (every store to
the redraw deadline comes from the millisecond clock), C19-R13 (the frame
renderer is referenced under the lock only), C20-R9 (a handler around the
tokenizer counts only when it takes TokenError and SyntaxError), C20-R17 (the
ignore pattern is applied with `match()`).

**Refactor twins (false-alarm test).** Four further rounds of twenty sub-agents,
again given only a property record and a scratch worktree, each wrote four
behaviour-preserving changes of different kinds to the code named in the
property's anchors (rename private names, extract / inline a helper,
restructure control flow, reorder / split statements, equivalent idioms,
modernise); the second and third of these rounds were asked for other
functions and files than the earlier ones (the third for the code one step
away from the anchors, which is where the round-4 rules look, the fourth for
rewrites of whole functions - table for if-chain, comprehension for loop,
orchestrator over helpers, lambda for closure). All keep the suite at baseline and are kept as
`/verif/twins/<ID>-<n>.diff` (%d in all). Run against all 20 checks, the
round-1/2 rules raised an alarm on 26 of the first 80 - every one a defect of
the *checker* (a rule tied to a name, to one syntactic form, or to one
function where the construct had moved to a helper). All were corrected in
the rules (never by loosening what is demanded): anchors are found by what
the code does (the validity predicate and cursor advance of the tokenizer,
the listener store and its sorted cache, the section scan, the spinner thread
attribute, the marker fields of the builder, the field behind a getter, the
row counter of a section as "the field incremented by a ceiling"), guards are
accepted in either polarity / conjunct order / De Morgan form, and every rule
that looks for a construct in a function also looks through the private
helpers that function calls on `self`. Taint findings are keyed by (class,
kind of source -> kind of sink) so that extracting a helper or renaming a
local does not turn a known finding into a new one. %s
`tools/twins_all.py` runs every check against every twin in memory (6400
runs, about forty minutes on 16 cores); the twins of each property are also
part of that property's thorough self-test.  `tools/cross_all.py` applies every
kept seed on top of every kept twin of its property (where the patches compose)
and demands that the seed is still reported: detection must survive a refactor,
not only silence.

Findings the sub-agents reported about the *unchanged* tree while looking for
seeds (cross-checked): markup in messages / file names makes `run()` raise
(= K1a-K1h, reported again independently in the second round); `help help`
vs `help --help` differ, sections ignore `-q`/`-v` of their parent, ascii
tables raise `ValueError: invalid width` for narrow widths, a frame whose file
is not Python source makes `render` raise `TokenError`, an exception that was
never raised renders nothing - these are outside the clauses decided here
(value-level or not covered by a property clause that static rules can state)
and are listed for whoever takes the other families.

---------------------------------------------------------------------------

""" % (n, det, n, own, table, ntw, twin_note)
rules = []
for f in sorted(glob.glob(os.path.join(root, "evidence", "C*.json"))):
    ev = json.load(open(f))
    for r in ev["coverage"]["rules"]:
        rules.append((r["id"], r["kind"], r["instances"], r["statement"]))
sec10 = "## 10. Rule inventory (generated from the evidence files of the last run)\n\n| rule | kind | instances | statement |\n|------|------|-----------|-----------|\n"
for r in rules:
    sec10 += "| %s | %s | %d | %s |\n" % (r[0], r[1], r[2], r[3].replace("|", "/"))
i = s.index("## 9. Independently seeded changes")
s = s[:i] + sec9 + sec10
open(p, "w").write(s)
print("rules:", len(rules))
