#!/venv/bin/python
"""Detection under refactoring: every kept seeded change ON TOP OF every kept behaviour-preserving refactor of the same
property (where the two patches compose: the seed's hunks still apply to the refactored source), in memory, against that
property's quick check.  A refactor that blinds the rule that reports the seed shows up as MISSED here - the rule then
matched a shape, not the construct.  (Static: loader overlay only, nothing is run.)

usage: cross_all.py [seed names...] [--props=C01,C02]
"""
import glob, json, os, sys
root = os.path.dirname(os.path.dirname(os.path.abspath(__file__)))
sys.path.insert(0, root)
from clikit_sa import selftest
from clikit_sa.loader import REPO, AnalysisError
from clikit_sa.cli import run_property

PROPS = ["C%02d" % i for i in range(1, 21)]


def base(prop):
    _, res = run_property(prop, "quick", 0)
    return prop, set(selftest._keys(res))


def compose(twin_diff, seed_diff):
    def rd(rel):
        full = os.path.join(REPO, rel)
        if not os.path.isfile(full):
            return None
        with open(full, encoding="utf-8") as f:
            return f.read()
    ov = selftest.apply_unified_diff(twin_diff, rd)
    if ov is None:
        return None, "twin does not apply"

    def rd2(rel):
        return ov[rel] if rel in ov else rd(rel)
    ov2 = selftest.apply_unified_diff(seed_diff, rd2)
    if ov2 is None:
        return None, "seed does not compose"
    out = dict(ov)
    out.update(ov2)
    return out, ""


def one(args):
    prop, seed, twin, seed_diff, twin_diff, base_keys = args
    import ast
    ov, why = compose(twin_diff, seed_diff)
    if ov is None:
        return (prop, seed, twin, "skipped", why, [])
    try:
        for s in ov.values():
            ast.parse(s)
    except SyntaxError as e:
        return (prop, seed, twin, "skipped", "composition does not parse", [])
    try:
        ctx, results = run_property(prop, "quick", 0, repo=REPO, overlay=ov)
    except AnalysisError as e:
        return (prop, seed, twin, "detected", "analysis error (fail-closed): %s" % str(e)[:120], [])
    new = sorted(k for k in selftest._keys(results) if k not in base_keys)
    if new:
        return (prop, seed, twin, "detected", "", new[:2])
    return (prop, seed, twin, "MISSED", "", [])


if __name__ == "__main__":
    from clikit_sa.parallel import pmap

    only = [a for a in sys.argv[1:] if not a.startswith("--")]
    props = PROPS
    for a in sys.argv[1:]:
        if a.startswith("--props="):
            props = a[8:].split(",")
    bases = dict(pmap(base, props))
    jobs = []
    for d in sorted(glob.glob(os.path.join(root, "seeded", "C*-*"))):
        name = os.path.basename(d)
        if only and name not in only:
            continue
        meta = json.load(open(os.path.join(d, "meta.json")))
        sd = open(os.path.join(d, "patch.diff")).read()
        for p in meta.get("detected_by", []):
            if p not in props:
                continue
            for f in sorted(glob.glob(os.path.join(root, "twins", p + "-*.diff"))):
                jobs.append((p, name, os.path.basename(f)[:-5], sd, open(f).read(), bases[p]))
    res = pmap(one, jobs, label=lambda j: "%s on %s under %s" % (j[1], j[2], j[0]))
    out = [((j[0], j[1], j[2], "broken", o[1], []) if (o and o[0] == "__error__") else o) for j, o in zip(jobs, res)]
    n = {}
    for o in out:
        n[o[3]] = n.get(o[3], 0) + 1
        if o[3] in ("MISSED", "broken"):
            print(o[3], "seed", o[1], "on twin", o[2], "under", o[0], o[4][:200])
    fc = sum(1 for o in out if o[3] == "detected" and o[4].startswith("analysis error"))
    print("%d compositions: %s (%d of the detections are fail-closed analysis errors)" % (len(out), ", ".join("%s %d" % kv for kv in sorted(n.items())), fc))
    sys.exit(1 if n.get("MISSED") or n.get("broken") else 0)
