"""F26 candidate (C20/C04): a frame whose file is not tokenizable Python (a template compiled with its own file name)."""
import os, sys, tempfile
from clikit.io.buffered_io import BufferedIO
from clikit.ui.components.exception_trace import ExceptionTrace
d = tempfile.mkdtemp()
path = os.path.join(d, "page.tmpl")
open(path, "w").write('<ul>\n{% for item in items %}\n  <li class="x>{{ item }}</li>\n{% endfor %}\n</ul>\n("""never closed\n')
code = compile("\n\nraise ValueError('boom')\n", path, "exec")
for verbosity in (0, 1, 3):
    io = BufferedIO()
    if verbosity == 1:
        io.set_verbosity(2 if False else 16 and 1) if False else None
    try:
        exec(code, {})
    except ValueError as e:
        from clikit.api.io.flags import VERBOSE, DEBUG
        if verbosity == 1: io.set_verbosity(VERBOSE)
        if verbosity == 3: io.set_verbosity(DEBUG)
        try:
            ExceptionTrace(e).render(io)
            print("verbosity", verbosity, "rendered ok:", "ValueError" in io.fetch_output(), "boom" in io.fetch_output())
        except BaseException as x:
            print("verbosity", verbosity, "render RAISED", type(x).__name__, x)
