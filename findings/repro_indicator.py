"""Reproduces the two C19 defects against the real code (before their fixes).
Run: cd /tmp && timeout 60 /venv/bin/python /verif/findings/repro_indicator.py"""
import threading, time, sys
from clikit.io import BufferedIO
from clikit.formatter import AnsiFormatter
from clikit.ui.components import ProgressIndicator

# --- F15: a body raising SystemExit leaves the spinner running -------------------
io = BufferedIO(formatter=AnsiFormatter(forced=True))
ind = ProgressIndicator(io, interval=10)
try:
    with ind.auto("working", "done"):
        raise SystemExit(3)
except SystemExit:
    pass
time.sleep(0.3)
alive = ind._auto_thread.is_alive()
print("F15 spinner alive after the with-block was left by SystemExit:", alive)
if alive:  # clean up so that this script can end
    ind._auto_running.set(); ind._auto_thread.join()

# --- F19: forced schedule: caller erases, spinner draws a whole frame, caller draws ---
io = BufferedIO(formatter=AnsiFormatter(forced=True))
out = io.error_output
ind = ProgressIndicator(io, interval=0)
main = threading.current_thread()
state = {"n": 0}
gate = threading.Event()
orig_write = out.write
def write(string, *a, **k):
    orig_write(string, *a, **k)
    if threading.current_thread() is main and state.get("armed") and string.startswith("\x0D"):
        # the caller has just erased the line: let the spinner draw one full frame now
        state["armed"] = False
        gate.set()
        time.sleep(0.4)
out.write = write
with ind.auto("first", "done"):
    time.sleep(0.15)
    state["armed"] = True
    ind.set_message("second")
    time.sleep(0.1)
text = io.fetch_error()
# split the stream into terminal lines: "\r\x1b[2K" starts a fresh line image
frames = text.split("\x0D\x1B[2K")
mixed = [f for f in frames if f.count("first") + f.count("second") > 1]
print("F19 line images holding two frames:", mixed[:2])
