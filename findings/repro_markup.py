"""Reproduces the known findings of rule C20-R1 / C04-R4 against the real code.
Run: cd /tmp && /venv/bin/python /verif/findings/repro_markup.py   (each case prints the exception that escapes)"""
import os, sys, tempfile, textwrap
from clikit.io import BufferedIO
from clikit.api.io.flags import VERBOSE, DEBUG
from clikit.ui.components.exception_trace import ExceptionTrace
from clikit.formatter import PlainFormatter
from clikit.api.formatter import Style
from clikit.formatter import DefaultStyleSet

def attempt(name, fn):
    try:
        fn()
        print("%-14s rendered without error" % name)
    except Exception as e:  # noqa
        print("%-14s ESCAPES: %s: %s" % (name, type(e).__name__, e))

def render(exc_factory, verbosity=0, io=None):
    io = io or BufferedIO()
    if verbosity:
        io.set_verbosity(verbosity)
    try:
        exc_factory()
    except Exception as e:
        ExceptionTrace(e).render(io)

tmp = tempfile.mkdtemp()
def mod(name, src, filename=None):
    path = filename or os.path.join(tmp, name + ".py")
    with open(path, "w") as f:
        f.write(textwrap.dedent(src))
    ns = {}
    exec(compile(open(path).read(), path, "exec"), ns)
    return ns

# K1b: message -> remove_format
def k1b():
    def f(): raise RuntimeError("<b>x</info>")
    render(f)
attempt("K1b message", k1b)

# K1c: source file content -> remove_format (snippet of the failing frame)
def k1c():
    ns = mod("k1c", '''
        def f():
            x = "<b>tag</info>"
            raise RuntimeError("boom")
    ''')
    render(ns["f"])
attempt("K1c source", k1c)

# K1e: file name -> write_line (location line of the snippet)
def k1e():
    src = "def f():\n    raise RuntimeError('boom')\n"
    ns = {}
    exec(compile(src, "gen</error>.py", "exec"), ns)   # (</info> would match the green fg of this line)
    render(ns["f"])
attempt("K1e filename", k1e)

# K1f: file name -> write_line in the stack listing (verbose)
def k1f():
    src = "def g(h):\n    h()\n"
    ns = {}
    exec(compile(src, "gen</info>.py", "exec"), ns)
    def h(): raise RuntimeError("boom")
    render(lambda: ns["g"](h), VERBOSE)
attempt("K1f filename-v", k1f)

# K1g: source content -> remove_format for the per-frame snippets (debug)
def k1g():
    ns = mod("k1g", '''
        def g(h):
            y = "<b>tag</info>"
            h()
    ''')
    def h(): raise RuntimeError("boom")
    render(lambda: ns["g"](h), DEBUG)
attempt("K1g source-dbg", k1g)

# K1h: frame line -> remove_format (verbose stack listing)
def k1h():
    ns = mod("k1h", '''
        def g(h):
            h("</info>")
    ''')
    def h(x): raise RuntimeError("boom")
    render(lambda: ns["g"](h), VERBOSE)
attempt("K1h line-v", k1h)

# K1d: frame line -> write_line on the TokenError fallback, with an application style
def k1d():
    ns = mod("k1d", '''
        def g(h):
            h("<b></custom>",
              1)
    ''')
    def h(x, y): raise RuntimeError("boom")
    ss = DefaultStyleSet(); ss.add(Style("custom").fg("red"))
    io = BufferedIO(formatter=PlainFormatter(ss))
    render(lambda: ns["g"](h), VERBOSE, io)
attempt("K1d tokenerr", k1d)

# K1a: simple mode, out of Application.run with exception catching on
def k1a():
    from clikit import ConsoleApplication
    from clikit.config import DefaultApplicationConfig
    from clikit.args import ArgvArgs
    from clikit.io.output_stream import BufferedOutputStream
    from clikit.io.input_stream import StringInputStream
    cfg = DefaultApplicationConfig("app", "1.0"); cfg.set_terminate_after_run(False)
    with cfg.command("cmd") as c:
        c.set_description("d")
    app = ConsoleApplication(cfg)
    st = app.run(ArgvArgs(["app", "cmd", "--foo</info>"]), StringInputStream(""), BufferedOutputStream(), BufferedOutputStream())
    print("status", st)
attempt("K1a run()", k1a)
