"""F27 (C13/C09): `help server`, `server --help` and `server -h` failed with status 1 and "Not enough arguments (missing: host)" when the default
sub-command of `server` has a required argument.  Run: cd /tmp && PYTHONPATH=/repo/src /venv/bin/python /verif/findings/repro_help_default.py"""
from clikit.api.args.format import Argument
from clikit.config.default_application_config import DefaultApplicationConfig
from clikit.console_application import ConsoleApplication
from clikit.args.string_args import StringArgs
from clikit.io.output_stream.buffered_output_stream import BufferedOutputStream
from clikit.io.input_stream.string_input_stream import StringInputStream

def build():
    cfg = DefaultApplicationConfig("app", "1.0")
    cfg.set_catch_exceptions(True).set_terminate_after_run(False)
    with cfg.command("server") as c:
        c.set_description("Manage servers")
        with c.sub_command("add") as s:
            s.default()
            s.set_description("Add a server")
            s.add_argument("host", Argument.REQUIRED, "The host")
            s.set_handler(lambda args, io, command: 0)
    return ConsoleApplication(cfg)

for line in ("help server", "server --help", "server -h", "help server add", "server add --help"):
    out, err = BufferedOutputStream(), BufferedOutputStream()
    st = build().run(StringArgs(line), StringInputStream(""), out, err)
    print("%-20s status=%s  out:%r err:%r" % (line, st, out.fetch()[:60], err.fetch()[:80]))
