"""F24 (C15): partial clear of a section whose last line wraps.
Run: cd /tmp && COLUMNS=20 PYTHONPATH=/repo/src /venv/bin/python /verif/findings/repro_section_clear.py
Before the fix (16751ae^): after clear(1) the section reports 1 row although its content is empty, and only
ESC[1A is emitted for a line that occupies 2 rows - the first 20 'x' stay on the screen.  After it: 0 rows, ESC[2A."""
import os
os.environ["COLUMNS"] = "20"
os.environ["LINES"] = "24"
from clikit.io.buffered_io import BufferedIO
from clikit.formatter.ansi_formatter import AnsiFormatter

io = BufferedIO(formatter=AnsiFormatter(forced=True))
s = io.output.section()
assert s._terminal.width == 20
s.write_line("x" * 30)          # one logical line, two terminal rows
assert s.lines == 2
before = len(io.fetch_output())
s.clear(1)                      # remove that line
emitted = io.fetch_output()[before:]
print("rows after clear(1):", s.lines, "content:", repr(s.content), "emitted:", repr(emitted))
ok = s.lines == 0 and "\x1b[2A" in emitted
print("OK" if ok else "DEFECT: stale row on screen / row count does not match content")
raise SystemExit(0 if ok else 1)
