"""F25 (C12): a listener registered for the CONFIG event was never called: ConfigEvent did not chain to Event.__init__.
Run: cd /tmp && PYTHONPATH=/repo/src /venv/bin/python /verif/findings/repro_config_event.py   (before e-fix: RAISED AttributeError, 0 calls)"""
from clikit.api.config.application_config import ApplicationConfig
from clikit.api.event import CONFIG
from clikit.console_application import ConsoleApplication
calls = []
cfg = ApplicationConfig("app", "1.0")
cfg.add_event_listener(CONFIG, lambda event, name, dispatcher: calls.append(name))
try:
    ConsoleApplication(cfg)
    print("constructed; listener calls:", calls)
except Exception as e:
    print("RAISED", type(e).__name__, e, "listener calls:", calls)
