"""E5: forward taint dataflow with call summaries (param->return, param->sink).

Flow-insensitive inside a function (union over all definitions), summaries
iterated to a fixpoint over the package.  Labels are short strings naming the
source; ``('p', name)`` labels stand for "whatever the caller passes".
"""
import ast

from .loader import walk_no_nested, norm, FuncInfo, ClassInfo

NON_STRING_BUILTINS = {"len", "int", "float", "bool", "isinstance", "hasattr", "callable", "id", "hash", "ord", "range", "type", "any", "all", "round", "abs"}


class Flow(object):
    def __init__(self, label, source_node, sink_call, fi, sink_name, chain):
        self.label = label
        self.source_node = source_node
        self.sink_call = sink_call
        self.fi = fi  # function containing the sink call site reported
        self.sink_name = sink_name
        self.chain = chain  # list of function short names from the reporting function to the real sink


class TaintSummary(object):
    def __init__(self):
        self.param_to_ret = set()
        self.param_to_sink = {}  # param -> [(sink_name, chain)]
        self.src_to_ret = {}  # label -> source node


class Taint(object):
    def __init__(self, ctx, is_source, is_sink, is_sanitiser=None, clean_return=None, scope=None):
        """is_source(expr, fi) -> label or None
        is_sink(callsite, fi) -> (sink_name, [arg exprs that are interpreted]) or None
        clean_return(callsite) -> True if the call's result is clean whatever went in"""
        self.ctx = ctx
        self.is_source = is_source
        self.is_sink = is_sink
        self.is_sanitiser = is_sanitiser or (lambda cs: False)
        self.clean_return = clean_return or (lambda cs: False)
        self.scope = scope or (lambda fi: True)
        self.summaries = {}
        self.flows = []
        self._flow_keys = set()
        self.source_nodes = {}
        self.envs = {}
        self._run()

    def _run(self):
        funcs = [f for f in self.ctx.p.all_functions() if self.scope(f)]
        for f in funcs:
            self.summaries[f.qualname] = TaintSummary()
        for _ in range(8):
            changed = False
            for f in funcs:
                if self._analyse(f):
                    changed = True
            if not changed:
                break

    # ----------------------------------------------------------------------
    def _analyse(self, fi):
        """Flow-sensitive forward pass over the CFG (state = var -> labels)."""
        summ = self.summaries[fi.qualname]
        before = (len(summ.param_to_ret), sum(len(v) for v in summ.param_to_sink.values()), len(summ.src_to_ret))
        init = {}
        if fi.parent is not None and fi.parent.qualname in self.envs:
            for k, v in self.envs[fi.parent.qualname].items():
                init[k] = set(v)
        for prm in list(fi.params) + list(fi.kwonly) + ([fi.vararg] if fi.vararg else []):
            init.setdefault(prm, set()).add(("p", prm))
        cfg = self.ctx.cfg(fi)
        states = {cfg.entry.id: init}
        work = [cfg.entry.id]
        guard = 0
        while work and guard < 6000:
            guard += 1
            nid = work.pop()
            st = dict((k, set(v)) for k, v in states[nid].items())
            self._transfer(cfg.nodes[nid], fi, st)
            for succ, kind in cfg.succ[nid]:
                old = states.get(succ)
                if old is None:
                    states[succ] = dict((k, set(v)) for k, v in st.items())
                    work.append(succ)
                else:
                    ch = False
                    for k, v in st.items():
                        o = old.get(k)
                        if o is None:
                            old[k] = set(v)
                            ch = True
                        elif not v <= o:
                            o |= v
                            ch = True
                    if ch and succ not in work:
                        work.append(succ)
        # union of all states: what a closure defined here may see
        allenv = {}
        for st in states.values():
            for k, v in st.items():
                allenv.setdefault(k, set()).update(v)
        self.envs[fi.qualname] = allenv
        # sinks and returns, evaluated in the state *before* each node
        for nid, st in states.items():
            node = cfg.nodes[nid]
            a = node.ast
            if a is None or node.kind in ("T", "F", "loop_body", "loop_exit", "finally", "with_exit", "loop", "except", "def", "entry", "exit", "raise_exit"):
                continue
            parts = [a]
            if node.kind == "for":
                parts = [a.iter]
            elif node.kind == "with_enter":
                parts = [i.context_expr for i in a.items]
            for part in parts:
                for n in walk_no_nested(part):
                    if isinstance(n, ast.Call):
                        self._check_call(n, fi, st, summ)
            if isinstance(a, ast.Return) and a.value is not None:
                for lab in self.taint(a.value, fi, st):
                    if isinstance(lab, tuple):
                        summ.param_to_ret.add(lab[1])
                    else:
                        summ.src_to_ret.setdefault(lab, self.source_nodes.get(lab))
            for n in walk_no_nested(a) if node.kind == "stmt" else []:
                if isinstance(n, ast.Yield) and n.value is not None:
                    for lab in self.taint(n.value, fi, st):
                        if isinstance(lab, tuple):
                            summ.param_to_ret.add(lab[1])
        after = (len(summ.param_to_ret), sum(len(v) for v in summ.param_to_sink.values()), len(summ.src_to_ret))
        return after != before

    def _assign(self, target, labs, env, strong=True):
        if isinstance(target, ast.Name):
            if strong:
                env[target.id] = set(labs)
            else:
                env.setdefault(target.id, set()).update(labs)
        elif isinstance(target, (ast.Tuple, ast.List)):
            for t in target.elts:
                self._assign(t, labs, env, strong)
        elif isinstance(target, ast.Starred):
            self._assign(target.value, labs, env, strong)
        elif isinstance(target, ast.Attribute) and isinstance(target.value, ast.Name) and target.value.id == "self":
            env.setdefault("self." + target.attr, set()).update(labs)
        elif isinstance(target, ast.Subscript):
            self._assign(target.value, labs, env, False)

    def _transfer(self, node, fi, env):
        a = node.ast
        k = node.kind
        if a is None or k in ("T", "F", "loop_body", "loop_exit", "finally", "with_exit", "loop", "except", "def", "cond", "entry", "exit", "raise_exit"):
            return
        if k == "for":
            self._assign(a.target, self.taint(a.iter, fi, env), env)
            return
        if k == "with_enter":
            for item in a.items:
                if item.optional_vars is not None:
                    self._assign(item.optional_vars, self.taint(item.context_expr, fi, env), env)
            return
        if isinstance(a, ast.Assign):
            labs = self.taint(a.value, fi, env)
            for t in a.targets:
                self._assign(t, labs, env)
        elif isinstance(a, ast.AugAssign):
            self._assign(a.target, self.taint(a.value, fi, env) | self.taint(a.target, fi, env), env)
        elif isinstance(a, ast.AnnAssign) and a.value is not None:
            self._assign(a.target, self.taint(a.value, fi, env), env)
        # container growth: x.append(tainted)
        for n in walk_no_nested(a):
            if isinstance(n, ast.Call) and isinstance(n.func, ast.Attribute) and n.func.attr in ("append", "extend", "insert", "add", "update"):
                labs = set()
                for arg in n.args:
                    labs |= self.taint(arg, fi, env)
                if labs:
                    self._assign(n.func.value, labs, env, False)

    def _bind(self, target, labs, env):
        if isinstance(target, ast.Name):
            env.setdefault(target.id, set()).update(labs)
        elif isinstance(target, (ast.Tuple, ast.List)):
            for t in target.elts:
                self._bind(t, labs, env)
        elif isinstance(target, ast.Starred):
            self._bind(target.value, labs, env)
        elif isinstance(target, ast.Attribute) and isinstance(target.value, ast.Name) and target.value.id == "self":
            env.setdefault("self." + target.attr, set()).update(labs)
        elif isinstance(target, ast.Subscript):
            self._bind(target.value, labs, env)

    def _stmt(self, n, fi, env):
        if isinstance(n, ast.Assign):
            labs = self.taint(n.value, fi, env)
            for t in n.targets:
                self._bind(t, labs, env)
        elif isinstance(n, ast.AugAssign):
            self._bind(n.target, self.taint(n.value, fi, env), env)
        elif isinstance(n, ast.AnnAssign) and n.value is not None:
            self._bind(n.target, self.taint(n.value, fi, env), env)
        elif isinstance(n, (ast.For, ast.comprehension)):
            self._bind(n.target, self.taint(n.iter, fi, env), env)
        elif isinstance(n, ast.With):
            for item in n.items:
                if item.optional_vars is not None:
                    self._bind(item.optional_vars, self.taint(item.context_expr, fi, env), env)
        elif isinstance(n, ast.Call) and isinstance(n.func, ast.Attribute) and n.func.attr in ("append", "extend", "insert", "add", "update"):
            labs = set()
            for a in n.args:
                labs |= self.taint(a, fi, env)
            if labs:
                self._bind(n.func.value, labs, env)

    # ----------------------------------------------------------------------
    def taint(self, e, fi, env, depth=0):
        if e is None or depth > 14:
            return set()
        lab = self.is_source(e, fi)
        out = set()
        if lab is not None:
            self.source_nodes.setdefault(lab, (fi, e))
            out.add(lab)
        if isinstance(e, ast.Name):
            return out | env.get(e.id, set())
        if isinstance(e, ast.Constant):
            return out
        if isinstance(e, ast.Attribute):
            if isinstance(e.value, ast.Name) and e.value.id == "self":
                out |= env.get("self." + e.attr, set())
                return out
            return out | self.taint(e.value, fi, env, depth + 1)
        if isinstance(e, ast.Call):
            return out | self._call_taint(e, fi, env, depth)
        if isinstance(e, (ast.Compare,)):
            return set()
        if isinstance(e, ast.Lambda):
            return set()
        if isinstance(e, (ast.ListComp, ast.SetComp, ast.GeneratorExp, ast.DictComp)):
            sub = dict((k, set(v)) for k, v in env.items())
            for g in e.generators:
                self._bind(g.target, self.taint(g.iter, fi, sub, depth + 1), sub)
            if isinstance(e, ast.DictComp):
                return out | self.taint(e.key, fi, sub, depth + 1) | self.taint(e.value, fi, sub, depth + 1)
            return out | self.taint(e.elt, fi, sub, depth + 1)
        for child in ast.iter_child_nodes(e):
            if isinstance(child, ast.expr):
                out |= self.taint(child, fi, env, depth + 1)
            elif isinstance(child, ast.keyword):
                out |= self.taint(child.value, fi, env, depth + 1)
        return out

    def _arg_map(self, call, target, cs_kind):
        """param name -> arg expr for one resolved target."""
        params = list(target.params)
        if target.cls is not None and params and not target.is_staticmethod and cs_kind != "unbound":
            params = params[1:]
        m = {}
        for i, a in enumerate(call.args):
            if isinstance(a, ast.Starred):
                break
            if i < len(params):
                m[params[i]] = a
            elif target.vararg:
                m.setdefault(target.vararg, a)
        for k in call.keywords:
            if k.arg:
                m[k.arg] = k.value
        return m

    def _call_taint(self, call, fi, env, depth):
        cs = self.ctx.cg.site_for(fi, call)
        if self.is_sanitiser(cs) or self.clean_return(cs):
            return set()
        f = call.func
        if isinstance(f, ast.Name) and f.id in NON_STRING_BUILTINS and f.id not in env:
            return set()
        out = set()
        targets = [t for t in cs.targets if t.qualname in self.summaries]
        if targets and cs.kind != "ctor":
            for t in targets:
                summ = self.summaries[t.qualname]
                am = self._arg_map(call, t, cs.kind)
                for prm in summ.param_to_ret:
                    if prm in am:
                        out |= self.taint(am[prm], fi, env, depth + 1)
                    elif t.params and prm == t.params[0] and isinstance(f, ast.Attribute):
                        out |= self.taint(f.value, fi, env, depth + 1)
                for lab in summ.src_to_ret:
                    out.add(lab)
                    if lab not in self.source_nodes and summ.src_to_ret[lab] is not None:
                        self.source_nodes[lab] = summ.src_to_ret[lab]
            return out
        # constructors keep the taint of their arguments (wrapped text), externals propagate everything
        if isinstance(f, ast.Attribute):
            out |= self.taint(f.value, fi, env, depth + 1)
        for a in call.args:
            out |= self.taint(a, fi, env, depth + 1)
        for k in call.keywords:
            out |= self.taint(k.value, fi, env, depth + 1)
        return out

    def _check_call(self, call, fi, env, summ):
        cs = self.ctx.cg.site_for(fi, call)
        sink = self.is_sink(cs, fi)
        if sink is not None:
            name, args = sink
            for a in args:
                for lab in self.taint(a, fi, env):
                    self._record(lab, call, fi, name, [fi.short], summ)
        for t in cs.targets:
            ts = self.summaries.get(t.qualname)
            if ts is None or not ts.param_to_sink:
                continue
            am = self._arg_map(call, t, cs.kind)
            for prm, sinks in ts.param_to_sink.items():
                if prm not in am:
                    continue
                labs = self.taint(am[prm], fi, env)
                for lab in labs:
                    for (sname, chain) in sinks[:3]:
                        self._record(lab, call, fi, sname, [fi.short] + chain, summ)

    def _record(self, lab, call, fi, sink_name, chain, summ):
        if isinstance(lab, tuple):
            # a closure reading a parameter of its enclosing function: the flow
            # belongs to the enclosing function's summary
            owner = fi
            while owner is not None and lab[1] not in owner.params and owner.parent is not None:
                owner = owner.parent
            if owner is not fi and owner is not None and owner.qualname in self.summaries:
                summ = self.summaries[owner.qualname]
            lst = summ.param_to_sink.setdefault(lab[1], [])
            entry = (sink_name, chain)
            if not any(e[0] == sink_name for e in lst):
                lst.append(entry)
            return
        key = (lab, fi.qualname, norm(call), sink_name)
        if key in self._flow_keys:
            return
        self._flow_keys.add(key)
        self.flows.append(Flow(lab, self.source_nodes.get(lab), call, fi, sink_name, chain))
