"""Small AST / CFG query helpers shared by the rules."""
import ast

from .loader import walk_no_nested, norm, unparse, is_self_attr, attr_chain, parent, ancestors

MUTATORS = {
    "append", "extend", "insert", "pop", "remove", "clear", "sort", "reverse", "update", "setdefault",
    "popitem", "add", "discard", "appendleft", "__setitem__", "__delitem__",
}


def calls(fi_or_node):
    node = getattr(fi_or_node, "node", fi_or_node)
    return [n for n in walk_no_nested(node) if isinstance(n, ast.Call)]


def method_calls(fi_or_node, name=None, recv=None):
    """Calls ``<recv>.<name>(...)``; recv: predicate on the receiver expr."""
    out = []
    for c in calls(fi_or_node):
        if isinstance(c.func, ast.Attribute) and (name is None or c.func.attr == name or (isinstance(name, (set, tuple, list)) and c.func.attr in name)):
            if recv is None or recv(c.func.value):
                out.append(c)
    return out


def self_attr_root(expr):
    """For self._a, self._a[k], self._a[k][j], self._a.x -> '_a' ; else None."""
    e = expr
    while True:
        if isinstance(e, ast.Subscript):
            e = e.value
        elif isinstance(e, ast.Attribute) and not is_self_attr(e):
            e = e.value
        elif isinstance(e, ast.Call) and isinstance(e.func, ast.Attribute) and e.func.attr in ("values", "items", "keys", "get"):
            e = e.func.value
        else:
            break
    if is_self_attr(e):
        return e.attr
    return None


def alias_roots(fi):
    """{local name: self attribute} for locals that alias (part of) a self attribute: every definition of the local is a plain
    load `self._a`, `self._a[k]`, `self._a[k].x` (no call: a call may build a new object) - or such a local stored INTO the
    attribute right after being created (`x = []; self._a[k] = x`)."""
    defs = {}
    for n in walk_no_nested(fi.node):
        if isinstance(n, ast.Assign):
            for t in n.targets:
                if isinstance(t, ast.Name):
                    defs.setdefault(t.id, []).append(n.value)
    out = {}
    for name, vals in defs.items():
        roots = set()
        for v in vals:
            has_call = any(isinstance(x, ast.Call) for x in ast.walk(v))
            r = None if has_call else self_attr_root(v)
            roots.add(r)
        if len(roots) == 1 and None not in roots:
            out[name] = roots.pop()
    # x = <fresh>; self._a[k] = x   ->  x is (now) part of self._a
    for n in walk_no_nested(fi.node):
        if isinstance(n, ast.Assign) and isinstance(n.value, ast.Name) and n.value.id in defs and n.value.id not in out:
            for t in n.targets:
                r = self_attr_root(t)
                if r is not None and not is_self_attr(t) and len(defs[n.value.id]) == 1 and is_fresh_expr(defs[n.value.id][0]):
                    out[n.value.id] = r
    return out


def root_in(fi, expr, aliases=None):
    """self attribute that ``expr`` is rooted at, looking through aliasing locals of ``fi``."""
    r = self_attr_root(expr)
    if r is not None:
        return r
    aliases = alias_roots(fi) if aliases is None else aliases
    e = expr
    while isinstance(e, (ast.Subscript, ast.Attribute)):
        e = e.value
    if isinstance(e, ast.Name) and e.id in aliases:
        return aliases[e.id]
    return None


def writes_to_self_attr(fi, attr):
    """Statements/expressions in ``fi`` that write into ``self.<attr>`` (deep, also through aliasing locals):
    returns list of (node, kind, target_expr) with kind in
    rebind | substore | subdel | mutcall | augassign."""
    out = []
    al = {k: v for k, v in alias_roots(fi).items() if v == attr}
    if al:
        for n in walk_no_nested(fi.node):
            if isinstance(n, ast.Assign):
                for t in n.targets:
                    if isinstance(t, ast.Subscript) and root_in(fi, t, al) == attr and self_attr_root(t) is None:
                        out.append((n, "substore", t))
            elif isinstance(n, ast.AugAssign) and isinstance(n.target, ast.Subscript) and root_in(fi, n.target, al) == attr and self_attr_root(n.target) is None:
                out.append((n, "substore", n.target))
            elif isinstance(n, ast.Delete):
                for t in n.targets:
                    if isinstance(t, ast.Subscript) and root_in(fi, t, al) == attr and self_attr_root(t) is None:
                        out.append((n, "subdel", t))
            elif isinstance(n, ast.Call) and isinstance(n.func, ast.Attribute) and n.func.attr in MUTATORS and self_attr_root(n.func.value) is None and root_in(fi, n.func.value, al) == attr:
                out.append((n, "mutcall", n.func.value))
    for n in walk_no_nested(fi.node):
        if isinstance(n, ast.Assign):
            for t in n.targets:
                for tt in (t.elts if isinstance(t, (ast.Tuple, ast.List)) else [t]):
                    if is_self_attr(tt, attr):
                        out.append((n, "rebind", tt))
                    elif isinstance(tt, (ast.Subscript, ast.Attribute)) and self_attr_root(tt) == attr and not is_self_attr(tt, attr):
                        out.append((n, "substore", tt))
        elif isinstance(n, ast.AugAssign):
            if is_self_attr(n.target, attr):
                out.append((n, "augassign", n.target))
            elif self_attr_root(n.target) == attr:
                out.append((n, "substore", n.target))
        elif isinstance(n, ast.Delete):
            for t in n.targets:
                if self_attr_root(t) == attr:
                    out.append((n, "subdel" if not is_self_attr(t, attr) else "rebind", t))
        elif isinstance(n, ast.Call) and isinstance(n.func, ast.Attribute) and n.func.attr in MUTATORS:
            if self_attr_root(n.func.value) == attr:
                out.append((n, "mutcall", n.func.value))
    return out


def subscripts_on_self_attr(fi, attr, direct_only=True):
    """Subscript nodes whose value is exactly ``self.<attr>``."""
    out = []
    for n in walk_no_nested(fi.node):
        if isinstance(n, ast.Subscript) and is_self_attr(n.value, attr):
            out.append(n)
    return out


def membership_tests(fi, attr):
    """Compare nodes ``k in self.<attr>`` / ``k not in self.<attr>``: (node, key expr, negated)."""
    out = []
    for n in walk_no_nested(fi.node):
        if isinstance(n, ast.Compare) and len(n.ops) == 1 and isinstance(n.ops[0], (ast.In, ast.NotIn)):
            if is_self_attr(n.comparators[0], attr):
                out.append((n, n.left, isinstance(n.ops[0], ast.NotIn)))
    return out


def is_fresh_expr(e, fi=None, _depth=0):
    """Syntactically fresh value: literal containers, constructor-ish calls, copies."""
    if isinstance(e, (ast.List, ast.Dict, ast.Set, ast.ListComp, ast.DictComp, ast.SetComp, ast.Tuple, ast.Constant, ast.JoinedStr)):
        return True
    if isinstance(e, ast.Call):
        f = e.func
        if isinstance(f, ast.Name) and f.id in ("list", "dict", "set", "sorted", "OrderedDict", "tuple", "copy", "deepcopy", "str", "int", "bool", "float", "frozenset"):
            return True
        if isinstance(f, ast.Attribute) and f.attr in ("copy", "split", "format", "join", "strip", "keys", "deepcopy"):
            return True
        if isinstance(f, ast.Name) and f.id[:1].isupper():
            return True
    if isinstance(e, ast.Subscript) and isinstance(e.slice, ast.Slice):
        return True
    if isinstance(e, ast.BinOp):
        return True
    return False


def param_names(fi, skip_self=True):
    ps = list(fi.params)
    if skip_self and fi.cls is not None and ps and not fi.is_staticmethod:
        ps = ps[1:]
    return ps + list(fi.kwonly)


def returns(fi):
    return [n for n in walk_no_nested(fi.node) if isinstance(n, ast.Return)]


def raises(fi):
    return [n for n in walk_no_nested(fi.node) if isinstance(n, ast.Raise)]


def names_in(expr):
    return {n.id for n in walk_no_nested(expr) if isinstance(n, ast.Name)}


def const_str(e):
    if isinstance(e, ast.Constant) and isinstance(e.value, str):
        return e.value
    return None


def literal_strings(node):
    """All string constants below node (including f-string parts)."""
    out = []
    for n in walk_no_nested(node):
        if isinstance(n, ast.Constant) and isinstance(n.value, str):
            out.append(n)
    return out


def kwarg(call, name, pos=None, default=None):
    for k in call.keywords:
        if k.arg == name:
            return k.value
    if pos is not None and len(call.args) > pos and not any(isinstance(a, ast.Starred) for a in call.args[: pos + 1]):
        return call.args[pos]
    return default


def arg_for_param(call, target_fi, param, bound=True):
    """Expression passed for ``param`` of ``target_fi`` at ``call`` (None if defaulted)."""
    ps = list(target_fi.params)
    if bound and target_fi.cls is not None and ps and not target_fi.is_staticmethod:
        ps = ps[1:]
    for k in call.keywords:
        if k.arg == param:
            return k.value
    if param in ps:
        i = ps.index(param)
        if i < len(call.args) and not any(isinstance(a, ast.Starred) for a in call.args[: i + 1]):
            return call.args[i]
    return None


def loop_vars_over(fi, iter_pred):
    """Names bound by ``for <targets> in <iter>`` where iter_pred(iter expr)."""
    out = set()
    for n in walk_no_nested(fi.node):
        if isinstance(n, (ast.For, ast.comprehension)) and iter_pred(n.iter):
            for t in walk_no_nested(n.target):
                if isinstance(t, ast.Name):
                    out.add(t.id)
    return out


def stmt_of(node):
    n = node
    while n is not None and not isinstance(n, ast.stmt):
        n = parent(n)
    return n


def same_expr(a, b):
    return norm(a) == norm(b)


def regex_match_pattern(fi, call):
    """The constant pattern of a regex test, or None.  Recognised: ``re.match(<const>, x)`` / ``re.fullmatch`` / ``re.search``,
    the same with the pattern held in a module- or class-level constant, and ``<NAME>.match(x)`` where NAME is a module- or
    class-level ``re.compile(<const>)``."""
    if not (isinstance(call, ast.Call) and isinstance(call.func, ast.Attribute) and call.func.attr in ("match", "fullmatch", "search")):
        return None

    def const_of(e, depth=0):
        if isinstance(e, ast.Constant) and isinstance(e.value, str):
            return e.value
        if depth > 2:
            return None
        v = None
        if isinstance(e, ast.Name):
            v = fi.module.assigns.get(e.id)
        elif isinstance(e, ast.Attribute) and isinstance(e.value, ast.Name) and e.value.id in ("self", "cls") and fi.cls is not None:
            v = fi.cls.attrs.get(e.attr)
        if v is None:
            return None
        if isinstance(v, ast.Call) and isinstance(v.func, ast.Attribute) and v.func.attr == "compile" and isinstance(v.func.value, ast.Name) and v.func.value.id == "re" and v.args:
            return const_of(v.args[0], depth + 1)
        return const_of(v, depth + 1)

    recv = call.func.value
    if isinstance(recv, ast.Name) and recv.id == "re":
        return const_of(call.args[0]) if call.args else None
    # compiled pattern object
    v = None
    if isinstance(recv, ast.Name):
        v = fi.module.assigns.get(recv.id)
    elif isinstance(recv, ast.Attribute) and isinstance(recv.value, ast.Name) and recv.value.id in ("self", "cls") and fi.cls is not None:
        v = fi.cls.attrs.get(recv.attr)
    if isinstance(v, ast.Call) and isinstance(v.func, ast.Attribute) and v.func.attr == "compile" and v.args:
        return const_of(v.args[0])
    return None


def unroll_const_loops(fi):
    """A copy of ``fi`` in which every ``for <target> in <constant sequence>`` is written out: the body once per element, the
    loop variable(s) replaced by the element (the if-chain a table-driven loop stands for).  The sequence is a tuple / list
    literal - in place, in a local bound once, or in a module- / class-level constant - of names, attributes, constants, or
    tuples of those; loops whose body breaks, continues or rebinds the loop variable are left alone.  Returns ``fi`` itself when
    there is nothing to write out."""
    import copy

    if getattr(fi, "_unrolled", None) is not None:
        return fi._unrolled

    def pure(e):
        if isinstance(e, (ast.Name, ast.Constant)):
            return True
        if isinstance(e, ast.Attribute):
            return pure(e.value)
        if isinstance(e, (ast.Tuple, ast.List)):
            return all(pure(x) for x in e.elts)
        return False

    binds = {}
    for n in walk_no_nested(fi.node):
        if isinstance(n, (ast.Assign, ast.AugAssign, ast.For)):
            for t in (n.targets if isinstance(n, ast.Assign) else [n.target]):
                for x in ast.walk(t):
                    if isinstance(x, ast.Name):
                        binds.setdefault(x.id, []).append(n)

    def seq_of(it):
        if isinstance(it, ast.Name):
            b = binds.get(it.id, [])
            if len(b) == 1 and isinstance(b[0], ast.Assign):
                it = b[0].value
            elif not b and it.id in fi.module.assigns:
                it = fi.module.assigns[it.id]
        elif isinstance(it, ast.Attribute) and isinstance(it.value, ast.Name) and it.value.id in ("self", "cls") and fi.cls is not None and it.attr in fi.cls.attrs:
            it = fi.cls.attrs[it.attr]
        if isinstance(it, (ast.Tuple, ast.List)) and it.elts and all(pure(e) for e in it.elts):
            return it.elts
        return None

    changed = [False]

    class U(ast.NodeTransformer):
        def visit_FunctionDef(self, node):
            if node is not fi.node and node is not root:
                return node
            self.generic_visit(node)
            return node

        def visit_Lambda(self, node):
            return node

        def visit_For(self, node):
            self.generic_visit(node)
            elts = seq_of(node.iter)
            if elts is None or node.orelse:
                return node
            tnames = [x.id for x in ast.walk(node.target) if isinstance(x, ast.Name)]
            if not (isinstance(node.target, ast.Name) or (isinstance(node.target, ast.Tuple) and all(isinstance(x, ast.Name) for x in node.target.elts))):
                return node
            for st in node.body:
                for x in ast.walk(st):
                    if isinstance(x, (ast.Break, ast.Continue)):
                        return node
                    if isinstance(x, ast.Name) and x.id in tnames and isinstance(x.ctx, ast.Store):
                        return node
            if isinstance(node.target, ast.Tuple) and not all(isinstance(e, (ast.Tuple, ast.List)) and len(e.elts) == len(node.target.elts) for e in elts):
                return node
            out = []
            for el in elts:
                env = {node.target.id: el} if isinstance(node.target, ast.Name) else {t.id: v for t, v in zip(node.target.elts, el.elts)}

                class S(ast.NodeTransformer):
                    def visit_Name(self, n):
                        if n.id in env and isinstance(n.ctx, ast.Load):
                            return ast.copy_location(copy.deepcopy(env[n.id]), n)
                        return n
                for st in node.body:
                    out.append(ast.fix_missing_locations(S().visit(copy.deepcopy(st))))
            changed[0] = True
            return out

    root = copy.deepcopy(fi.node)
    for n in ast.walk(root):
        for ch in ast.iter_child_nodes(n):
            ch._parent = n
    new = U().visit(root)
    if not changed[0]:
        fi._unrolled = fi
        return fi
    for n in ast.walk(new):
        for ch in ast.iter_child_nodes(n):
            ch._parent = n
    fi2 = copy.copy(fi)
    fi2.node = new
    fi2.unrolled_from = fi
    fi2._unrolled = fi2
    fi._unrolled = fi2
    return fi2


def direct_aliases(fi):
    """{local: attr} for locals that stand for a self attribute itself: every definition of the local is exactly ``self.<attr>``
    (the same attribute each time)."""
    defs = {}
    for n in walk_no_nested(fi.node):
        if isinstance(n, ast.Assign):
            for t in n.targets:
                for x in ast.walk(t):
                    if isinstance(x, ast.Name) and isinstance(x.ctx, ast.Store):
                        defs.setdefault(x.id, []).append(n.value if x is t else None)
        elif isinstance(n, (ast.AugAssign, ast.For, ast.NamedExpr)):
            for x in ast.walk(n.target):
                if isinstance(x, ast.Name) and isinstance(x.ctx, ast.Store):
                    defs.setdefault(x.id, []).append(None)
    out = {}
    for k, vs in defs.items():
        if all(v is not None and is_self_attr(v) for v in vs) and len({v.attr for v in vs}) == 1 and k not in fi.params:
            out[k] = vs[0].attr
    return out


def const_int(e):
    """value of an integer constant expression (literals combined with << | + - * **), else None"""
    if isinstance(e, ast.Constant) and isinstance(e.value, int) and not isinstance(e.value, bool):
        return e.value
    if isinstance(e, ast.BinOp) and isinstance(e.op, (ast.LShift, ast.BitOr, ast.Add, ast.Sub, ast.Mult, ast.Pow)):
        a, b = const_int(e.left), const_int(e.right)
        if a is None or b is None or b > 64:
            return None
        return {ast.LShift: lambda: a << b, ast.BitOr: lambda: a | b, ast.Add: lambda: a + b, ast.Sub: lambda: a - b, ast.Mult: lambda: a * b, ast.Pow: lambda: a ** b}[type(e.op)]()
    return None
