"""Process-parallel map that cannot hang: a worker that dies (or a job that runs away) is reported as an error for that job,
never waited for forever (multiprocessing.Pool.map blocks for good when a worker process is killed)."""
import concurrent.futures as cf
import time


def pmap(fn, jobs, workers=16, timeout=600, label=lambda j: str(j)[:80]):
    """[result or ("__error__", text)] in job order."""
    jobs = list(jobs)
    out = [None] * len(jobs)
    if not jobs:
        return out
    pending = list(range(len(jobs)))
    attempt = 0
    while pending and attempt < 2:
        attempt += 1
        broken = []
        with cf.ProcessPoolExecutor(max_workers=min(workers, len(pending))) as ex:
            futs = {ex.submit(fn, jobs[i]): i for i in pending}
            deadline = time.time() + timeout + 25 * len(pending) / max(1, workers)
            try:
                for f in cf.as_completed(futs, timeout=max(1, deadline - time.time())):
                    i = futs[f]
                    try:
                        out[i] = f.result()
                    except cf.process.BrokenProcessPool:
                        broken.append(i)
                    except Exception as e:  # the job itself raised
                        out[i] = ("__error__", "%s: %s" % (type(e).__name__, e))
            except cf.TimeoutError:
                for f, i in futs.items():
                    if not f.done():
                        out[i] = ("__error__", "timed out: %s" % label(jobs[i]))
                        f.cancel()
                for pr in list(getattr(ex, "_processes", {}).values()):
                    try:
                        pr.kill()
                    except Exception:
                        pass
        # a broken pool poisons every job that was in flight: run those again (once), one process each
        pending = [i for i in broken if out[i] is None]
        workers = max(1, workers // 2)
    for i in pending:
        if out[i] is None:
            out[i] = ("__error__", "worker process died: %s" % label(jobs[i]))
    for i, o in enumerate(out):
        if o is None:
            out[i] = ("__error__", "no result: %s" % label(jobs[i]))
    return out
