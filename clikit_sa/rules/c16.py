"""C16 - progress bar: control codes only when overwriting, writes only through the gated API, max and finish always draw."""
import ast

from ..loader import walk_no_nested, norm, is_self_attr
from ..cfg import guarded_by
from .. import q
from .c15 import has_control


def run(ctx):
    p, cg = ctx.p, ctx.cg
    pb = ctx.cls("clikit.ui.components.progress_bar.ProgressBar")
    methods = pb.methods

    # ---------------------------------------------------------------- R1
    r = ctx.rule("C16-R1", "GUARD", "carriage return / cursor codes are written only under the overwrite-mode flag, "
                 "which is cleared when the output lacks ANSI support", reference=4)
    flag = "_should_overwrite"
    n_sites = 0

    def under_flag(m, call, seen=()):
        """the call runs only in overwrite mode: guarded in its own method, or the method is a private helper of the bar whose
        every call site is (transitively) under the flag"""
        cfg = ctx.cfg(m)
        if all(guarded_by(cfg, n, lambda e: is_self_attr(e, flag), polarity=True) is not None for n in cfg.nodes_of(call)):
            return True
        if not m.name.startswith("_") or m.name.startswith("__") or m.name in seen:
            return False
        callers = [(o, c) for o in methods.values() for c in q.method_calls(o, m.name, recv=lambda e: isinstance(e, ast.Name) and e.id == "self")]
        # a reference to the bound method that is not a call (handed on as a callback) escapes the gate
        refs = [a for o in methods.values() for a in walk_no_nested(o.node) if isinstance(a, ast.Attribute) and a.attr == m.name and isinstance(a.value, ast.Name) and a.value.id == "self"]
        if not callers or len(refs) != len(callers):
            return False
        return all(under_flag(o, c, seen + (m.name,)) for o, c in callers)

    for name, m in sorted(methods.items()):
        cfg = ctx.cfg(m)
        for c in q.calls(m):
            if isinstance(c.func, ast.Attribute) and "write" in c.func.attr and has_control(c):
                n_sites += 1
                g = under_flag(m, c)
                if g:
                    r.ok("%s: %s under self.%s" % (m.short, norm(c)[:40], flag))
                else:
                    r.fail(m, c, norm(c), "a control code is written although the bar is not in overwrite mode (plain output would receive it)")
    # erasing a section is the section-output form of moving back: same mode flag (on a plain section nothing can be erased, so the
    # frame must take the new-line arm instead)
    for name, m in sorted(methods.items()):
        cfg = ctx.cfg(m)
        for c in q.calls(m):
            if isinstance(c.func, ast.Attribute) and c.func.attr == "clear" and is_self_attr(c.func.value) and c.args:
                n_sites += 1
                g = under_flag(m, c)
                if g:
                    r.ok("%s: %s under self.%s" % (m.short, norm(c)[:40], flag))
                else:
                    r.fail(m, c, norm(c.func) + "(...) outside overwrite mode", "%s erases the previous frame of a section although the bar is not in overwrite mode: on a section of a plain output "
                           "nothing is erased and the new-line arm is skipped, so all frames run together on one line" % m.short)
    init = methods["__init__"]
    cfg = ctx.cfg(init)
    clears = [n for n in cfg.nodes if n.kind == "stmt" and isinstance(n.ast, ast.Assign) and any(is_self_attr(t, flag) for t in n.ast.targets)
              and isinstance(n.ast.value, ast.Constant) and n.ast.value.value is False]
    okc = clears and all(guarded_by(cfg, n, lambda e: isinstance(e, ast.Call) and isinstance(e.func, ast.Attribute) and e.func.attr == "supports_ansi", polarity=False) is not None for n in clears)
    if okc:
        r.ok("ProgressBar.__init__: overwrite mode off when the output does not support ANSI")
    else:
        r.fail(init, init.node, "overwrite flag", "overwrite mode is not switched off for outputs without ANSI support")
    if n_sites == 0:
        r.note("no control-code writes in ProgressBar")
    # nobody switches it back on later
    for name, m in methods.items():
        if name == "__init__":
            continue
        for node, kind, t in q.writes_to_self_attr(m, flag):
            if not (isinstance(node, ast.Assign) and isinstance(node.value, ast.Constant) and node.value.value is False):
                r.fail(m, node, norm(node), "%s switches overwrite mode on regardless of ANSI support" % m.short)

    # ---------------------------------------------------------------- R2
    r = ctx.rule("C16-R2", "OWNER", "UI components never touch the raw stream: they write through the gated Output "
                 "API only (so a quiet output receives nothing)", reference=2)
    n = 0
    for fi in [f for f in p.all_functions() if f.module.name.startswith("clikit.ui")]:
        for a in walk_no_nested(fi.node):
            if isinstance(a, ast.Attribute) and a.attr in ("stream", "_stream"):
                n += 1
                if fi.short == "Question._get_hidden_response":
                    # enumerated exception: getpass needs a file object to echo nothing on; not a progress component
                    r.ok("%s: stream handed to getpass (enumerated exception)" % fi.short)
                else:
                    r.fail(fi, a, norm(a), "%s reaches the raw stream of an output: writes through it bypass quiet / verbosity" % fi.short)
    if n == 0:
        r.vacuous_ok = True
    disp = methods["display"]
    cfg = ctx.cfg(disp)
    ov = [cfg.node_of(c) for c in q.method_calls(disp, "_overwrite")]
    if ov and all(guarded_by(cfg, x, lambda e: isinstance(e, ast.Call) and isinstance(e.func, ast.Attribute) and e.func.attr == "is_quiet", polarity=False) is not None for x in ov):
        r.ok("ProgressBar.display: nothing is drawn on a quiet output")
    else:
        r.fail(disp, disp.node, "quiet test", "display draws without testing whether the output is quiet")

    # ---------------------------------------------------------------- R3
    r = ctx.rule("C16-R3", "ORDER", "reaching the maximum always draws: the at-maximum draw is decided before the "
                 "time throttle can return", reference=4)
    sp = methods["set_progress"]
    cfg = ctx.cfg(sp)
    def is_max_test(e):
        return isinstance(e, ast.Compare) and isinstance(e.ops[0], ast.Eq) and any(is_self_attr(x, "_max") for x in walk_no_nested(e))
    max_t = [e for e in cfg.nodes if e.kind == "T" and is_max_test(e.ast)]
    max_f = [e for e in cfg.nodes if e.kind == "F" and is_max_test(e.ast)]
    thr = [c for c in cfg.conds() if isinstance(c.ast, ast.Compare) and any(is_self_attr(x, "_min_seconds_between_redraws") for x in walk_no_nested(c.ast))]
    disp_calls = [cfg.node_of(c) for c in q.method_calls(sp, "display")]
    if max_t and all(any(d.id in cfg.reach([t.id]) for d in disp_calls) and cfg.post_dominated_by(t.id, {d.id for d in disp_calls}) for t in max_t):
        r.ok("set_progress: step == max -> display on every path")
    else:
        r.fail(sp, sp.node, "at-max draw", "reaching the maximum does not always draw a frame")
    if thr:
        if max_f and all(any(cfg.dominates(f.id, c.id) for f in max_f) for c in thr):
            r.ok("set_progress: the throttle is consulted only when not at the maximum")
        else:
            r.fail(sp, thr[0].ast, norm(thr[0].ast), "the time throttle can return before the at-maximum draw is decided: the 100% frame may never be drawn")
        # nothing but reaching the maximum goes around the throttle: a redraw that is not behind the throttle's "enough time has passed" edge
        # is behind the step == max edge
        passed = {e.id for c in thr for e in (cfg.false_of(c), cfg.true_of(c)) if e is not None and ((e.kind == "F" and isinstance(c.ast.ops[0], (ast.Lt, ast.LtE))) or (e.kind == "T" and isinstance(c.ast.ops[0], (ast.Gt, ast.GtE))))}
        for d in disp_calls:
            behind_throttle = any(cfg.dominates(x, d.id) for x in passed)
            at_max = any(cfg.dominates(t.id, d.id) for t in max_t)
            if behind_throttle or at_max:
                r.ok("set_progress: %s %s" % (norm(d.ast), "behind the throttle" if behind_throttle else "only at the maximum"))
            else:
                r.fail(sp, d.ast, norm(d.ast) + " around the throttle", "a redraw in set_progress is reachable without passing the minimum-interval test and without the step being the maximum "
                       "(some other condition was merged into the draw-regardless arm): redraws caused by advancing can come closer together than the configured minimum")
    else:
        r.note("no time throttle in set_progress")

    # ---------------------------------------------------------------- R4
    r = ctx.rule("C16-R4", "MULT", "finish forces the final frame: it ends in set_progress(max) unless the bar is "
                 "already there on a non-overwriting output", reference=1)
    fin = methods["finish"]
    cfg = ctx.cfg(fin)
    calls = [cfg.node_of(c) for c in q.method_calls(fin, "set_progress") if c.args and any(is_self_attr(x, "_max") for x in walk_no_nested(c.args[0]))]
    skip = set()
    for e in cfg.nodes:
        if e.kind == "T" and isinstance(e.ast, ast.Compare) and any(is_self_attr(x, "_step") for x in walk_no_nested(e.ast)) and any(is_self_attr(x, "_max") for x in walk_no_nested(e.ast)):
            # only together with 'not overwriting'
            skip.add(e.id)
    ov_f = set(e.id for e in cfg.nodes if e.kind == "F" and is_self_attr(e.ast, "_should_overwrite"))
    early = [n for n in cfg.nodes if n.kind == "return" and n.ast.value is None]
    # every path to the exit that avoids set_progress(max) passed both 'already at max' and 'not overwriting'
    # (in any syntactic form: early return, De Morgan'd positive if, ...)
    at_max = set(skip) | set(e.id for e in cfg.nodes if e.kind == "F" and isinstance(e.ast, ast.Compare) and isinstance(e.ast.ops[0], ast.NotEq)
                             and any(is_self_attr(x, "_step") for x in walk_no_nested(e.ast)) and any(is_self_attr(x, "_max") for x in walk_no_nested(e.ast)))
    callset = {c.id for c in calls}
    ok = bool(calls) and cfg.all_paths_hit(cfg.entry.id, callset | at_max, [cfg.exit.id]) and cfg.all_paths_hit(cfg.entry.id, callset | ov_f, [cfg.exit.id])
    if ok:
        r.ok("finish: set_progress(max) on every path except 'already complete and not overwriting'")
    else:
        r.fail(fin, fin.node, "finish", "finish can return without drawing the final frame (set_progress(max) is skipped)")

    # ---------------------------------------------------------------- R5
    r = ctx.rule("C16-R5", "OWNER", "the throttle reference and the 'length of the frame on screen' are bookkeeping of "
                 "the last write: only the writer of a frame (and the constructor) assigns them", reference=4)
    for fld in ("_last_write_time", "_last_messages_length"):
        writers = {}
        for name, m in methods.items():
            for node, kind, t in q.writes_to_self_attr(m, fld):
                writers.setdefault(name, []).append(node)
        frame_writers = set()
        for name in methods:
            m = methods[name]
            # a frame writer performs a stream write through the io
            if any(isinstance(c.func, ast.Attribute) and c.func.attr in ("write", "write_line") and is_self_attr(c.func.value) for c in q.calls(m)):
                frame_writers.add(name)
        # a private helper that is only ever called from frame writers belongs to the write
        changed = True
        while changed:
            changed = False
            for name in writers:
                if name in frame_writers or name == "__init__":
                    continue
                callers = {cs.caller.name for cs in cg.callers.get(methods[name].qualname, []) if cs.caller.cls is pb}
                if name.startswith("_") and callers and callers <= frame_writers:
                    frame_writers.add(name)
                    changed = True
        for name, nodes in sorted(writers.items()):
            if name == "__init__" or name in frame_writers:
                r.ok("%s assigned in %s" % (fld, name))
            else:
                m = methods[name]
                r.fail(m, nodes[0], "%s: %s" % (name, norm(nodes[0])), "ProgressBar.%s changes %s although it draws no frame: %s" % (name, fld,
                       "the next advance is no longer throttled against the last real write" if "time" in fld else "the next frame no longer pads over what is still on the line (residue of the longer frame)"))
        if not writers:
            r.note("%s is not used any more" % fld)

    # ---------------------------------------------------------------- R6
    r = ctx.rule("C16-R6", "RANGE", "the current step is never negative: every path to the store of the step passes a lower-bound decision on the "
                 "value stored (the clamp at 0, or the arm in which it exceeds the maximum), whatever the maximum is", reference=1)
    sp = methods["set_progress"]
    cfg = ctx.cfg(sp)
    prm = [a for a in sp.params if a != "self"]
    stores = [n for n in cfg.nodes if n.kind == "stmt" and isinstance(n.ast, ast.Assign) and any(is_self_attr(t, "_step") for t in n.ast.targets) and isinstance(n.ast.value, ast.Name) and n.ast.value.id in prm]
    ctx.require(stores, "set_progress no longer stores its argument as the current step")
    for st in stores:
        v = st.ast.value.id
        decided = set()
        for n in cfg.nodes:
            e = n.ast
            if n.kind in ("T", "F") and isinstance(e, ast.Compare) and len(e.ops) == 1 and isinstance(e.left, ast.Name) and e.left.id == v:
                op, rhs = e.ops[0], e.comparators[0]
                zero = isinstance(rhs, ast.Constant) and rhs.value == 0
                if (isinstance(op, ast.Lt) and zero and n.kind == "F") or (isinstance(op, ast.GtE) and zero and n.kind == "T") or (isinstance(op, (ast.Gt, ast.GtE)) and not zero and n.kind == "T"):
                    decided.add(n.id)
            if n.kind == "stmt" and isinstance(e, ast.Assign) and any(isinstance(t, ast.Name) and t.id == v for t in e.targets):
                val = e.value
                if (isinstance(val, ast.Constant) and isinstance(val.value, int) and val.value >= 0) or (isinstance(val, ast.Call) and isinstance(val.func, ast.Name) and val.func.id == "max"
                                                                                                            and any(isinstance(a, ast.Constant) and a.value == 0 for a in val.args)):
                    decided.add(n.id)
        if decided and cfg.all_paths_hit(cfg.entry.id, decided, [st.id]):
            r.ok("%s: %s >= 0 decided on every path to %s" % (sp.short, v, norm(st.ast)))
        else:
            r.fail(sp, st.ast, norm(st.ast) + " without lower bound", "%s can store a negative step (a path reaches `%s` without the clamp at 0 - e.g. when the bar has no maximum): "
                   "the frame shows a negative current step" % (sp.short, norm(st.ast)))

    # ---------------------------------------------------------------- R7
    r = ctx.rule("C16-R7", "GUARD", "the configured minimum interval between redraws is stored for every kind of output: in the constructor the store of that "
                 "parameter depends on nothing but the parameter itself (plain outputs are throttled too)", reference=1)
    throttle_fields = set()
    for n in walk_no_nested(sp.node):
        if isinstance(n, ast.Compare) and any(is_self_attr(x) and "min" in x.attr for x in walk_no_nested(n)):
            throttle_fields |= {x.attr for x in walk_no_nested(n) if is_self_attr(x) and "min" in x.attr}
    ctx.require(throttle_fields, "set_progress has no throttle test against a minimum interval any more")
    icfg = ctx.cfg(init)
    iprm = set(a for a in init.params if a != "self")
    n7 = 0
    for n in icfg.nodes:
        if n.kind == "stmt" and isinstance(n.ast, ast.Assign) and any(is_self_attr(t) and t.attr in throttle_fields for t in n.ast.targets) and isinstance(n.ast.value, ast.Name) and n.ast.value.id in iprm:
            n7 += 1
            pname = n.ast.value.id
            foreign = []
            for e in icfg.nodes:
                if e.kind in ("T", "F") and icfg.dominates(e.id, n.id) and e.ast is not None:
                    names = q.names_in(e.ast) - {pname}
                    if names:
                        foreign.append(("" if e.kind == "T" else "not ") + norm(e.ast))
            if foreign:
                r.fail(init, n.ast, norm(n.ast) + " under " + foreign[0], "the constructor keeps the configured minimum interval only when %s: on the other kind of output the throttle "
                       "stays at its initial value and redraws caused by advancing come closer together than configured" % " and ".join(foreign))
            else:
                r.ok("%s: %s depends only on the parameter" % (init.short, norm(n.ast)))
    if n7 == 0:
        # the store may sit in a private helper that the constructor hands the parameter to
        for c in q.calls(init):
            if isinstance(c.func, ast.Attribute) and isinstance(c.func.value, ast.Name) and c.func.value.id == "self" and c.func.attr in methods and c.args and isinstance(c.args[0], ast.Name) and c.args[0].id in iprm:
                h = methods[c.func.attr]
                hp = [a for a in h.params if a != "self"]
                hcfg = ctx.cfg(h)
                for n in hcfg.nodes:
                    if n.kind == "stmt" and isinstance(n.ast, ast.Assign) and any(is_self_attr(t) and t.attr in throttle_fields for t in n.ast.targets) and isinstance(n.ast.value, ast.Name) and hp and n.ast.value.id == hp[0]:
                        n7 += 1
                        pname = c.args[0].id
                        foreign = []
                        for cn in icfg.nodes_of(c):
                            for e in icfg.nodes:
                                if e.kind in ("T", "F") and icfg.dominates(e.id, cn.id) and e.ast is not None and (q.names_in(e.ast) - {pname}):
                                    foreign.append(("" if e.kind == "T" else "not ") + norm(e.ast))
                        for e in hcfg.nodes:
                            if e.kind in ("T", "F") and hcfg.dominates(e.id, n.id) and e.ast is not None and (q.names_in(e.ast) - {hp[0]}):
                                foreign.append(("" if e.kind == "T" else "not ") + norm(e.ast))
                        if foreign:
                            r.fail(init, c, norm(c) + " under " + foreign[0], "the constructor keeps the configured minimum interval only when %s" % " and ".join(foreign))
                        else:
                            r.ok("%s: %s stores the parameter, depending only on it" % (init.short, norm(c.func)))
    if n7 == 0:
        r.fail(init, init.node, "throttle parameter not stored", "the constructor never stores its minimum-interval parameter in %s" % sorted(throttle_fields))

    # ---------------------------------------------------------------- R9
    r = ctx.rule("C16-R9", "TABLE", "a bar without a maximum never shows one: wherever a format is looked up by name in the table of named formats, the `<name>_nomax` variant is looked up "
                 "first when the bar has no maximum", reference=1)
    table_attr = next((a for a, v in pb.attrs.items() if isinstance(v, ast.Dict) and any(isinstance(k, ast.Constant) and isinstance(k.value, str) and k.value.endswith("_nomax") for k in v.keys)), None)
    if table_attr is None:
        r.vacuous_ok = True
        r.note("no table of named formats with _nomax variants")
    else:
        n9 = 0
        for name_, m in sorted(methods.items()):
            subs = [n for n in walk_no_nested(m.node) if isinstance(n, ast.Subscript) and isinstance(n.ctx, ast.Load) and is_self_attr(n.value, table_attr) and not isinstance(n.slice, ast.Constant)]
            plain_ = [x for x in subs if not any(isinstance(c, ast.Constant) and c.value == "_nomax" for c in ast.walk(x.slice))]
            if not plain_:
                continue
            n9 += 1
            variant = [x for x in subs if any(isinstance(c, ast.Constant) and c.value == "_nomax" for c in ast.walk(x.slice))]
            cfg_ = ctx.cfg(m)
            ok_ = False
            for v_ in variant:
                for vn in cfg_.nodes_of(v_):
                    if guarded_by(cfg_, vn, lambda e: is_self_attr(e, "_max"), polarity=False, kill_names=lambda e: set()) is not None:
                        ok_ = True
            if ok_:
                r.ok("%s: `%s` tried first when there is no maximum" % (m.short, norm(variant[0])))
            else:
                r.fail(m, plain_[0], "%s without the _nomax variant" % norm(plain_[0]), "%s looks a named format up as `%s` without trying its _nomax variant for a bar that has no maximum: the frame then shows "
                       "`n/0` and a percentage, or a placeholder that cannot be computed raises" % (m.short, norm(plain_[0])))
        if n9 == 0:
            r.vacuous_ok = True

    # ---------------------------------------------------------------- R10
    r = ctx.rule("C16-R10", "SIBLING", "'the matching percentage': the step and the percentage are one state - every method that sets the step also sets the percentage on every path "
                 "that follows (directly, or through a helper it always calls)", reference=3)
    def writes_percent(m_, depth=0):
        """CFG node ids of m_ that write self._percent, directly or by calling a self-helper that does so on all its paths"""
        c_ = ctx.cfg(m_)
        out = {n.id for n in c_.nodes if n.kind == "stmt" and isinstance(n.ast, (ast.Assign, ast.AugAssign)) and any(is_self_attr(t, "_percent") for t in (n.ast.targets if isinstance(n.ast, ast.Assign) else [n.ast.target]))}
        if depth < 2:
            for call in q.calls(m_):
                if isinstance(call.func, ast.Attribute) and isinstance(call.func.value, ast.Name) and call.func.value.id == "self" and call.func.attr in methods and methods[call.func.attr] is not m_:
                    h = methods[call.func.attr]
                    hc = ctx.cfg(h)
                    hw = writes_percent(h, depth + 1)
                    if hw and hc.post_dominated_by(hc.entry.id, hw):
                        out |= {n.id for n in c_.nodes_of(call)}
        return out
    for name_, m in sorted(methods.items()):
        c_ = ctx.cfg(m)
        step_w = [n for n in c_.nodes if n.kind == "stmt" and isinstance(n.ast, (ast.Assign, ast.AugAssign)) and any(is_self_attr(t, "_step") for t in (n.ast.targets if isinstance(n.ast, ast.Assign) else [n.ast.target]))]
        if not step_w:
            continue
        pw = writes_percent(m)
        bad = [w for w in step_w if not (pw and (c_.post_dominated_by(w.id, pw) or any(c_.dominates(x, w.id) for x in pw)))]
        if bad:
            r.fail(m, bad[0].ast, "%s sets the step without the percentage" % name_, "%s assigns self._step (%s) on a path that does not assign self._percent: the next frame shows the new step with the old percentage "
                   "(e.g. 0/10 at 50%% after a restart)" % (m.short, norm(bad[0].ast)))
        else:
            r.ok("%s: step and percentage set together" % m.short)

    # ---------------------------------------------------------------- R8
    from .c15 import section_order_rule

    section_order_rule(ctx, "C16-R8", reference=3)
    # ---------------------------------------------------------------- R11
    r = ctx.rule("C16-R11", "SENTINEL", "a placeholder whose message is set is replaced by the message, whatever the message is: whether a message exists is decided by membership in "
                 "the message map, not by `.get()` / the truthiness of the message (the empty message is a message)", reference=1)
    n11 = 0
    for cls in (pb, ctx.cls("clikit.ui.components.progress_indicator.ProgressIndicator")):
        for name, m in sorted(cls.methods.items()):
            maps = {a.attr for a in walk_no_nested(m.node) if is_self_attr(a) and "message" in a.attr and a.attr.endswith("s")}
            if not maps or not any(isinstance(x, ast.Attribute) and x.attr == "group" for x in walk_no_nested(m.node)):
                continue
            cfg = ctx.cfg(m)
            gets = [c for c in q.calls(m) if isinstance(c.func, ast.Attribute) and c.func.attr == "get" and is_self_attr(c.func.value) and c.func.value.attr in maps]
            looked = {t.id for n in walk_no_nested(m.node) if isinstance(n, ast.Assign) and any((isinstance(x, ast.Subscript) and is_self_attr(x.value) and x.value.attr in maps) or x in gets for x in ast.walk(n.value))
                      for t in n.targets if isinstance(t, ast.Name)}
            truthy = [c for c in cfg.conds() if (isinstance(c.ast, ast.Name) and c.ast.id in looked) or (isinstance(c.ast, ast.UnaryOp) and isinstance(c.ast.op, ast.Not) and isinstance(c.ast.operand, ast.Name) and c.ast.operand.id in looked)]
            member = [c for c in cfg.conds() if isinstance(c.ast, ast.Compare) and len(c.ast.ops) == 1 and isinstance(c.ast.ops[0], (ast.In, ast.NotIn)) and is_self_attr(c.ast.comparators[0]) and c.ast.comparators[0].attr in maps]
            n11 += 1
            if gets or (truthy and not member):
                bad = gets[0] if gets else truthy[0].ast
                r.fail(m, bad, "message looked up with %s" % ("get()" if gets else "a truthiness test"), "%s decides whether a message is set by %s: after set_message('') the frame shows the raw "
                       "placeholder (%%message%%) instead of an empty message" % (m.short, "`.get()` and the truthiness of the result" if gets else "the truthiness of the message"))
            elif member:
                r.ok("%s: membership in self.%s decides" % (m.short, "/".join(sorted(maps))))
            else:
                r.note("%s: no presence test on the message map" % m.short)
    if n11 == 0:
        r.vacuous_ok = True

    return ctx.results
