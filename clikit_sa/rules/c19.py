"""C19 - the automatic progress indicator is well-behaved under every interleaving."""
import ast

from ..loader import walk_no_nested, norm, is_self_attr
from ..cfg import guarded_by
from .. import q


def _anc(n):
    p = getattr(n, "_parent", None)
    while p is not None:
        yield p
        p = getattr(p, "_parent", None)


def run(ctx):
    p, cg = ctx.p, ctx.cg
    pi = ctx.cls("clikit.ui.components.progress_indicator.ProgressIndicator")
    methods = pi.methods
    # thread entry points and the attribute holding the thread
    entries = []
    thread_attr = None
    starter = None
    for m in methods.values():
        for n in walk_no_nested(m.node):
            if isinstance(n, ast.Assign) and isinstance(n.value, ast.Call) and norm(n.value.func).endswith("Thread"):
                tgt = q.kwarg(n.value, "target")
                if tgt is not None and is_self_attr(tgt) and tgt.attr in methods:
                    entries.append(methods[tgt.attr])
                    starter = m
                    for t in n.targets:
                        if is_self_attr(t):
                            thread_attr = t.attr
    if entries and thread_attr is None:
        # thread object built into a local, then stored
        for m in methods.values():
            locals_ = {t.id for n in walk_no_nested(m.node) if isinstance(n, ast.Assign) and isinstance(n.value, ast.Call) and norm(n.value.func).endswith("Thread") for t in n.targets if isinstance(t, ast.Name)}
            for n in walk_no_nested(m.node):
                if isinstance(n, ast.Assign) and isinstance(n.value, ast.Name) and n.value.id in locals_:
                    for t in n.targets:
                        if is_self_attr(t):
                            thread_attr = t.attr
    ctx.require(entries and thread_attr, "no Thread(target=self.<method>) found in ProgressIndicator")
    stop_attr = None
    for n in walk_no_nested(entries[0].node):
        if isinstance(n, ast.Call) and isinstance(n.func, ast.Attribute) and n.func.attr == "is_set" and is_self_attr(n.func.value):
            stop_attr = n.func.value.attr
    ctx.require(stop_attr, "the spinner loop does not test a stop event")

    def stops_and_joins(node_list):
        """does this list of statements (transitively through self-calls) set the stop event and join the thread?"""
        sets = joins = False
        for s in node_list:
            for c in walk_no_nested(s):
                if isinstance(c, ast.Call) and isinstance(c.func, ast.Attribute):
                    if c.func.attr == "set" and is_self_attr(c.func.value, stop_attr):
                        sets = True
                    if c.func.attr == "join" and is_self_attr(c.func.value, thread_attr) and not c.args and not c.keywords:
                        joins = True  # a join with a time limit is not a join: the thread may still be running (and writing) afterwards
                    if isinstance(c.func.value, ast.Name) and c.func.value.id == "self" and c.func.attr in methods:
                        a, b = stops_and_joins(methods[c.func.attr].node.body)
                        sets, joins = sets or a, joins or b
        return sets, joins

    # ---------------------------------------------------------------- R1
    r = ctx.rule("C19-R1", "PAIR", "every exit of the automatic mode - normal, or any exception thrown into the "
                 "with-body including SystemExit / GeneratorExit - stops and joins the spinner thread", reference=3)
    auto = starter
    ctx.require(auto.is_contextmanager, "%s is not a generator context manager any more" % auto.short)
    yields = [n for n in walk_no_nested(auto.node) if isinstance(n, ast.Yield)]
    ctx.require(yields, "no yield in %s" % auto.short)
    for y in yields:
        tries = [a for a in _anc(y) if isinstance(a, ast.Try)]
        covered = False
        why = "the yield is not inside a try"
        for t in tries:
            if t.finalbody and all(stops_and_joins(t.finalbody)):
                covered = True
            for h in t.handlers:
                names = [] if h.type is None else [norm(x) for x in (h.type.elts if isinstance(h.type, ast.Tuple) else [h.type])]
                if h.type is None or "BaseException" in names:
                    if all(stops_and_joins(h.body)):
                        covered = True
                    else:
                        why = "the catch-all handler does not stop and join the spinner"
                else:
                    why = "the handler names only (%s): SystemExit, GeneratorExit or any other BaseException thrown into the with-body skips it" % ", ".join(names)
        if covered:
            r.ok("%s: exceptional exits of the with-body stop and join the spinner" % auto.short)
        else:
            r.fail(auto, y, "yield: exceptional exit", "leaving the automatic mode by an exception can leave the spinner thread running: " + why)
        # normal exit
        cfg = ctx.cfg(auto)
        yn = cfg.node_of(y)
        good = set()
        for n in cfg.nodes:
            if n.kind in ("stmt", "return") and n.ast is not None:
                if all(stops_and_joins([n.ast])):
                    good.add(n.id)
        if good and cfg.post_dominated_by(yn.id, good - {yn.id}, exc=False):
            r.ok("%s: normal exit stops and joins the spinner" % auto.short)
        else:
            r.fail(auto, y, "yield: normal exit", "the normal exit of the automatic mode does not stop and join the spinner thread")
    # the thread is started only after the stop event exists
    cfg = ctx.cfg(auto)
    starts = [cfg.node_of(c) for c in q.calls(auto) if isinstance(c.func, ast.Attribute) and c.func.attr == "start" and is_self_attr(c.func.value, thread_attr)]
    ev_defs = [n for n in cfg.nodes if n.kind == "stmt" and isinstance(n.ast, ast.Assign) and any(is_self_attr(t, stop_attr) for t in n.ast.targets)]
    if starts and ev_defs and all(any(cfg.dominates(d.id, s.id) for d in ev_defs) for s in starts):
        r.ok("%s: stop event created before the thread starts" % auto.short)

    # ---------------------------------------------------------------- R2
    r = ctx.rule("C19-R2", "LOCKSET", "a frame is written as erase + text; every path to those two writes, from the "
                 "spinner thread and from the caller, holds one common lock", reference=1)
    thread_side = cg.reachable(entries, stop=lambda f: f.cls is not pi)
    frames = []
    for f in [x for x in thread_side.values() if x.cls is pi]:
        cfg = ctx.cfg(f)
        al_ = q.direct_aliases(f)  # `io = self._io; io.write(..)` writes to the same output
        writes = [cfg.node_of(c) for c in q.calls(f) if isinstance(c.func, ast.Attribute) and c.func.attr.startswith("write")
                  and (is_self_attr(c.func.value) or (isinstance(c.func.value, ast.Name) and c.func.value.id in al_))]
        writes = [w for w in writes if w is not None]
        multi = any(b.id in cfg.reach_strict(a.id) for a in writes for b in writes if a is not b)
        if multi:
            frames.append((f, writes))
    if not frames:
        r.vacuous_ok = True
        r.note("the spinner side writes a frame with a single write: nothing to protect")
    lock_attrs = set()
    init = methods.get("__init__")
    for n in walk_no_nested(init.node):
        if isinstance(n, ast.Assign) and isinstance(n.value, ast.Call) and norm(n.value.func).split(".")[-1] in ("Lock", "RLock"):
            for t in n.targets:
                if is_self_attr(t):
                    lock_attrs.add(t.attr)

    def under_lock(f, node):
        for a in _anc(node):
            if isinstance(a, ast.With):
                for item in a.items:
                    if is_self_attr(item.context_expr) and item.context_expr.attr in lock_attrs:
                        return True
        return False

    def all_callers_locked(f, seen=()):
        sites = [cs for cs in cg.callers.get(f.qualname, []) if cs.caller.cls is pi]
        if not sites:
            return False, f
        for cs in sites:
            if under_lock(cs.caller, cs.node):
                continue
            if cs.caller.qualname in seen:
                return False, cs.caller
            ok, where = all_callers_locked(cs.caller, seen + (f.qualname,))
            if not ok:
                return False, cs.caller
        return True, None
    for f, writes in frames:
        inside = all(under_lock(f, w.ast) for w in writes)
        if inside:
            r.ok("%s: both writes of the frame inside 'with self.<lock>'" % f.short)
            continue
        ok, where = all_callers_locked(f)
        if ok:
            r.ok("%s: every call of the two-write frame holds the lock" % f.short)
        else:
            r.fail(f, writes[0].ast, "two-write frame in %s" % f.name,
                   "%s writes a frame in two steps (erase, then text) and is reached from the spinner thread (%s) and from the caller's thread "
                   "(set_message / finish) without a common lock%s: the two frames can interleave on the terminal line" %
                   (f.short, " -> ".join(x.short for x in (cg.call_chain(entries[0], lambda g: g is f) or [])),
                    "" if lock_attrs else " (the class has no lock at all)"), unlocked_path=where.short if where else "")

    # ---------------------------------------------------------------- R4
    r = ctx.rule("C19-R4", "LOCKSET", "the spinner thread is never joined while holding a lock that the spinner "
                 "itself takes (it would wait for the lock forever and the join would never return)", reference=2)
    thread_locks = set()
    for f in [x for x in thread_side.values() if x.cls is pi]:
        for n in walk_no_nested(f.node):
            if isinstance(n, ast.With):
                for item in n.items:
                    if is_self_attr(item.context_expr) and item.context_expr.attr in lock_attrs:
                        thread_locks.add(item.context_expr.attr)
    joins = []
    direct_joiners = set()
    for m in methods.values():
        for c in q.calls(m):
            if isinstance(c.func, ast.Attribute) and c.func.attr == "join" and is_self_attr(c.func.value, thread_attr):
                joins.append((m, c))
                direct_joiners.add(m.name)
    # calls of private helpers that join count as joins at the call site
    for m in methods.values():
        for c in q.calls(m):
            if isinstance(c.func, ast.Attribute) and isinstance(c.func.value, ast.Name) and c.func.value.id == "self" and c.func.attr in direct_joiners and c.func.attr.startswith("_"):
                joins.append((m, c))
    ctx.require(joins, "the spinner thread is never joined")
    for m, c in joins:
        held = [a.items[0].context_expr.attr for a in _anc(c) if isinstance(a, ast.With) and is_self_attr(a.items[0].context_expr) and a.items[0].context_expr.attr in thread_locks]
        if held:
            r.fail(m, c, norm(c) + " under self." + held[0], "%s joins the spinner thread while holding self.%s, which the spinner needs to draw: if the spinner is past its "
                   "stop test the caller waits forever" % (m.short, held[0]))
        else:
            r.ok("%s: join without holding a spinner lock" % m.short)

    # ---------------------------------------------------------------- R5
    r = ctx.rule("C19-R5", "ORDER", "on a normal exit the spinner is stopped and joined before the end message is "
                 "drawn (else a late spinner frame follows the end frame)", reference=1)
    fin = methods.get("finish")
    ctx.require(fin is not None, "ProgressIndicator.finish missing")
    cfgf = ctx.cfg(fin)
    jn = [cfgf.node_of(c) for m, c in joins if m is fin]
    draws = [cfgf.node_of(c) for c in q.calls(fin) if isinstance(c.func, ast.Attribute) and (c.func.attr == "_display" or (c.func.attr.startswith("write") and is_self_attr(c.func.value)))]
    if not jn:
        r.fail(fin, fin.node, "finish does not join", "finish() does not join the spinner thread")
    else:
        late = [d for d in draws if any(j.id in cfgf.reach_strict(d.id) for j in jn)]
        if late:
            r.fail(fin, late[0].ast, "draw before join: " + norm(late[0].ast), "finish() draws the end frame before the spinner thread is joined: a spinner past its stop test "
                   "draws one more frame after it")
        else:
            r.ok("finish: join precedes every draw")

    # ---------------------------------------------------------------- R3
    r = ctx.rule("C19-R3", "ORDER", "in manual mode the interval test precedes the redraw, and a redraw re-arms it", reference=2)
    adv = methods.get("advance")
    ctx.require(adv is not None, "ProgressIndicator.advance missing")
    cfg = ctx.cfg(adv)
    disp = [cfg.node_of(c) for c in q.method_calls(adv, "_display")]
    ctx.require(disp, "advance does not redraw")
    def elapsed(e):
        """+1 if the test is true exactly when the interval has elapsed (now >= update_time), -1 if true when it
        has not (now < update_time), 0 if it is not such a test"""
        if not (isinstance(e, ast.Compare) and len(e.ops) == 1):
            return 0
        l_up = any(is_self_attr(x, "_update_time") for x in walk_no_nested(e.left))
        r_up = any(is_self_attr(x, "_update_time") for x in walk_no_nested(e.comparators[0]))
        if l_up == r_up:
            return 0
        op = e.ops[0]
        if r_up:   # now OP update_time
            return 1 if isinstance(op, (ast.GtE, ast.Gt)) else (-1 if isinstance(op, (ast.Lt, ast.LtE)) else 0)
        return 1 if isinstance(op, (ast.LtE, ast.Lt)) else (-1 if isinstance(op, (ast.Gt, ast.GtE)) else 0)
    for d in disp:
        g = guarded_by(cfg, d, lambda e: elapsed(e) == -1, polarity=False, kill_names=lambda e: set())
        g2 = guarded_by(cfg, d, lambda e: elapsed(e) == 1, polarity=True, kill_names=lambda e: set())
        if g is not None or g2 is not None:
            r.ok("%s: redraw only when the interval has elapsed" % adv.short)
        else:
            r.fail(adv, d.ast, norm(d.ast), "advance redraws without (or before) testing the update interval")
        rearm = [n for n in cfg.nodes if n.kind == "stmt" and isinstance(n.ast, ast.Assign) and any(is_self_attr(t, "_update_time") for t in n.ast.targets)]
        if rearm and any(cfg.dominates(x.id, d.id) or cfg.post_dominated_by(d.id, {x.id}) for x in rearm):
            r.ok("%s: the next update time is re-armed with the redraw" % adv.short)
        else:
            r.fail(adv, d.ast, "re-arm", "a redraw does not move the next update time forward: every later advance redraws")

    # ---------------------------------------------------------------- R6
    r = ctx.rule("C19-R6", "OWNER", "the caller owns the spinner's handle and stop event: the fields it uses to stop and join the thread are never "
                 "rebound by code that runs on the spinner thread (a handle cleared by the dying spinner turns the caller's join into an AttributeError "
                 "on one schedule - the end message is never drawn)", reference=2)
    ts = cg.reachable(entries, stop=lambda f: f.cls is not pi)
    for fld in (thread_attr, stop_attr):
        bad = None
        for f in [x for x in ts.values() if x.cls is pi]:
            for node, kind, t in q.writes_to_self_attr(f, fld):
                if kind == "rebind":
                    bad = (f, node)
        if bad:
            f, node = bad
            r.fail(f, node, norm(node) + " on the spinner thread", "%s, which runs on the spinner thread, rebinds self.%s while the caller reads it to stop and join the spinner: between the caller's "
                   "set() and join() the field can change under it" % (f.short, fld))
        else:
            r.ok("self.%s is rebound only on the caller's side" % fld)

    # ---------------------------------------------------------------- R7
    r = ctx.rule("C19-R7", "PAIR", "whoever ends the automatic mode ends the spinner: in the method that joins the spinner thread every normal path to its end passes the join "
                 "(or the test showing there is no thread) - no early return on quiet / on the output kind before it; and a thread object that is created is started on every "
                 "path to the with-body (a join of a thread that was never started raises)", reference=3)
    always_joins = set()
    for _round in range(3):
        for name_, m in sorted(methods.items()):
            cfg_ = ctx.cfg(m)
            joins = {n.id for c in q.calls(m) if isinstance(c.func, ast.Attribute) and c.func.attr == "join" and is_self_attr(c.func.value, thread_attr) for n in cfg_.nodes_of(c)}
            joins |= {n.id for c in q.calls(m) if isinstance(c.func, ast.Attribute) and isinstance(c.func.value, ast.Name) and c.func.value.id == "self" and c.func.attr in always_joins for n in cfg_.nodes_of(c)}
            if not joins:
              continue
            if _round < 2:
              nt_ = {e.id for e in cfg_.nodes if e.kind in ("T", "F") and isinstance(e.ast, ast.Compare) and is_self_attr(e.ast.left, thread_attr) and isinstance(e.ast.comparators[0], ast.Constant)
                     and e.ast.comparators[0].value is None and ((isinstance(e.ast.ops[0], ast.IsNot) and e.kind == "F") or (isinstance(e.ast.ops[0], ast.Is) and e.kind == "T"))}
              if cfg_.all_paths_hit(cfg_.entry.id, joins | nt_, [cfg_.exit.id]):
                  always_joins.add(name_)
              continue
            no_thread = {e.id for e in cfg_.nodes if e.kind in ("T", "F") and isinstance(e.ast, ast.Compare) and is_self_attr(e.ast.left, thread_attr) and isinstance(e.ast.comparators[0], ast.Constant)
                         and e.ast.comparators[0].value is None and ((isinstance(e.ast.ops[0], ast.IsNot) and e.kind == "F") or (isinstance(e.ast.ops[0], ast.Is) and e.kind == "T"))}
            no_thread |= {e.id for e in cfg_.nodes if e.kind == "F" and is_self_attr(e.ast, thread_attr)}
            if cfg_.all_paths_hit(cfg_.entry.id, joins | no_thread, [cfg_.exit.id]):
                r.ok("%s: every normal path joins the spinner or finds none" % m.short)
            else:
                r.fail(m, m.node, "%s can return without joining the spinner" % name_, "%s has a normal path to its end that neither joins the spinner thread nor establishes that there is none "
                       "(an early return): the automatic mode is left while the spinner is still running" % m.short)
    scfg_ = ctx.cfg(starter)
    created = [n for n in scfg_.nodes if n.kind == "stmt" and isinstance(n.ast, ast.Assign) and isinstance(n.ast.value, ast.Call) and norm(n.ast.value.func).endswith("Thread")]
    starts = {n.id for c in q.calls(starter) if isinstance(c.func, ast.Attribute) and c.func.attr == "start" and not c.args and (is_self_attr(c.func.value, thread_attr) or isinstance(c.func.value, ast.Name)) for n in scfg_.nodes_of(c)}
    yields = [n.id for n in scfg_.nodes if n.ast is not None and n.kind in ("stmt",) and any(isinstance(x, (ast.Yield, ast.YieldFrom)) for x in walk_no_nested(n.ast))]
    if created and yields:
        if starts and all(scfg_.all_paths_hit(c_.id, starts, yields) for c_ in created):
            r.ok("%s: the thread is started on every path to the with-body" % starter.short)
        else:
            r.fail(starter, created[0].ast, "thread created but not always started", "%s creates the spinner thread but reaches the with-body on a path that does not start it: leaving the mode joins "
                   "a thread that never ran - RuntimeError instead of the end message (and instead of the body's own exception)" % starter.short)

    # ---------------------------------------------------------------- R8
    r = ctx.rule("C19-R8", "RANGE", "a frame can be drawn at any moment (the caller changes the message while the spinner ticks): where the spinner character is picked, the running counter is "
                 "reduced modulo the number of characters - the bound does not rely on another statement having run first", reference=1)
    n8 = 0
    for name_, m in sorted(methods.items()):
        for sub in [n for n in walk_no_nested(m.node) if isinstance(n, ast.Subscript) and isinstance(n.ctx, ast.Load) and is_self_attr(n.value) and any(is_self_attr(x) for x in walk_no_nested(n.slice))]:
            counter = [x.attr for x in walk_no_nested(sub.slice) if is_self_attr(x) and x.attr != sub.value.attr]
            if not counter:
                continue
            written_by_thread = any(q.writes_to_self_attr(f_, counter[0]) for f_ in thread_side.values() if f_.cls is pi)
            if not written_by_thread:
                continue
            n8 += 1
            sl = sub.slice
            if isinstance(sl, ast.BinOp) and isinstance(sl.op, ast.Mod) and any(isinstance(c, ast.Call) and isinstance(c.func, ast.Name) and c.func.id == "len" and c.args and norm(c.args[0]) == norm(sub.value) for c in walk_no_nested(sl.right)):
                r.ok("%s: %s" % (m.short, norm(sub)))
            else:
                r.fail(m, sub, norm(sub), "%s indexes %s with the raw counter self.%s, which the spinner thread changes: between the spinner's increment and its wrap-around a frame drawn by the caller "
                       "raises IndexError" % (m.short, norm(sub.value), counter[0]))
    if n8 == 0:
        r.vacuous_ok = True

    # ---------------------------------------------------------------- R9
    r = ctx.rule("C19-R9", "KEY", "the frame format is chosen for the output the frames are written to: capability questions (ANSI support, verbosity) are put to self._io after the constructor "
                 "unwrapped an I/O facade to its error output - never to the constructor's raw parameter", reference=7)
    CAP = ("supports_ansi", "is_verbose", "is_very_verbose", "is_debug", "is_quiet")
    init_ = methods["__init__"]
    icfg_ = ctx.cfg(init_)
    io_field_writes = [n for n in icfg_.nodes if n.kind == "stmt" and isinstance(n.ast, ast.Assign) and any(is_self_attr(t, "_io") for t in n.ast.targets)]
    n9 = 0
    for name_, m in sorted(methods.items()):
        for c in q.calls(m):
            if not (isinstance(c.func, ast.Attribute) and c.func.attr in CAP):
                continue
            recv = c.func.value
            n9 += 1
            if is_self_attr(recv, "_io"):
                # in the constructor (or a helper it calls) the field must have been assigned before
                if m is init_ and not all(any(icfg_.dominates(w.id, cn.id) for w in io_field_writes) for cn in icfg_.nodes_of(c)):
                    r.fail(m, c, norm(c) + " before self._io is set", "%s asks %s before self._io was assigned" % (m.short, norm(c)))
                else:
                    r.ok("%s: %s" % (m.short, norm(c)))
            elif isinstance(recv, ast.Name) and recv.id in m.params:
                r.fail(m, c, "%s asked of parameter %s" % (c.func.attr, recv.id), "%s puts the question %s() to its parameter `%s`, not to self._io: for an I/O facade that is the standard output, while the frames go to "
                       "the error output - with a plain stdout and a capable stderr every frame loses its spinner character" % (m.short, c.func.attr, recv.id))
            else:
                r.ok("%s: %s" % (m.short, norm(c)))
    # helpers that read self._io and are called from the constructor must be called after the assignment
    for c in q.calls(init_):
        if isinstance(c.func, ast.Attribute) and isinstance(c.func.value, ast.Name) and c.func.value.id == "self" and c.func.attr in methods:
            h = methods[c.func.attr]
            if any(isinstance(x.func, ast.Attribute) and x.func.attr in CAP and is_self_attr(x.func.value, "_io") for x in q.calls(h)):
                if all(any(icfg_.dominates(w.id, cn.id) for w in io_field_writes) for cn in icfg_.nodes_of(c)):
                    r.ok("%s: %s called after self._io is set" % (init_.short, norm(c.func)))
                else:
                    r.fail(init_, c, norm(c.func) + " before self._io is set", "%s is called before self._io is assigned" % norm(c.func))
    if n9 == 0:
        r.vacuous_ok = True
    # ---------------------------------------------------------------- R10
    r = ctx.rule("C19-R10", "SENTINEL", "'the end frame shows the end message': finish() shows the message it was given, whatever it is - the store of the message is not under a "
                 "truthiness test of the parameter (the empty message is a message), and every wait for the spinner thread is without a time limit", reference=3)
    fin_m = methods.get("finish")
    ctx.require(fin_m is not None, "ProgressIndicator.finish missing")
    fcfg_ = ctx.cfg(fin_m)
    prm_ = [a for a in fin_m.params if a != "self"]
    stores_ = [n for n in fcfg_.nodes if n.kind == "stmt" and isinstance(n.ast, ast.Assign) and isinstance(n.ast.value, ast.Name) and n.ast.value.id in prm_ and any(is_self_attr(t) and "message" in t.attr for t in n.ast.targets)]
    if not stores_:
        r.note("finish() does not store its message parameter directly")
    for st in stores_:
        var = st.ast.value.id
        g = guarded_by(fcfg_, st, lambda e: (isinstance(e, ast.Name) and e.id == var), polarity=True)
        if g is not None:
            r.fail(fin_m, st.ast, "%s under `if %s`" % (norm(st.ast), var), "%s keeps the previous message when the end message is falsy: finish('') / auto(start, '') leave the start message on the last frame" % fin_m.short)
        else:
            r.ok("%s: %s whatever the message is" % (fin_m.short, norm(st.ast)))
    for name_, m_ in sorted(methods.items()):
        for c in q.calls(m_):
            if isinstance(c.func, ast.Attribute) and c.func.attr == "join" and is_self_attr(c.func.value, thread_attr):
                if c.args or c.keywords:
                    r.fail(m_, c, "%s with a time limit" % norm(c), "%s waits for the spinner thread for a limited time only: when the spinner is held up in a write the caller goes on while the spinner is still "
                           "alive and still writing frames" % m_.short)
                else:
                    r.ok("%s: %s waits without limit" % (m_.short, norm(c)))

    # ---------------------------------------------------------------- R11
    r = ctx.rule("C19-R11", "OWNER", "'the spinner stops when asked': a stop request cannot be lost - the code the spinner thread runs never resets the stop event (clear()), "
                 "whatever the order in which the two threads get to run", reference=1)
    n11 = 0
    for f in sorted(thread_side.values(), key=lambda x: x.qualname):
        if f.cls is not pi:
            continue
        for c in q.calls(f):
            if isinstance(c.func, ast.Attribute) and c.func.attr == "clear" and is_self_attr(c.func.value, stop_attr):
                n11 += 1
                r.fail(f, c, "%s on the spinner side" % norm(c), "%s resets the stop event from the spinner thread: when the caller sets it before the new thread has run its first statement the request "
                       "is wiped - the spinner never stops and join() never returns" % f.short)
    if n11 == 0:
        r.ok("no function on the spinner side resets self.%s" % stop_attr)

    # ---------------------------------------------------------------- R12
    r = ctx.rule("C19-R12", "UNIT", "'redraws no more often than the interval': the redraw deadline is kept in milliseconds (the interval's unit) - every value stored in it comes from "
                 "the millisecond clock, never from time.time() (seconds) or a field holding it", reference=3)
    ms_fn = next((n_ for n_, m_ in methods.items() if "millisecond" in n_), None)
    ctx.require(ms_fn is not None, "the millisecond clock helper of ProgressIndicator was not found")
    # the deadline field: the attribute compared with the millisecond clock
    deadline = set()
    for m_ in methods.values():
        for x in walk_no_nested(m_.node):
            if isinstance(x, ast.Compare) and any(isinstance(y, ast.Call) and isinstance(y.func, ast.Attribute) and y.func.attr == ms_fn for y in ast.walk(x)):
                deadline |= {y.attr for y in ast.walk(x) if is_self_attr(y)}
    if not deadline:
        # compared through a local holding the clock value
        for m_ in methods.values():
            clk = {t.id for n_ in walk_no_nested(m_.node) if isinstance(n_, ast.Assign) and any(isinstance(y, ast.Call) and isinstance(y.func, ast.Attribute) and y.func.attr == ms_fn for y in ast.walk(n_.value))
                   for t in n_.targets if isinstance(t, ast.Name)}
            for x in walk_no_nested(m_.node):
                if isinstance(x, ast.Compare) and any(isinstance(y, ast.Name) and y.id in clk for y in ast.walk(x)):
                    deadline |= {y.attr for y in ast.walk(x) if is_self_attr(y)}
    ctx.require(deadline, "the redraw deadline (field compared with the millisecond clock) was not found")
    for name_, m_ in sorted(methods.items()):
        clk = {t.id for n_ in walk_no_nested(m_.node) if isinstance(n_, ast.Assign) and any(isinstance(y, ast.Call) and isinstance(y.func, ast.Attribute) and y.func.attr == ms_fn for y in ast.walk(n_.value))
               for t in n_.targets if isinstance(t, ast.Name)}
        for node_, kind_, t_ in [w for d_ in deadline for w in q.writes_to_self_attr(m_, d_)]:
            if not isinstance(node_, (ast.Assign, ast.AugAssign)):
                continue
            v = node_.value
            from_ms = any(isinstance(y, ast.Call) and isinstance(y.func, ast.Attribute) and y.func.attr == ms_fn for y in ast.walk(v)) or any(isinstance(y, ast.Name) and y.id in clk for y in ast.walk(v))
            const0 = isinstance(v, ast.Constant)
            if from_ms or const0 or isinstance(node_, ast.AugAssign):
                r.ok("%s: %s in milliseconds" % (m_.short, norm(node_)[:60]))
            else:
                r.fail(m_, node_, norm(node_)[:70], "%s sets the redraw deadline from `%s`, which is not the millisecond clock: seconds plus a millisecond interval lie far in the past, so the next advance() "
                       "redraws at once whatever the interval" % (m_.short, norm(v)[:50]))

    # ---------------------------------------------------------------- R13
    r = ctx.rule("C19-R13", "LOCKSET", "'every frame shows the current message': a frame is rendered (message and indicator read) and written under one lock - the renderer callback is "
                 "referenced only inside the lock that also covers the writes", reference=1)
    n13 = 0
    for name_, m_ in sorted(methods.items()):
        for x in walk_no_nested(m_.node):
            if isinstance(x, ast.Attribute) and x.attr == "_overwrite_callback" and isinstance(x.value, ast.Name) and x.value.id == "self" and isinstance(x.ctx, ast.Load):
                n13 += 1
                if under_lock(m_, x) or all_callers_locked(m_)[0]:
                    r.ok("%s: the frame is rendered under the lock" % m_.short)
                else:
                    r.fail(m_, x, "frame rendered outside the lock", "%s renders the frame (reads the message and the indicator) before it takes the lock that covers the writes: a spinner holding a frame rendered from "
                           "the old message draws it over the frame the caller wrote for the new message" % m_.short)
    if n13 == 0 or not lock_attrs:
        r.vacuous_ok = True

    return ctx.results
