"""C17 - what is rendered does not depend on what was processed before."""
import ast

from ..loader import walk_no_nested, norm, is_self_attr, ClassInfo
from ..effects import root, is_fresh, show, path_fields
from .. import q
from ..cfg import guarded_by
from .c05 import scratch_rule, restored_on_all_exits


def memo_slots(ctx):
    """Class-level slots filled lazily by a classmethod that returns them:
    slot -> factory FuncInfo."""
    out = {}
    eff = ctx.effects
    for fi in ctx.p.all_functions():
        s = eff.summary(fi)
        if s is None or not s.gstores:
            continue
        for slot in s.gstores:
            if ("g", slot) in s.returns:
                out[slot] = fi
    return out


def pair_on_all_exits(ctx, fi, acquire_call, release_name):
    """Every path (normal and exceptional) from after ``acquire_call`` to an exit
    of ``fi`` passes a call ``<same receiver>.<release_name>()``."""
    cfg = ctx.cfg(fi)
    recv = norm(acquire_call.func.value)
    rel = set()
    for n in cfg.nodes:
        if n.ast is None or n.kind not in ("stmt", "return", "cond"):
            continue
        for c in walk_no_nested(n.ast):
            if isinstance(c, ast.Call) and isinstance(c.func, ast.Attribute) and c.func.attr == release_name and norm(c.func.value) == recv:
                rel.add(n.id)
    # "nothing to restore": an edge of a test on a flag saved from the state
    # query before the switch (was_lenient = X.is_..._enabled()) on which the
    # switch was already on
    saved = set()
    for n in walk_no_nested(fi.node):
        if isinstance(n, ast.Assign) and len(n.targets) == 1 and isinstance(n.targets[0], ast.Name) and isinstance(n.value, ast.Call) \
                and isinstance(n.value.func, ast.Attribute) and n.value.func.attr.startswith("is_") and norm(n.value.func.value) == recv:
            defs = [w for w in cfg.writes(lambda t, nm=n.targets[0].id: t == nm)]
            if len(defs) == 1:
                # the query must precede the switch
                if all(cfg.dominates(defs[0].id, an.id) for an in cfg.nodes_of(acquire_call)):
                    saved.add(n.targets[0].id)
    # the negated form: restore_needed = not X.is_..._enabled()  ->  the false edge of `if restore_needed` is "nothing to restore"
    saved_neg = set()
    for n in walk_no_nested(fi.node):
        if isinstance(n, ast.Assign) and len(n.targets) == 1 and isinstance(n.targets[0], ast.Name) and isinstance(n.value, ast.UnaryOp) and isinstance(n.value.op, ast.Not) \
                and isinstance(n.value.operand, ast.Call) and isinstance(n.value.operand.func, ast.Attribute) and n.value.operand.func.attr.startswith("is_") and norm(n.value.operand.func.value) == recv:
            defs = [w for w in cfg.writes(lambda t, nm=n.targets[0].id: t == nm)]
            if len(defs) == 1 and all(cfg.dominates(defs[0].id, an.id) for an in cfg.nodes_of(acquire_call)):
                saved_neg.add(n.targets[0].id)
    for n in cfg.nodes:
        if n.kind == "T" and isinstance(n.ast, ast.Name) and n.ast.id in saved:
            rel.add(n.id)
        if n.kind == "F" and isinstance(n.ast, ast.Name) and n.ast.id in saved_neg:
            rel.add(n.id)
        if n.kind == "T" and isinstance(n.ast, ast.UnaryOp) and isinstance(n.ast.op, ast.Not) and isinstance(n.ast.operand, ast.Name) and n.ast.operand.id in saved_neg:
            rel.add(n.id)
    if not rel:
        return False, "no call of %s.%s() in %s" % (recv, release_name, fi.short)
    for an in cfg.nodes_of(acquire_call):
        for s in cfg.succs(an.id, exc=False):
            if not cfg.post_dominated_by(s, rel, exc=False):
                return False, "a normal path leaves %s without %s()" % (fi.short, release_name)
            if not cfg.post_dominated_by(s, rel, exc=True):
                return False, "an exception raised after the switch leaves %s without %s()" % (fi.short, release_name)
    return True, ""


def leniency_pair_rule(ctx, r):
    """PAIR rule (shared with C03 and C05)."""
    p = ctx.p
    n_pairs = 0
    for fi in p.all_functions():
        for c in q.method_calls(fi, "enable_lenient_args_parsing"):
            if isinstance(c.func.value, ast.Name) and c.func.value.id == "self" and fi.module.name.startswith(("clikit.api.config", "clikit.config")):
                continue  # a configuration object setting its own (permanent) mode, e.g. in configure()
            n_pairs += 1
            ok, why = pair_on_all_exits(ctx, fi, c, "disable_lenient_args_parsing")
            if ok:
                r.ok("%s: %s paired on all exits" % (fi.short, norm(c)))
            else:
                r.fail(fi, c, norm(c), "leniency switched on for a command config but %s: later runs of that command "
                       "parse leniently" % why)
    if n_pairs == 0:
        r.vacuous_ok = True
        r.note("no runtime code switches leniency any more")


def run(ctx):
    p, cg, eff = ctx.p, ctx.cg, ctx.effects

    # ---------------------------------------------------------------- R1
    r = ctx.rule("C17-R1", "OWNER", "an object handed out by a memoising factory (class slot filled under an "
                 "'is None' test and returned) is never mutated by its receivers", reference=7)
    slots = memo_slots(ctx)
    ctx.require(slots, "no memoising factory found (BorderStyle.none/ascii/solid expected)")
    for slot, fac in sorted(slots.items()):
        offenders = []
        for fi in p.all_functions():
            if fi is fac:
                continue
            for ev in eff.events_in(fi):
                rt = root(ev.token)
                if rt == ("g", slot) and not is_fresh(ev.token):
                    o = ev.origin_event()
                    if o.fi is fi:
                        offenders.append((fi, ev))
        if not offenders:
            r.ok("%s() result (%s) never mutated outside the factory" % (fac.short, slot.split(".")[-1]))
        for fi, ev in offenders:
            r.fail(fi, ev.node, norm(ev.node),
                   "%s mutates the shared object cached in %s (returned by %s()): every other holder of that "
                   "object sees the change" % (fi.short, slot.split(".", 3)[-1], fac.short), token=show(ev.token))
    # R1b: the shared object must not be planted into another object's field
    # (it would be customised through that object later)
    facs = set(f.qualname for f in slots.values())
    for fi in p.all_functions():
        if fi.qualname in facs:
            continue
        for cs in cg.sites_in(fi):
            if not any(t.qualname in facs for t in cs.targets):
                continue
            par = getattr(cs.node, "_parent", None)
            if isinstance(par, ast.Assign) and par.value is cs.node and any(isinstance(t, ast.Attribute) for t in par.targets):
                r.fail(fi, par, norm(par), "%s stores the shared object returned by %s() in a field of the style it builds: "
                       "customising that style changes every other style built from the same cache" % (fi.short, cs.targets[0].short))
            else:
                r.ok("%s: %s not planted uncopied" % (fi.short, norm(cs.node)))
    # positive control: the rule's matcher must recognise a mutation of a memo slot
    ctx.require(all(("g", s) in eff.summary(f).returns for s, f in slots.items()), "memo slot summaries inconsistent")

    # ---------------------------------------------------------------- R2
    r = ctx.rule("C17-R2", "PAIR", "a temporary switch of a command's leniency is switched back on every exit, "
                 "exceptional ones included", reference=1)
    leniency_pair_rule(ctx, r)

    # ---------------------------------------------------------------- R3
    r = ctx.rule("C17-R3", "OWNER", "the caller's raw tokens are not edited by a resolver or handler (or the edit is "
                 "undone on every exit)", reference=10)
    raw_base = ctx.cls("clikit.api.args.raw_args.RawArgs")
    for fi in p.all_functions():
        if not fi.module.name.startswith(("clikit.resolver.", "clikit.handler.", "clikit.console_application", "clikit.config.")):
            continue
        env = ctx.typer.env(fi)
        for prm in q.param_names(fi):
            t = env.get(prm)
            if t is None or not any(raw_base in c.mro for c in t.classes):
                continue
            evs = [e for e in eff.mutations_rooted_at(fi, prm) if not restored_on_all_exits(ctx, e) and e.origin_event().fi is fi]
            if evs:
                o = evs[0].origin_event()
                r.fail(fi, o.node, norm(o.node), "%s edits the caller's raw arguments (%s)" % (fi.short, show(evs[0].token)))
            else:
                r.ok("%s(%s)" % (fi.short, prm))

    # ---------------------------------------------------------------- R4
    r = ctx.rule("C17-R4", "CACHEKEY", "the key of a class-level memo covers every input of the memoised value", reference=1)
    memo_key_rule(ctx, r)

    # ---------------------------------------------------------------- R5
    r = ctx.rule("C17-R5", "READONLY", "render() of every Component leaves the component's own state as it found it "
                 "(fields recomputed from scratch before use are allowed)", reference=6)
    render_readonly_rule(ctx, r)

    # ---------------------------------------------------------------- R6
    r = ctx.rule("C17-R6", "OWNER", "class-level and module-level mutable containers are never mutated, except as a "
                 "memo (R4) or a memo slot (R1)", reference=17)
    global_containers_rule(ctx, r)
    class_level_through_self(ctx, r)
    shared_objects_rule(ctx, "C17-R7", lambda modname: True, reference=56)

    # ---------------------------------------------------------------- R8
    r = ctx.rule("C17-R8", "OWNER", "a configured value is replaced only by its setter: in the config classes a field that has a setter is "
                 "written elsewhere only to fill in a default while it is still None - a getter never stores what it "
                 "derived from the configured value (a handler factory stays a factory: every run gets its own handler)", reference=3)
    for ci in sorted([c for c in p.classes.values() if c.module.name.startswith("clikit.api.config")], key=lambda c: c.qualname):
        setter_of = {}
        for name, m in ci.methods.items():
            prm = set(a for a in m.params if a != "self")
            for n in walk_no_nested(m.node):
                if isinstance(n, ast.Assign) and isinstance(n.value, ast.Name) and n.value.id in prm:
                    for t in n.targets:
                        if isinstance(t, ast.Attribute) and isinstance(t.value, ast.Name) and t.value.id == "self":
                            setter_of.setdefault(t.attr, name)
        for name, m in sorted(ci.methods.items()):
            if name == "__init__":
                continue
            prm = set(a for a in m.params if a != "self")
            cfg = None
            for n in walk_no_nested(m.node):
                if not isinstance(n, (ast.Assign, ast.AugAssign)):
                    continue
                tgts = n.targets if isinstance(n, ast.Assign) else [n.target]
                for t in tgts:
                    if not (isinstance(t, ast.Attribute) and isinstance(t.value, ast.Name) and t.value.id == "self" and t.attr in setter_of):
                        continue
                    v = n.value
                    if isinstance(v, ast.Constant) or (isinstance(v, ast.Name) and v.id in prm) or any(isinstance(x, ast.Name) and x.id in prm for x in walk_no_nested(v)):
                        continue  # a setter / enable / disable
                    cfg = cfg or ctx.cfg(m)
                    fld = t.attr
                    guards = [guarded_by(cfg, cn, lambda e: isinstance(e, ast.Compare) and isinstance(e.ops[0], ast.Is) and isinstance(e.left, ast.Attribute) and e.left.attr == fld
                                         and isinstance(e.comparators[0], ast.Constant) and e.comparators[0].value is None, polarity=True, kill_names=lambda e: set())
                              for cn in cfg.nodes_of(n)]
                    if guards and all(g is not None for g in guards):
                        r.ok("%s.%s: self.%s filled in while None" % (ci.name, name, fld))
                    else:
                        r.fail(m, n, norm(n), "%s.%s overwrites self.%s, the value configured with %s(), by something derived from it: what was configured "
                               "(a factory, say) is gone after the first access, so later runs of the same application share one object where a fresh application creates its own"
                               % (ci.name, name, fld, setter_of[fld]))

    # ---------------------------------------------------------------- R9
    from .c05 import scratch_rule

    r = ctx.rule("C17-R9", "RESET", "fitting cells twice gives what a fresh wrapper gives: every attribute CellWrapper.fit writes "
                 "(directly or through its helpers) is re-initialised before its first use in that fit (same rule as C05-R1)", reference=8)
    fit = ctx.cls("clikit.ui.components.cell_wrapper.CellWrapper").methods.get("fit")
    ctx.require(fit is not None, "CellWrapper.fit missing")
    scratch_rule(ctx, r, fit)

    # ---------------------------------------------------------------- R10
    r = ctx.rule("C17-R10", "RESET", "a run after a failed run is like a run on a fresh application: an args parser kept on a config (set_args_parser) "
                 "starts every parse from empty scratch maps, also when the previous parse ended in an error (same rule as C05-R1)", reference=2)
    parser_base = ctx.cls("clikit.api.args.args_parser.ArgsParser")
    for c in p.subclasses(parser_base, strict=True):
        if "parse" in c.methods:
            scratch_rule(ctx, r, c.methods["parse"])

    # ---------------------------------------------------------------- R11
    ctx.borrow("c05", "C05-R2", "C17-R11", "running the same argv list twice gives the same run twice: nothing that receives an argv list, raw args or a format mutates it "
               "(or the inverse mutation is on every exit)")

    # ---------------------------------------------------------------- R12
    r = ctx.rule("C17-R12", "OWNER", "what one command line asks for stays in that run: building the I/O for a run (the configured I/O factory) writes nothing into the "
                 "long-lived application configuration (a `-vvv` must not leave the application in debug mode for later runs)", reference=1)
    n12 = 0
    for ci in sorted(p.classes.values(), key=lambda c: c.qualname):
        m = ci.methods.get("create_io")
        if m is None:
            continue
        n12 += 1
        bad = None
        for ev in eff.events_in(m):
            rt = root(ev.token)
            if is_fresh(ev.token) or rt[0] != "p" or rt[1] in ("input_stream", "output_stream", "error_stream"):
                continue
            bad = ev
            break
        if bad is not None:
            o = bad.origin_event()
            r.fail(m, bad.node, "create_io writes %s: %s" % (show(bad.token), norm(o.node)), "%s changes %s while building the I/O of one run (%s): the change outlives the run and every later run on "
                   "the same application behaves as if it had been given that switch" % (m.short, show(bad.token), bad.chain()), chain=bad.chain())
        else:
            r.ok("%s: writes only the I/O objects it creates" % m.short)
    if n12 == 0:
        r.vacuous_ok = True
    # ---------------------------------------------------------------- R16
    r = ctx.rule("C17-R16", "RESET", "'rendering a component twice gives identical output': the label alignment a layout computes is computed from this render's paragraphs only - "
                 "LabelAlignment.align resets the offset it accumulates before it reads it (an alignment object is re-used when a layout is rendered again)", reference=1)
    la = ctx.p.classes.get("clikit.ui.alignment.label_alignment.LabelAlignment")
    if la is None or "align" not in la.methods:
        r.vacuous_ok = True
        r.note("LabelAlignment.align not present")
    else:
        scratch_rule(ctx, r, la.methods["align"])

    # ---------------------------------------------------------------- R14
    r = ctx.rule("C17-R14", "ORDER", "'creating a predefined object twice yields the same characters': a lazily created shared object is published in its class slot only when it is "
                 "complete - after the store into the slot the factory does not go on setting the object's attributes (a second caller, or a caller arriving after an interrupted "
                 "first creation, would receive it half-built)", reference=3)
    n14 = 0
    for fi in sorted(p.all_functions(), key=lambda f: f.qualname):
        if fi.cls is None:
            continue
        fcfg = None
        for n in walk_no_nested(fi.node):
            if not isinstance(n, ast.Assign):
                continue
            slots_ = [t for t in n.targets if isinstance(t, ast.Attribute) and isinstance(t.value, ast.Name) and t.value.id in ("cls", fi.cls.name) and t.attr in fi.cls.attrs]
            if not slots_:
                continue
            # the object being published: a local named on the right (or beside the slot in a chained assignment)
            objs_ = [t.id for t in n.targets if isinstance(t, ast.Name)] + ([n.value.id] if isinstance(n.value, ast.Name) else [])
            n14 += 1
            fcfg = fcfg or ctx.cfg(fi)
            pub = fcfg.node_of(n)
            late = None
            for o in objs_:
                for w in fcfg.nodes:
                    if w.kind == "stmt" and isinstance(w.ast, (ast.Assign, ast.AugAssign)) and w.id != pub.id and w.id in fcfg.reach_strict(pub.id):
                        tg = w.ast.targets if isinstance(w.ast, ast.Assign) else [w.ast.target]
                        if any(isinstance(t, (ast.Attribute, ast.Subscript)) and isinstance(getattr(t, "value", None), ast.Name) and t.value.id == o for t in tg):
                            late = (o, w)
                            break
                if late:
                    break
            if late:
                r.fail(fi, n, "%s published before it is complete" % norm(slots_[0]), "%s stores the new object in %s and only then sets it up (`%s` ...): whoever reads the slot in between - a second "
                       "thread, or the next caller after an interrupt during the first creation - gets an object with the constructor's defaults (another border style)" % (fi.short, norm(slots_[0]), norm(late[1].ast)[:40]))
            else:
                r.ok("%s: %s is stored when the object is complete" % (fi.short, norm(slots_[0])))
    if n14 == 0:
        r.vacuous_ok = True

    # ---------------------------------------------------------------- R15
    r = ctx.rule("C17-R15", "OWNER", "'creating a predefined object': what a constructor hands to every new instance is new - a class-level (or module-level) container does not hold "
                 "instances of the package's mutable classes (each application's style set has Style objects of its own; changing one in place changes no other application)", reference=0)
    mutable_cls = {}

    def is_mutable(ci_):
        if ci_.qualname not in mutable_cls:
            mutable_cls[ci_.qualname] = any(q.writes_to_self_attr(m_, None) if False else any(is_self_attr(x) and isinstance(getattr(x, "ctx", None), ast.Store) for x in walk_no_nested(m_.node))
                                            for nm_, m_ in ci_.methods.items() if nm_ != "__init__")
        return mutable_cls[ci_.qualname]

    n15 = 0
    holders = [(ci.module, ci.qualname + "." + nm_, v_, ci) for ci in p.classes.values() for nm_, v_ in ci.attrs.items()] + [(m_, m_.name + "." + nm_, v_, None) for m_ in p.modules.values() for nm_, v_ in m_.assigns.items()]
    for mod, slot, val, ci in sorted(holders, key=lambda h: h[1]):
        if not isinstance(val, (ast.List, ast.Tuple, ast.Dict, ast.Set)):
            continue
        elems = list(val.values) if isinstance(val, ast.Dict) else list(val.elts)
        bad = None
        for e in elems:
            b = e
            while isinstance(b, ast.Call) and isinstance(b.func, ast.Attribute):
                b = b.func.value  # Style("x").fg("green").bold(): the object is the innermost call
            if isinstance(b, ast.Call) and isinstance(b.func, ast.Name):
                rc_ = p.resolve_global(mod.name, b.func.id)
                if isinstance(rc_, ClassInfo) and is_mutable(rc_):
                    bad = (e, rc_)
                    break
        if bad is None:
            continue
        n15 += 1
        owner = ci if ci is not None else mod
        r.fail(owner, val, "%s holds %s instances" % (slot.split("clikit.", 1)[-1], bad[1].name), "%s is created once, when the module is imported, and holds %s objects, which have setters: every object built "
               "from it shares them - customising one application's %s in place changes every other and every later-built application" % (slot.split("clikit.", 1)[-1], bad[1].name, bad[1].name.lower()))
    if n15 == 0:
        r.vacuous_ok = True
        r.note("no class- or module-level container holds instances of a mutable class of the package")

    # ---------------------------------------------------------------- R13
    r = ctx.rule("C17-R13", "OWNER", "'creating a predefined object / rendering twice': an object created once at import time (a module-level instance) is shared by every caller and "
                 "every thread - no function configures it per call (attribute store, item store, mutating method); per-call settings belong to a per-call object", reference=0)
    module_objects_rule(ctx, r)

    return ctx.results


def render_readonly_rule(ctx, r, mod_pred=None):
    """READONLY rule (shared with C13 for the help pages)."""
    p, cg, eff = ctx.p, ctx.cg, ctx.effects
    comp = ctx.cls("clikit.ui.component.Component")
    for c in p.subclasses(comp, strict=True):
        if mod_pred is not None and not mod_pred(c.module.name):
            continue
        m = c.methods.get("render")
        if m is None:
            continue
        bad = []
        for ev in eff.events_in(m):
            t = ev.token
            if root(t) != ("p", "self") or is_fresh(t):
                continue
            flds = path_fields(t)
            top = flds[-1] if flds else (ev.kind.split(":", 1)[1] if ev.kind.startswith(("attr-store", "call:attr-store")) and ":" in ev.kind else None)
            if not flds and ev.kind.endswith(tuple(["attr-store:" + x for x in ()])):
                pass
            if not flds:
                # direct store self.<attr> = ...  : attr name is in the event kind
                top = ev.kind.rsplit(":", 1)[-1]
            bad.append((top, ev))
        if not bad:
            r.ok("%s.render: no write to the component" % c.name)
            continue
        for top, ev in bad:
            if _reset_before_use(ctx, m, top):
                r.ok("%s.render: self.%s recomputed from scratch before use" % (c.name, top))
            else:
                o = ev.origin_event()
                r.fail(m, ev.node, "self.%s via %s" % (top, norm(o.node)),
                       "%s.render changes the component's own state (%s): a second render differs from the first"
                       % (c.name, show(ev.token)), chain=ev.chain())


def global_containers_rule(ctx, r, mod_pred=None):
    """OWNER rule (shared with C15 for the section registry): process-wide containers are never mutated."""
    p, cg, eff = ctx.p, ctx.cg, ctx.effects
    slots_seen = 0
    containers = {}
    for ci in p.classes.values():
        for name, val in ci.attrs.items():
            if _is_container(val) and (mod_pred is None or mod_pred(ci.module.name)):
                containers[ci.qualname + "." + name] = (ci.module, val)
    for mod in p.modules.values():
        for name, val in mod.assigns.items():
            if _is_container(val) and (mod_pred is None or mod_pred(mod.name)):
                containers[mod.name + "." + name] = (mod, val)
    muts = {}
    seen_origin = {}
    for fi in p.all_functions():
        for ev in eff.events_in(fi):
            rt = root(ev.token)
            if rt[0] == "g" and rt[1] in containers and not is_fresh(ev.token):
                # reported once per mutating construct, at the function in which the object is known to be the shared one
                # with the shortest call chain (the container may be handed to a callee that mutates its parameter)
                ok_ = id(ev.origin_event().node)
                cur = seen_origin.get((rt[1], ok_))
                if cur is None or len(ev.via) < len(cur[1].via):
                    seen_origin[(rt[1], ok_)] = (fi, ev)
    for (slot_, _), (fi, ev) in seen_origin.items():
        muts.setdefault(slot_, []).append((fi, ev))
    for slot in sorted(containers):
        if slot not in muts:
            r.ok("%s: never mutated" % slot.split("clikit.", 1)[-1])
            continue
        for fi, ev in muts[slot]:
            node = ev.node
            if ev.origin_event().fi is not fi:
                r.fail(fi, node, "%s handed to a mutator: %s" % (slot.split("clikit.", 1)[-1], norm(ev.origin_event().node)), "%s passes the process-wide container %s to code that mutates it (%s): "
                       "what one object registers there is seen by every other object" % (fi.short, slot.split("clikit.", 1)[-1], ev.chain()), chain=ev.chain())
                continue
            # memo pattern: store under a dominating 'key not in slot' test
            if isinstance(node, ast.Assign) and isinstance(node.targets[0], ast.Subscript):
                key_txt = norm(node.targets[0].slice)
                cfg = ctx.cfg(fi)
                from ..cfg import guarded_by

                g = None
                for cn in cfg.nodes_of(node):
                    g = guarded_by(cfg, cn, lambda e: isinstance(e, ast.Compare) and isinstance(e.ops[0], ast.NotIn) and norm(e.left) == key_txt, polarity=True)
                if g is not None:
                    r.ok("%s: memo store in %s" % (slot.split("clikit.", 1)[-1], fi.short))
                    continue
            r.fail(fi, node, norm(node), "%s mutates the process-wide container %s: state survives from one run / render to the next"
                   % (fi.short, slot.split("clikit.", 1)[-1]))


def class_level_through_self(ctx, r, mod_pred=None):
    """A class-level container that no constructor rebinds per instance is one object for all instances: mutating it
    through ``self.<name>`` (any alias depth, also by handing it to a callee that mutates it) is mutating shared state."""
    p, eff = ctx.p, ctx.effects
    for ci in sorted(p.classes.values(), key=lambda c: c.qualname):
        if mod_pred is not None and not mod_pred(ci.module.name):
            continue
        for name, val in sorted(ci.attrs.items()):
            if not _is_container(val):
                continue
            family = [ci] + [k for k in p.subclasses(ci, strict=True)]
            rebinds = any(isinstance(n, ast.Assign) and any(is_self_attr(t, name) for t in n.targets)
                          for k in family for m in k.methods.values() if m.name == "__init__" for n in walk_no_nested(m.node))
            if rebinds:
                continue
            hit = None
            for k in family:
                for m in k.methods.values():
                    for ev in eff.events_in(m):
                        t = ev.token
                        if root(t) != ("p", "self") or is_fresh(t):
                            continue
                        flds = path_fields(t)
                        if flds and flds[-1] == name:
                            hit = (m, ev)
                            break
                    if hit:
                        break
                if hit:
                    break
            if hit:
                m, ev = hit
                o = ev.origin_event()
                r.fail(m, ev.node, "%s.%s (class level) mutated through self: %s" % (ci.name, name, norm(o.node)), "%s.%s is created once, at class level, and no constructor gives each instance its own: "
                       "%s mutates it through self (%s), so all %s objects share what one of them registered" % (ci.name, name, m.short, ev.chain(), ci.name), chain=ev.chain())
            else:
                r.ok("%s.%s: class-level container, not mutated through self" % (ci.name, name))


def shared_objects_rule(ctx, rule_id, mod_pred, reference=None):
    p = ctx.p
    # ---------------------------------------------------------------- R7
    r = ctx.rule(rule_id, "OWNER", "no object with state is created once and shared by all instances / calls: "
                 "class-level attributes and parameter defaults are constants, not constructed objects", reference=reference)
    for ci in sorted([c for c in p.classes.values() if mod_pred(c.module.name)], key=lambda c: c.qualname):
        for name, val in sorted(ci.attrs.items()):
            if isinstance(val, ast.Call) and isinstance(val.func, (ast.Name, ast.Attribute)):
                tgt = p.resolve_class_expr(ci.module, val.func)
                if isinstance(tgt, type(ci)):
                    # an instance of a package class shared by every instance of ci
                    stateful = any(not m.is_property for m in tgt.methods.values())
                    init = ci.methods.get("__init__") or next(iter(ci.methods.values()), None)
                    if stateful and init is not None:
                        r.fail(init, val, "%s.%s = %s" % (ci.name, name, norm(val)), "%s.%s is one %s object shared by all instances for the life of the process: whatever it "
                               "accumulates (e.g. a formatter's open style tags) carries over from one render to the next" % (ci.name, name, tgt.name))
                        continue
            r.ok("%s.%s is a constant / constant container" % (ci.name, name)) if not isinstance(val, ast.Call) else r.ok("%s.%s built from builtins" % (ci.name, name))
    for fi in [f for f in p.all_functions() if mod_pred(f.module.name)]:
        for prm, d in sorted(fi.defaults.items()):
            if isinstance(d, (ast.List, ast.Dict, ast.Set)) or (isinstance(d, ast.Call)):
                r.fail(fi, d, "%s(%s=%s)" % (fi.name, prm, norm(d)), "the default of %s.%s is evaluated once and shared by all calls" % (fi.short, prm))
    return r


IMMUTABLE_FACTORIES = ("compile", "namedtuple", "frozenset", "tuple", "object", "Lock", "RLock", "getLogger", "TypeVar", "local", "str", "int", "float", "bytes")


def module_objects_rule(ctx, r, mod_pred=None):
    """OWNER rule (shared with C14): module-level instances are not configured per call."""
    p = ctx.p
    n = 0
    for mod in sorted(p.modules.values(), key=lambda m: m.name):
        if mod_pred is not None and not mod_pred(mod.name):
            continue
        objs = {}
        for name, val in mod.assigns.items():
            if isinstance(val, ast.Call):
                fn_ = val.func.attr if isinstance(val.func, ast.Attribute) else (val.func.id if isinstance(val.func, ast.Name) else None)
                if fn_ is None or fn_ in IMMUTABLE_FACTORIES or _is_container(val):
                    continue
                # a class of the package / the standard library called at import time: one instance for the whole process
                objs[name] = val
        if not objs:
            continue
        failed = set()
        for fi in [f for f in p.all_functions() if f.module is mod]:
            local = set(fi.params) | {t.id for x in walk_no_nested(fi.node) if isinstance(x, ast.Assign) for t in x.targets if isinstance(t, ast.Name)}
            declared_global = {g for x in walk_no_nested(fi.node) if isinstance(x, ast.Global) for g in x.names}
            for x in walk_no_nested(fi.node):
                hit = None
                if isinstance(x, (ast.Attribute, ast.Subscript)) and isinstance(x.ctx, (ast.Store, ast.Del)):
                    b = x.value
                    while isinstance(b, (ast.Attribute, ast.Subscript)):
                        b = b.value
                    if isinstance(b, ast.Name) and b.id in objs and (b.id not in local or b.id in declared_global):
                        hit = (b.id, x)
                elif isinstance(x, ast.Call) and isinstance(x.func, ast.Attribute) and x.func.attr in q.MUTATORS:
                    b = x.func.value
                    while isinstance(b, (ast.Attribute, ast.Subscript)):
                        b = b.value
                    if isinstance(b, ast.Name) and b.id in objs and (b.id not in local or b.id in declared_global):
                        hit = (b.id, x)
                if hit:
                    n += 1
                    failed.add(hit[0])
                    par = getattr(hit[1], "_parent", None)
                    r.fail(fi, par if isinstance(par, (ast.Assign, ast.AugAssign, ast.Delete)) else hit[1], "%s.%s configured per call" % (mod.name.split("clikit.", 1)[-1], hit[0]),
                           "%s sets up the module-level object %s (created once, `%s`) for its own call: two renders that overlap (threads), or a render interrupted half-way, work with "
                           "each other's setting - e.g. one table is wrapped to the other table's width" % (fi.short, hit[0], norm(objs[hit[0]])[:50]))
        for name in sorted(objs):
            n += 1
            if name not in failed:
                r.ok("%s.%s: module-level instance, never configured by a function" % (mod.name.split("clikit.", 1)[-1], name))
    if n == 0:
        r.vacuous_ok = True
        r.note("no module-level instances in the modules looked at")


def _is_container(val):
    if isinstance(val, (ast.Dict, ast.List, ast.Set, ast.ListComp, ast.DictComp, ast.SetComp)):
        return True
    if isinstance(val, ast.Call) and isinstance(val.func, ast.Name) and val.func.id in ("dict", "list", "set", "OrderedDict", "defaultdict"):
        return True
    return False


def _reset_before_use(ctx, render, attr):
    """In the closure of ``render`` every read of self.<attr> is dominated by a fresh rebind (per method)."""
    p, cg = ctx.p, ctx.cg
    # methods (any object) reachable from render that touch <attr> on their own self
    hit = False
    # only calls that stay on the same object count (self.m(), super().m()): another object's field of the same name,
    # or this class's constructor reached through some unrelated factory call, says nothing about this component
    same = {}
    work = [render]
    while work:
        f_ = work.pop()
        if f_.qualname in same:
            continue
        same[f_.qualname] = f_
        for cs in cg.sites_in(f_):
            fn_ = cs.node.func
            on_self = isinstance(fn_, ast.Attribute) and isinstance(fn_.value, ast.Name) and fn_.value.id == "self"
            if on_self or cs.kind == "super":
                for t in cs.targets:
                    if t.cls is not None and render.cls is not None and (t.cls in render.cls.mro or render.cls in t.cls.mro) and t.name != "__init__":
                        work.append(t)
    for f in same.values():
        if f.cls is None:
            continue
        acc = [n for n in walk_no_nested(f.node) if is_self_attr(n, attr)]
        if not acc:
            continue
        writes = q.writes_to_self_attr(f, attr)
        if not writes:
            continue
        hit = True
        cfg = ctx.cfg(f)
        from .c05 import reset_nodes

        resets = set(n.id for n in reset_nodes(cfg, f, attr))
        if not resets:
            return False
        for a in acc:
            if isinstance(getattr(a, "ctx", None), ast.Store):
                # the reset store itself or a recompute after the reset
                pass
            for n in cfg.nodes_of(a):
                if n.id in resets:
                    continue
                if not cfg.all_paths_hit(cfg.entry.id, resets, [n.id]):
                    return False
    return hit


def memo_key_rule(ctx, r, only_module=None, instance_level=False):
    """CACHEKEY rule (shared with C04 / C20 for the trace's snippet memo)."""
    p = ctx.p
    n_memo = 0
    for ci in p.classes.values():
        if only_module is not None and ci.module.name != only_module:
            continue
        for slot, val in ci.attrs.items():
            if not isinstance(val, (ast.Dict,)) or val.keys:
                continue
            for m in ci.methods.values():
                for n in walk_no_nested(m.node):
                    if isinstance(n, ast.Assign) and len(n.targets) == 1 and isinstance(n.targets[0], ast.Subscript):
                        tg = n.targets[0]
                        if isinstance(tg.value, ast.Attribute) and tg.value.attr == slot and isinstance(tg.value.value, ast.Name) \
                                and tg.value.value.id in ("self", "cls", ci.name):
                            n_memo += 1
                            _cachekey(ctx, r, m, n, tg)
    if instance_level:
        # memo idiom on an instance attribute: `if key not in self.X: self.X[key] = <value>`
        from ..cfg import guarded_by
        for ci in p.classes.values():
            if only_module is not None and ci.module.name != only_module:
                continue
            for m in ci.methods.values():
                mcfg = None
                for n in walk_no_nested(m.node):
                    if isinstance(n, ast.Assign) and len(n.targets) == 1 and isinstance(n.targets[0], ast.Subscript) and is_self_attr(n.targets[0].value) and n.targets[0].value.attr not in ci.attrs:
                        tg = n.targets[0]
                        mcfg = mcfg or ctx.cfg(m)
                        key_txt = norm(tg.slice)
                        g = None
                        for cn in mcfg.nodes_of(n):
                            g = g or guarded_by(mcfg, cn, lambda e: isinstance(e, ast.Compare) and len(e.ops) == 1 and isinstance(e.ops[0], ast.NotIn) and norm(e.left) == key_txt
                                                and is_self_attr(e.comparators[0], tg.value.attr), polarity=True)
                        if g is None:
                            continue
                        n_memo += 1
                        _cachekey(ctx, r, m, n, tg)
    if n_memo == 0:
        r.vacuous_ok = True
        r.note("no class-level memo dictionaries are filled any more")



def _cachekey(ctx, r, m, store, tg):
    """Inputs of the memoised value must appear in the key."""
    key = tg.slice
    key_names = set()
    todo = [key]
    seen_defs = set()
    while todo:
        k = todo.pop()
        for n in walk_no_nested(k):
            if isinstance(n, ast.Name):
                key_names.add(n.id)
                # a local holding the key tuple: its definition names the components
                defs = [s_ for s_ in walk_no_nested(m.node) if isinstance(s_, ast.Assign)
                        and any(isinstance(t, ast.Name) and t.id == n.id for t in s_.targets)]
                if len(defs) == 1 and id(defs[0]) not in seen_defs and n.id not in m.params:
                    seen_defs.add(id(defs[0]))
                    todo.append(defs[0].value)
    key_txt = norm(key)
    # attribute-level cover: a name that occurs in the key only as <name>.<attr> covers just those attributes
    key_attrs = {}
    todo2 = [key] + [d.value for d in walk_no_nested(m.node) if isinstance(d, ast.Assign) and id(d) in seen_defs]
    for k in todo2:
        for n in walk_no_nested(k):
            if isinstance(n, ast.Name):
                par = getattr(n, "_parent", None)
                if isinstance(par, ast.Attribute) and par.value is n and not (isinstance(getattr(par, "_parent", None), ast.Call) and getattr(par, "_parent").func is par):
                    key_attrs.setdefault(n.id, set())
                    if key_attrs[n.id] is not None:
                        key_attrs[n.id].add(par.attr)
                else:
                    key_attrs[n.id] = None
    # value expression, resolving one level of local definitions
    val = store.value
    inputs = {}

    def collect(e, depth=0):
        for n in walk_no_nested(e):
            if isinstance(n, ast.Name) and isinstance(n.ctx, ast.Load):
                if n.id in ("self", "cls", "True", "False", "None"):
                    continue
                is_local = n.id in m.params or n.id in m.kwonly or _is_loop_var(m, n.id) or any(
                    isinstance(s, ast.Assign) and any(isinstance(t, ast.Name) and t.id == n.id for t in s.targets)
                    for s in walk_no_nested(m.node))
                r_ = None if is_local else ctx.p.resolve_in_func(m, n.id)
                if r_ is not None and not (isinstance(r_, tuple) and r_[0] == "const"):
                    continue  # class / function / module
                # a local defined from other names?
                defs = [s for s in walk_no_nested(m.node) if isinstance(s, ast.Assign) and any(isinstance(t, ast.Name) and t.id == n.id for t in s.targets)]
                if defs and depth < 2 and n.id not in q.param_names(m) and not _is_loop_var(m, n.id):
                    for d in defs:
                        if d is not store:
                            collect(d.value, depth + 1)
                else:
                    inputs.setdefault(n.id, n)
                    par = getattr(n, "_parent", None)
                    if isinstance(par, ast.Attribute) and par.value is n and not (isinstance(getattr(par, "_parent", None), ast.Call) and getattr(par, "_parent").func is par):
                        if input_attrs.get(n.id, set()) is not None:
                            input_attrs.setdefault(n.id, set()).add(par.attr)
                    else:
                        input_attrs[n.id] = None

    input_attrs = {}
    collect(val)
    missing = sorted(nm for nm in inputs if nm not in key_names)
    for nm in sorted(inputs):
        if nm in key_names and key_attrs.get(nm) is not None:
            used = input_attrs.get(nm)
            if used is None:
                missing.append(nm + " (whole object; the key holds only ." + ", .".join(sorted(key_attrs[nm])) + ")")
            elif used - key_attrs[nm]:
                missing.extend(nm + "." + a for a in sorted(used - key_attrs[nm]))
    desc = "%s: %s" % (m.short, norm(store.targets[0]))
    if not missing:
        r.ok(desc + " key covers " + ", ".join(sorted(inputs)))
    else:
        uses = []
        for nm in missing:
            for n in walk_no_nested(m.node):
                if isinstance(n, ast.Attribute) and isinstance(n.value, ast.Name) and n.value.id == nm:
                    par = getattr(n, "_parent", None)
                    if isinstance(par, ast.Call) and par.func is n:
                        uses.append(norm(par))
        r.fail(m, store, "memo %s key %s" % (norm(tg.value), key_txt),
               "the memoised value depends on %s, which the key %s does not cover: a later lookup with a different %s "
               "gets the value computed for the first one" % (", ".join(missing), key_txt, "/".join(missing)),
               inputs=", ".join(sorted(inputs)), value=norm(val))


def _is_loop_var(m, name):
    for n in walk_no_nested(m.node):
        if isinstance(n, (ast.For, ast.comprehension)):
            for t in walk_no_nested(n.target):
                if isinstance(t, ast.Name) and t.id == name:
                    return True
    return False
