"""C08 - splitting a command string never fails; option tokens end at '--'."""
import ast

from ..loader import walk_no_nested, norm, is_self_attr
from .. import q


def _writes_attr(fi, attr):
    return any(k == "rebind" for _, k, _ in q.writes_to_self_attr(fi, attr))


def _anc8(n):
    p_ = getattr(n, "_parent", None)
    while p_ is not None:
        yield p_
        p_ = getattr(p_, "_parent", None)


def _advance_stmts(m):
    """statements of method ``m`` that step an attribute of self by one: ``self.a += 1``, or the same written out
    (``self.a = self.a + 1``, possibly through a local)"""
    def plus_one_of(e):
        return e.left.attr if isinstance(e, ast.BinOp) and isinstance(e.op, ast.Add) and is_self_attr(e.left) and isinstance(e.right, ast.Constant) and e.right.value == 1 else None
    out = []
    loc = {n.targets[0].id: plus_one_of(n.value) for n in walk_no_nested(m.node) if isinstance(n, ast.Assign) and len(n.targets) == 1 and isinstance(n.targets[0], ast.Name) and plus_one_of(n.value)}
    # a local counts only when it is bound once (else it may hold something else by the time it is stored)
    bound = [t.id for n in walk_no_nested(m.node) if isinstance(n, (ast.Assign, ast.AugAssign)) for t in (n.targets if isinstance(n, ast.Assign) else [n.target]) if isinstance(t, ast.Name)]
    for n in walk_no_nested(m.node):
        if isinstance(n, ast.AugAssign) and isinstance(n.op, ast.Add) and is_self_attr(n.target) and isinstance(n.value, ast.Constant) and n.value.value == 1:
            out.append(n)
        elif isinstance(n, ast.Assign) and len(n.targets) == 1 and is_self_attr(n.targets[0]):
            src = plus_one_of(n.value)
            if src is None and isinstance(n.value, ast.Name) and bound.count(n.value.id) == 1:
                src = loc.get(n.value.id)
            if src == n.targets[0].attr:
                out.append(n)
    return out


def run(ctx):
    p, cg = ctx.p, ctx.cg
    tp = ctx.cls("clikit.args.token_parser.TokenParser")
    methods = dict(tp.methods)
    # the validity predicate and the cursor advance are found by what they do, not by name:
    # validity = a method whose only statement returns `self.<attr> is not None`;
    # advance  = the method that increments an int attribute by one and re-loads that <attr>
    valid_m = None
    for name, m in tp.methods.items():
        rets = q.returns(m)
        if len(rets) == 1 and isinstance(rets[0].value, ast.Compare) and is_self_attr(rets[0].value.left) and isinstance(rets[0].value.ops[0], ast.IsNot) and len(m.node.body) <= 2:
            valid_m = m
    ctx.require(valid_m is not None, "TokenParser has no validity predicate (return self.<attr> is not None)")
    adv_m = None
    for name, m in tp.methods.items():
        if _advance_stmts(m):
            adv_m = m
    ctx.require(adv_m is not None, "TokenParser has no cursor advance (self.<cursor> += 1)")
    methods = {k: v for k, v in methods.items()}
    methods.setdefault("_is_valid", valid_m)
    methods.setdefault("_next", adv_m)
    VALID_NAME = valid_m.name
    # Optional attributes: initialised to None or declared Optional
    init = methods.get("__init__")
    optional = set()
    for m in methods.values():
        for n in walk_no_nested(m.node):
            if isinstance(n, ast.Assign) and isinstance(n.value, ast.Constant) and n.value.value is None:
                for t in n.targets:
                    if is_self_attr(t):
                        optional.add(t.attr)
    ctx.require(optional, "TokenParser has no Optional scanner attributes any more")
    # which attribute does _is_valid establish?
    valid_attr = None
    for n in walk_no_nested(methods["_is_valid"].node):
        if isinstance(n, ast.Compare) and is_self_attr(n.left) and isinstance(n.ops[0], ast.IsNot):
            valid_attr = n.left.attr
    ctx.require(valid_attr is not None, "_is_valid is not of the form 'self.<attr> is not None'")

    def killers(fi, attr):
        """CFG nodes of fi that may change self.<attr>: direct writes or calls reaching a writer."""
        cfg = ctx.cfg(fi)
        out = set()
        writers = set(f.qualname for f in methods.values() if _writes_attr(f, attr))
        for n in cfg.nodes:
            if n.ast is None or n.kind in ("T", "F", "loop", "loop_body", "loop_exit"):
                continue
            for s in walk_no_nested(n.ast if n.kind != "for" else n.ast.iter):
                if isinstance(s, ast.Call):
                    cs = cg.site_for(fi, s)
                    for t in cs.targets:
                        if any(f.qualname in writers for f in cg.reachable([t]).values()):
                            out.add(n.id)
                if isinstance(s, ast.Assign) and any(is_self_attr(t, attr) for t in s.targets):
                    out.add(n.id)
        return out

    def establishes(node, attr):
        """T/F pseudo node proving self.<attr> is not None"""
        e = node.ast
        if node.kind == "T":
            if isinstance(e, ast.Call) and isinstance(e.func, ast.Attribute) and e.func.attr == VALID_NAME and attr == valid_attr:
                return True
            if isinstance(e, ast.Compare) and is_self_attr(e.left, attr) and isinstance(e.ops[0], ast.IsNot) and isinstance(e.comparators[0], ast.Constant) and e.comparators[0].value is None:
                return True
            if is_self_attr(e, attr):
                return False  # truthiness of a str is not a None test ('' is falsy) but does exclude None:
        if node.kind == "F":
            if isinstance(e, ast.Compare) and is_self_attr(e.left, attr) and isinstance(e.ops[0], ast.Is) and isinstance(e.comparators[0], ast.Constant) and e.comparators[0].value is None:
                return True
        if node.kind == "T" and is_self_attr(e, attr):
            return True
        return False

    def in_state(fi, use_node_ids, attr):
        cfg = ctx.cfg(fi)
        ks = killers(fi, attr)
        edges = [n for n in cfg.nodes if n.kind in ("T", "F") and establishes(n, attr)]
        for u in use_node_ids:
            ok = False
            for e in edges:
                if not cfg.dominates(e.id, u):
                    continue
                after = cfg.reach_strict(e.id, blocked=[e.id])
                killed = any(k in after and k != u and u in cfg.reach([k], blocked=[e.id]) for k in ks)
                if not killed:
                    ok = True
                    break
            if not ok:
                return False
        return True

    # ---------------------------------------------------------------- R1
    r = ctx.rule("C08-R1", "NULL", "the current / lookahead character is used as a string only where it is known not "
                 "to be None (after the validity test, with no cursor advance in between)", reference=5)
    for name, m in sorted(methods.items()):
        cfg = ctx.cfg(m)
        for n in walk_no_nested(m.node):
            uses = []
            if isinstance(n, ast.BinOp) and isinstance(n.op, ast.Add):
                for side in (n.left, n.right):
                    if is_self_attr(side) and side.attr in optional:
                        uses.append((side, "operand of +"))
            elif isinstance(n, ast.AugAssign) and isinstance(n.op, ast.Add) and is_self_attr(n.value) and n.value.attr in optional:
                uses.append((n.value, "operand of +="))
            elif isinstance(n, ast.Call) and isinstance(n.func, ast.Attribute) and is_self_attr(n.func.value) and n.func.value.attr in optional:
                uses.append((n.func.value, "receiver of .%s()" % n.func.attr))
            for expr, how in uses:
                ids = [x.id for x in cfg.nodes_of(expr)]
                desc = "%s: %s as %s" % (m.short, norm(expr), how)
                # the method itself may rely on "valid at entry": then every call site must be in the state
                if in_state(m, ids, expr.attr):
                    r.ok(desc)
                    continue
                # precondition form: no establishing edge needed if no killer precedes the use in this
                # method and every caller calls it in the valid state
                ks = killers(m, expr.attr)
                pre_ok = expr.attr == valid_attr and all(not (set(cfg.reach([cfg.entry.id])) & ks and any(u in cfg.reach([k]) for k in ks)) for u in ids)
                callers = cg.callers.get(m.qualname, [])
                if pre_ok and callers and all(in_state(cs.caller, [x.id for x in ctx.cfg(cs.caller).nodes_of(cs.node)], expr.attr) for cs in callers):
                    r.ok(desc + " [valid at every call site]")
                    continue
                r.fail(m, n, "%s as %s" % (norm(expr), how),
                       "%s may be None here (end of the string reached): using it as %s raises TypeError/AttributeError, "
                       "e.g. for a string ending in a backslash" % (norm(expr), how))

    # ---------------------------------------------------------------- R2
    r = ctx.rule("C08-R2", "ORDER", "every iteration of every scanner loop advances the cursor or leaves the loop "
                 "(termination)", reference=10)
    adv = {methods["_next"].qualname}
    # _next itself must advance when valid: cursor += 1 on the path after the validity test
    nx = methods["_next"]
    cfgn = ctx.cfg(nx)
    adv_stmts = _advance_stmts(nx)
    incs = [n for n in cfgn.nodes if n.kind == "stmt" and n.ast in adv_stmts]
    curw = [n for n in cfgn.nodes if n.kind == "stmt" and isinstance(n.ast, ast.Assign) and any(is_self_attr(t, valid_attr) for t in n.ast.targets)]
    if incs and curw:
        r.ok("_next: increments the cursor and reloads the current character")
    else:
        r.fail(nx, nx.node, "_next does not advance", "_next no longer increments the cursor / reloads the current character")

    def adv_calls(fi):
        cfg = ctx.cfg(fi)
        out = set()
        for n in cfg.nodes:
            if n.ast is None or n.kind in ("T", "F", "loop", "loop_body", "loop_exit", "cond"):
                continue
            for s in walk_no_nested(n.ast):
                if isinstance(s, ast.Call):
                    cs = cg.site_for(fi, s)
                    if cs.targets and all(t.qualname in adv for t in cs.targets):
                        out.add(n.id)
        return out

    changed = True
    while changed:
        changed = False
        for name, m in methods.items():
            if m.qualname in adv or name in ("__init__", "parse", "_is_valid", VALID_NAME):
                continue
            cfg = ctx.cfg(m)
            calls = adv_calls(m)
            # infeasible under "valid at entry": the false edge of a validity test reached before any call
            nocall = cfg.reach([cfg.entry.id], blocked=[n.id for n in cfg.nodes if n.kind in ("stmt", "return") and any(isinstance(s, ast.Call) for s in walk_no_nested(n.ast))])
            infeasible = [n.id for n in cfg.nodes if n.kind == "F" and n.id in nocall and isinstance(n.ast, ast.Call) and isinstance(n.ast.func, ast.Attribute) and n.ast.func.attr == VALID_NAME]
            if calls and cfg.exit.id not in cfg.reach([cfg.entry.id], blocked=list(calls) + infeasible):
                adv.add(m.qualname)
                changed = True
    for name, m in sorted(methods.items()):
        cfg = ctx.cfg(m)
        calls = adv_calls(m)
        for loop in [n for n in cfg.nodes if n.kind == "loop"]:
            tedges = [n for n in cfg.nodes if n.kind == "T" and n.ast is loop.ast.test or (n.kind == "T" and any(n.ast is x for x in walk_no_nested(loop.ast.test)))]
            body_starts = [n for n in cfg.nodes if n.kind in ("T",) and cfg.dominates(loop.id, n.id) and any(n.ast is x for x in walk_no_nested(loop.ast.test))]
            ok = True
            # infeasible-edge pruning by the rule's own facts: a validity test that is re-evaluated
            # while the scanner is provably still valid cannot take its false edge
            redundant_f = set()
            for cn in cfg.conds():
                if isinstance(cn.ast, ast.Call) and isinstance(cn.ast.func, ast.Attribute) and cn.ast.func.attr == VALID_NAME and in_state(m, [cn.id], valid_attr):
                    f = cfg.false_of(cn)
                    if f is not None:
                        redundant_f.add(f.id)
            for t in body_starts:
                # only the edge that enters the body (leads back to the head at all)
                if loop.id not in cfg.reach_strict(t.id):
                    continue
                if not cfg.all_paths_hit(t.id, set(calls) | redundant_f, [loop.id]):
                    ok = False
            desc = "%s: while %s" % (m.short, norm(loop.ast.test))
            if ok:
                r.ok(desc + " - every iteration advances")
            else:
                r.fail(m, loop.ast, "while " + norm(loop.ast.test), "an iteration of this scanner loop can come back to the loop test without having "
                       "advanced the cursor: tokenising does not terminate")
    # callees relied on as 'advancing' need their precondition (valid at entry)
    for name, m in sorted(methods.items()):
        if m.qualname in adv and m is not adv_m and name not in ("_next", "_is_valid"):
            for cs in cg.callers.get(m.qualname, []):
                cal = cs.caller
                if cal.cls is not tp:
                    continue
                ids = [x.id for x in ctx.cfg(cal).nodes_of(cs.node)]
                if not any(ctx.cfg(cal).in_loop(i) for i in ids):
                    continue  # only calls used as the progress step of a loop rely on the precondition
                if in_state(cal, ids, valid_attr):
                    r.ok("%s called in the valid state from %s" % (m.short, cal.short))
                else:
                    r.fail(cal, cs.node, norm(cs.node), "%s is relied upon to advance but is called where the scanner may already be at the end" % m.short)

    # ---------------------------------------------------------------- R4
    r = ctx.rule("C08-R4", "SIBLING", "the scanner's literal tables agree: the characters an escape removes the "
                 "backslash from are the quote delimiters; every whitespace test is the same predicate", reference=2)
    def char_sets(m):
        out = []
        for n in walk_no_nested(m.node):
            if isinstance(n, ast.Compare) and len(n.ops) == 1 and isinstance(n.ops[0], ast.In) and isinstance(n.comparators[0], (ast.List, ast.Tuple, ast.Set)):
                if is_self_attr(n.left) and n.left.attr in optional:
                    out.append((n, frozenset(x.value for x in n.comparators[0].elts if isinstance(x, ast.Constant))))
        return out
    delim = set()
    for name in ("_parse_token", "_parse_quoted_string"):
        m = methods.get(name)
        if m is None:
            continue
        for n, cs_ in char_sets(m):
            delim |= cs_
        for n in walk_no_nested(m.node):
            if isinstance(n, ast.Compare) and len(n.ops) == 1 and isinstance(n.ops[0], ast.Eq) and is_self_attr(n.left) and isinstance(n.comparators[0], ast.Constant):
                v = n.comparators[0].value
                # a quote compared for recursion into a nested quoted string
                par_if = getattr(n, "_parent", None)
                if isinstance(v, str) and v in ("'", '"'):
                    delim.add(v)
    esc = methods.get("_parse_escape_sequence")
    if esc is not None and delim:
        # the set may come in as a parameter: then its default and every argument passed must be that constant set
        for n in walk_no_nested(esc.node):
            if isinstance(n, ast.Compare) and len(n.ops) == 1 and isinstance(n.ops[0], ast.In) and is_self_attr(n.left) and n.left.attr in optional \
                    and isinstance(n.comparators[0], ast.Name) and n.comparators[0].id in esc.params:
                prm = n.comparators[0].id
                vals = []
                a = esc.node.args
                pos = [x.arg for x in a.args]
                if prm in pos:
                    k = pos.index(prm) - (len(pos) - len(a.defaults))
                    if k >= 0:
                        vals.append((esc, a.defaults[k]))
                for caller in methods.values():
                    for c in q.calls(caller):
                        if isinstance(c.func, ast.Attribute) and c.func.attr == esc.name and isinstance(c.func.value, ast.Name) and c.func.value.id == "self":
                            av = q.arg_for_param(c, esc, prm) if hasattr(q, "arg_for_param") else (c.args[0] if c.args else None)
                            if av is not None:
                                vals.append((caller, av))
                for fn_, v in vals:
                    cs_ = None
                    if isinstance(v, ast.Constant) and isinstance(v.value, str):
                        cs_ = frozenset(v.value)
                    elif isinstance(v, (ast.List, ast.Tuple, ast.Set)) and all(isinstance(x, ast.Constant) for x in v.elts):
                        cs_ = frozenset(x.value for x in v.elts)
                    if cs_ == frozenset(delim):
                        r.ok("%s: escape set %s = the delimiters" % (fn_.short, norm(v)))
                    else:
                        r.fail(fn_, v, "escape set " + norm(v), "the characters an escape drops the backslash from are given as `%s` here, which is not the constant set of quote "
                               "delimiters %s: inside one kind of quotes the other quote character keeps its backslash, so a quoted token does not tokenise back to itself"
                               % (norm(v), sorted(delim)))
        for n, cs_ in char_sets(esc):
            if cs_ == frozenset(delim):
                r.ok("%s unescapes exactly the delimiters %s" % (esc.short, sorted(delim)))
            else:
                r.fail(esc, n, norm(n), "an escape sequence drops the backslash before %s but the quote delimiters are %s: text such as a doubled backslash "
                       "does not survive quoting and tokenising" % (sorted(cs_), sorted(delim)))
    ws = []
    for m in methods.values():
        for n in walk_no_nested(m.node):
            if isinstance(n, ast.Call) and isinstance(n.func, ast.Attribute) and n.func.attr == "isspace" and is_self_attr(n.func.value):
                ws.append((m, n, "isspace()"))
            if isinstance(n, ast.Compare) and len(n.ops) == 1 and isinstance(n.ops[0], (ast.Eq, ast.In)) and is_self_attr(n.left) and n.left.attr == valid_attr:
                lits = [x.value for x in walk_no_nested(n.comparators[0]) if isinstance(x, ast.Constant) and isinstance(x.value, str)]
                if lits and all(x.isspace() for x in lits):
                    ws.append((m, n, "== %r" % lits))
    # a membership test of the current character in a constant that holds only whitespace (a class attribute, a module constant)
    for m in methods.values():
        for n in walk_no_nested(m.node):
            if isinstance(n, ast.Compare) and len(n.ops) == 1 and isinstance(n.ops[0], ast.In) and is_self_attr(n.left) and n.left.attr == valid_attr and not isinstance(n.comparators[0], (ast.List, ast.Tuple, ast.Set, ast.Constant)):
                cst = None
                cmp_ = n.comparators[0]
                if isinstance(cmp_, ast.Attribute) and isinstance(cmp_.value, ast.Name) and cmp_.value.id in ("self", "cls", m.cls.name if m.cls else ""):
                    cst = m.cls.attrs.get(cmp_.attr) if m.cls else None
                elif isinstance(cmp_, ast.Name):
                    rr_ = ctx.p.resolve_in_func(m, cmp_.id)
                    cst = rr_[1] if isinstance(rr_, tuple) and rr_[0] == "const" else None
                if isinstance(cst, ast.Constant) and isinstance(cst.value, str) and cst.value and cst.value.isspace():
                    ws.append((m, n, "in %r" % cst.value))
    kinds = {k for _, _, k in ws}
    literal = [x for x in ws if x[2] != "isspace()"]
    if literal and len(kinds) <= 1:
        m, n, k = literal[0]
        r.fail(m, n, norm(n), "%s tests whitespace with %s: 'any whitespace' separates tokens (form feed, vertical tab, \\x1c-\\x1f, no-break and ideographic space ...), "
               "a literal list covers only part of what str.isspace() accepts - such separators end up inside tokens" % (m.short, k))
    elif len(kinds) <= 1:
        if ws:
            r.ok("all %d whitespace tests use %s" % (len(ws), next(iter(kinds))))
    else:
        odd = [x for x in ws if x[2] != "isspace()"] or ws
        m, n, k = odd[0]
        r.fail(m, n, norm(n), "%s tests whitespace with %s while other scanner loops use %s: a tab or newline separates tokens in one place and not in the other "
               "(empty or merged tokens)" % (m.short, k, sorted(kinds - {k})))

    # ---------------------------------------------------------------- R3
    r = ctx.rule("C08-R3", "SIBLING", "every RawArgs implementation derives its option tokens as the prefix of its "
                 "tokens before the first '--' and answers has_option_token / has_token from those lists", reference=6)
    raw = ctx.cls("clikit.api.args.raw_args.RawArgs")
    subs = p.subclasses(raw, strict=True)
    ctx.require(subs, "no RawArgs implementations")
    summaries = {}
    for c in subs:
        def ret_field(name):
            m = c.methods.get(name)
            if m is None:
                return None
            for ret in q.returns(m):
                if ret.value is not None and is_self_attr(ret.value):
                    return ret.value.attr
                if isinstance(ret.value, ast.Compare) and isinstance(ret.value.ops[0], ast.In) and is_self_attr(ret.value.comparators[0]):
                    return ret.value.comparators[0].attr
            return None
        tok_f, opt_f = ret_field("tokens"), ret_field("option_tokens")
        has_tok, has_opt = ret_field("has_token"), ret_field("has_option_token")
        init = c.methods.get("__init__")
        derived_ok, detail = _option_tokens_derivation(ctx, c, init, opt_f, tok_f)
        if opt_f and derived_ok:
            r.ok("%s: %s = takewhile(!= '--', tokens)" % (c.name, opt_f))
        else:
            r.fail(init or c.methods.get("option_tokens") or list(c.methods.values())[0], (init.node if init else c.node), "%s option tokens: %s" % (c.name, detail),
                   "%s does not derive its option tokens as the prefix of its tokens before the first '--' (%s): switches after '--' would count" % (c.name, detail))
        if has_opt == opt_f and opt_f:
            r.ok("%s.has_option_token tests %s" % (c.name, opt_f))
        else:
            m = c.methods.get("has_option_token")
            r.fail(m or init, (m or init).node, "%s.has_option_token -> %s" % (c.name, has_opt), "%s.has_option_token consults %s instead of the option tokens (%s)" % (c.name, has_opt, opt_f))
        if has_tok == tok_f and tok_f:
            r.ok("%s.has_token tests %s" % (c.name, tok_f))
        else:
            m = c.methods.get("has_token")
            r.fail(m or init, (m or init).node, "%s.has_token -> %s" % (c.name, has_tok), "%s.has_token consults %s instead of the tokens (%s)" % (c.name, has_tok, tok_f))
        summaries[c.name] = (bool(tok_f), bool(opt_f), derived_ok)

    # ---------------------------------------------------------------- R5
    r = ctx.rule("C08-R5", "ORDER", "every token the scanner produces is kept: the value of each token-producing call in the list-building loop "
                 "is appended on every path that follows it (an empty quoted token '' is a token)", reference=1)
    for name, m in sorted(methods.items()):
        cfg = ctx.cfg(m)
        appends = [c for c in q.calls(m) if isinstance(c.func, ast.Attribute) and c.func.attr == "append" and isinstance(c.func.value, ast.Name) and c.args]
        if not appends:
            continue
        lists = {c.func.value.id for c in appends}
        rets = [x for x in q.returns(m) if isinstance(x.value, ast.Name) and x.value.id in lists]
        if not rets:
            continue
        producers = [c for c in q.calls(m) if isinstance(c.func, ast.Attribute) and isinstance(c.func.value, ast.Name) and c.func.value.id == "self"
                     and c.func.attr.startswith("_parse") and c.func.attr in methods]
        for pc in producers:
            par = getattr(pc, "_parent", None)
            if isinstance(par, ast.Call) and par in appends and pc in par.args:
                r.ok("%s: %s appended directly" % (m.short, norm(pc)))
                continue
            if isinstance(par, ast.Assign) and isinstance(par.targets[0], ast.Name):
                v = par.targets[0].id
                tgt = {n.id for a_ in appends if isinstance(a_.args[0], ast.Name) and a_.args[0].id == v for n in cfg.nodes_of(a_)}
                src = cfg.node_of(par)
                # stops: the next draw (the same assignment again), the end of the function
                stops = {src.id, cfg.exit.id} | {n.id for n in cfg.nodes if n.kind == "return"}
                if tgt and cfg.all_paths_hit(src.id, tgt, stops):
                    r.ok("%s: %s appended on every path" % (m.short, v))
                else:
                    r.fail(m, par, norm(par) + " not always appended", "%s can drop the token it just scanned (the append of `%s` is conditional): an empty token - '' or \"\" on the "
                           "command line - disappears, so quoting a token list and tokenising it does not give the list back" % (m.short, v))
            else:
                r.fail(m, pc, norm(pc) + " value unused", "%s scans a token and does not append it" % m.short)
    if r.n == 0:
        r.fail(methods.get("_parse") or list(methods.values())[0], (methods.get("_parse") or list(methods.values())[0]).node, "no list-building loop", "no token-list building loop found in the scanner")
    # ---------------------------------------------------------------- R7
    from .c05 import scratch_rule

    r = ctx.rule("C08-R7", "RESET", "'for every string' includes the second string handed to one tokenizer: parse() re-initialises every scanner field "
                 "(text, cursor, current, lookahead) before the first use (same rule as C05-R1)", reference=4)
    tp_parse = methods.get("parse")
    ctx.require(tp_parse is not None, "TokenParser.parse missing")
    scratch_rule(ctx, r, tp_parse)
    ctx.borrow("c05", "C05-R2", "C08-R6", "'a command string and the equivalent argv list are indistinguishable' also the second time the same list is wrapped: the argv "
               "wrapper (like every consumer of raw arguments) works on a copy and never pops from the caller's list")
    # ---------------------------------------------------------------- R8
    r = ctx.rule("C08-R8", "RANGE", "'for every string' includes the shortest ones: where the tokenizer tests the length of a string before it indexes it, the test covers the index - "
                 "`s[k]` is reached only under `len(s) > k` (or an equivalent), not under a weaker bound copied from a neighbouring line", reference=2)

    def len_bound(e, base):
        """smallest length of `base` that the TRUE edge of test ``e`` guarantees, or None"""
        def is_len(x):
            return isinstance(x, ast.Call) and isinstance(x.func, ast.Name) and x.func.id == "len" and x.args and norm(x.args[0]) == base
        if is_len(e) or norm(e) == base:
            return 1
        if isinstance(e, ast.Compare) and len(e.ops) == 1 and isinstance(e.comparators[0], ast.Constant) and isinstance(e.comparators[0].value, int) and is_len(e.left):
            c = e.comparators[0].value
            if isinstance(e.ops[0], ast.Gt):
                return c + 1
            if isinstance(e.ops[0], ast.GtE):
                return c
            if isinstance(e.ops[0], ast.NotEq) and c == 0:
                return 1
        if isinstance(e, ast.Compare) and len(e.ops) == 1 and isinstance(e.left, ast.Constant) and isinstance(e.left.value, int) and is_len(e.comparators[0]):
            c = e.left.value
            if isinstance(e.ops[0], ast.Lt):
                return c + 1
            if isinstance(e.ops[0], ast.LtE):
                return c
        return None

    n8 = 0
    for name, m in sorted(tp.methods.items()):
        cfg = ctx.cfg(m)
        for sub in [n for n in walk_no_nested(m.node) if isinstance(n, ast.Subscript) and isinstance(n.ctx, ast.Load) and isinstance(n.slice, ast.Constant) and isinstance(n.slice.value, int) and n.slice.value >= 0]:
            base = norm(sub.value)
            k = sub.slice.value
            # only bases whose length this method tests at all (the code itself says the string may be short)
            tests = [x for x in ast.walk(m.node) if isinstance(x, (ast.If, ast.IfExp, ast.While)) and len_bound(x.test, base) is not None]
            if not tests:
                continue
            n8 += 1
            best = 0
            # conditional expression around the subscript
            for a in _anc8(sub):
                if isinstance(a, ast.IfExp) and any(y is sub for y in ast.walk(a.body)):
                    best = max(best, len_bound(a.test, base) or 0)
            for sn in cfg.nodes_of(sub):
                for e in cfg.nodes:
                    if e.kind == "T" and e.ast is not None and cfg.dominates(e.id, sn.id):
                        best = max(best, len_bound(e.ast, base) or 0)
            if best >= k + 1:
                r.ok("%s: %s under a length test that guarantees %d character(s)" % (m.short, norm(sub), best))
            else:
                r.fail(m, sub, "%s under a length bound of %d" % (norm(sub), best), "%s reads %s where the length test in force guarantees only %d character(s): a string of exactly %d "
                       "character(s) raises IndexError - the tokenizer is not total" % (m.short, norm(sub), best, k))
    if n8 == 0:
        r.vacuous_ok = True

    return ctx.results


def _option_tokens_derivation(ctx, c, init, opt_f, tok_f):
    """Is self.<opt_f> the prefix of the tokens before the first '--'?  Accepted forms (in __init__ or in a
    private helper it calls): list(takewhile(lambda a: a != '--', <tokens>)) or the explicit loop
    `for t in <tokens>: if t == '--': break; out.append(t)`."""
    if init is None or not opt_f:
        return False, "no option tokens field"

    def is_tokens(e):
        return (isinstance(e, ast.Attribute) and e.attr in ("tokens", tok_f)) or isinstance(e, ast.Name)

    def takewhile_ok(expr):
        for x in walk_no_nested(expr):
            if isinstance(x, ast.Call) and norm(x.func).endswith("takewhile") and len(x.args) == 2 and isinstance(x.args[0], ast.Lambda):
                body = x.args[0].body
                sep = isinstance(body, ast.Compare) and isinstance(body.ops[0], ast.NotEq) and any(isinstance(k, ast.Constant) and k.value == "--" for k in [body.left] + body.comparators)
                if sep and is_tokens(x.args[1]):
                    return True, "takewhile"
                return False, "takewhile(%s, %s)" % (norm(body), norm(x.args[1]))
        return None, ""

    def loop_ok(fn, var):
        """var is a local list filled by the stop-at-'--' loop in fn"""
        for lp in [n for n in walk_no_nested(fn.node) if isinstance(n, ast.For) and isinstance(n.target, ast.Name) and is_tokens(n.iter)]:
            t = lp.target.id
            stops = [n for n in lp.body if isinstance(n, ast.If) and isinstance(n.test, ast.Compare) and isinstance(n.test.ops[0], ast.Eq)
                     and any(isinstance(k, ast.Constant) and k.value == "--" for k in [n.test.left] + n.test.comparators) and any(isinstance(b, ast.Break) for b in n.body)]
            apps = [cc for cc in q.calls(lp) if isinstance(cc.func, ast.Attribute) and cc.func.attr == "append" and norm(cc.func.value) == var and cc.args and isinstance(cc.args[0], ast.Name) and cc.args[0].id == t]
            if stops and apps:
                # the stop test precedes the append in the body
                if lp.body.index(stops[0]) < min(lp.body.index(q.stmt_of(a)) for a in apps if q.stmt_of(a) in lp.body or True and q.stmt_of(a) in lp.body) if any(q.stmt_of(a) in lp.body for a in apps) else True:
                    return True
        return False

    def judge(fn, expr, depth=0):
        ok, det = takewhile_ok(expr)
        if ok is not None:
            return ok, det
        if isinstance(expr, ast.Call) and isinstance(expr.func, ast.Name) and expr.func.id in ("list", "tuple") and len(expr.args) == 1 and depth < 3:
            return judge(fn, expr.args[0], depth + 1)
        # <tokens>[: <tokens>.index("--")]  - the prefix before the first separator
        if isinstance(expr, ast.Subscript) and isinstance(expr.slice, ast.Slice) and expr.slice.lower is None and expr.slice.step is None and is_tokens(expr.value):
            up = expr.slice.upper
            if isinstance(up, ast.Call) and isinstance(up.func, ast.Attribute) and up.func.attr == "index" and norm(up.func.value) == norm(expr.value) and up.args and isinstance(up.args[0], ast.Constant) and up.args[0].value == "--":
                return True, "tokens[:tokens.index('--')]"
            if up is None:
                return True, "whole copy (no separator arm)"
        if isinstance(expr, ast.Call) and isinstance(expr.func, ast.Attribute) and isinstance(expr.func.value, ast.Name) and expr.func.value.id == "self" and depth < 2:
            h = c.methods.get(expr.func.attr) or ctx.p.lookup_method(c, expr.func.attr)
            if h is not None:
                res = [judge(h, r.value, depth + 1) for r in q.returns(h) if r.value is not None]
                if res and all(x[0] for x in res):
                    return True, "helper " + h.name
                return False, "helper %s: %s" % (h.name, "; ".join(x[1] for x in res if not x[0]) or "no return")
        if isinstance(expr, ast.Name):
            defs = [n for n in walk_no_nested(fn.node) if isinstance(n, ast.Assign) and any(isinstance(t, ast.Name) and t.id == expr.id for t in n.targets)]
            for d in defs:
                ok, det = takewhile_ok(d.value)
                if ok:
                    return True, det
            if loop_ok(fn, expr.id):
                return True, "stop-at-'--' loop"
            return False, "local %s is not the prefix before '--'" % expr.id
        if is_self_attr(expr) and loop_ok(fn, norm(expr)):
            return True, "stop-at-'--' loop"
        return False, norm(expr)[:60]

    assigns = [n for n in walk_no_nested(init.node) if isinstance(n, ast.Assign) and any(is_self_attr(t, opt_f) for t in n.targets)]
    if not assigns:
        return False, "option tokens never assigned in __init__"
    icfg = ctx.cfg(init)
    verdicts = []
    for n in assigns:
        v = n.value
        ok, det = judge(init, v)
        if not ok and isinstance(v, (ast.List, ast.Call)) and loop_ok(init, "self." + opt_f):
            ok, det = True, "stop-at-'--' loop"
        if ok and det.startswith("whole copy"):
            # only where the tokens are known to hold no separator
            nosep = [e.id for e in icfg.nodes if e.kind in ("T", "F") and isinstance(e.ast, ast.Compare) and len(e.ast.ops) == 1 and isinstance(e.ast.left, ast.Constant) and e.ast.left.value == "--"
                     and ((isinstance(e.ast.ops[0], ast.In) and e.kind == "F") or (isinstance(e.ast.ops[0], ast.NotIn) and e.kind == "T"))]
            ok = any(icfg.dominates(x, cn.id) for x in nosep for cn in icfg.nodes_of(n))
            if not ok:
                det = "all tokens taken as option tokens without a test that there is no '--'"
        verdicts.append((ok, det))
    bad = [d for ok_, d in verdicts if not ok_]
    if bad:
        return False, bad[0]
    return True, "; ".join(sorted({d for _, d in verdicts}))
