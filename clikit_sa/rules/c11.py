"""C11 - decoration changes only the look: same text, right codes, none when plain."""
import ast

from ..loader import walk_no_nested, norm, is_self_attr, load_dependency_module, ClassInfo, AnalysisError
from ..cfg import guarded_by
from .. import q

LINE_METHODS = ("write_line", "write_line_raw", "error_line", "error_line_raw")
EXPECT_SGR = {"bold": 1, "dark": 2, "italic": 3, "underline": 4, "blink": 5, "reverse": 7, "conceal": 8}
ATTR_TO_OPTION = {"bold": "bold", "italic": "italic", "dark": "dark", "underlined": "underline", "blinking": "blink", "inverse": "reverse", "hidden": "conceal"}


class NewlineSummary(object):
    """For a writing method evaluated for one concrete class: the set, over all
    paths that write the method's text, of the number of newlines appended to
    it (0 or 1), by constant propagation of boolean parameters through
    delegation (virtual dispatch resolved for the concrete class)."""

    def __init__(self, ctx, stream_cls, out_cls):
        self.ctx = ctx
        self.stream_cls = stream_cls
        self.out_cls = out_cls
        self.memo = {}
        self.busy = set()

    def summary(self, fn, cls, bindings=()):
        key = (fn.qualname, cls.qualname, tuple(sorted(bindings)))
        if key in self.memo:
            return self.memo[key]
        if key in self.busy:
            return set()
        self.busy.add(key)
        res = self._eval(fn, cls, dict(bindings))
        self.busy.discard(key)
        self.memo[key] = res
        return res

    def _text_param(self, fn):
        ps = q.param_names(fn)
        return ps[0] if ps else None

    def _eval(self, fn, cls, env):
        ctx = self.ctx
        cfg = ctx.cfg(fn)
        text = self._text_param(fn)
        if text is None:
            return set()
        # defaults of boolean parameters
        for prm, d in fn.defaults.items():
            if prm not in env and isinstance(d, ast.Constant) and isinstance(d.value, bool):
                env[prm] = d.value
        results = set()
        # depth-first over acyclic paths carrying: {var: newline count}, events list
        start = (cfg.entry.id, (), {text: 0})
        stack = [start]
        seen_paths = 0
        while stack:
            nid, visited, st = stack.pop()
            seen_paths += 1
            if seen_paths > 20000:
                raise AnalysisError("newline summary: too many paths in %s" % fn.short)
            node = cfg.nodes[nid]
            st = dict(st)
            ev = st.get("__events__", ())
            a = node.ast
            if node.kind in ("stmt", "return") and a is not None:
                st, ev = self._stmt(a, fn, cls, st, ev, text, env)
                st["__events__"] = ev
            if nid == cfg.exit.id:
                tot = [e for e in ev]
                if tot:
                    for combo in self._combine(tot):
                        results.add(combo)
                continue
            succs = cfg.succs(nid, exc=False)
            if node.kind == "cond":
                val = self._const_cond(a, env)
                if val is not None:
                    want = cfg.true_of(node) if val else cfg.false_of(node)
                    succs = [want.id] if want is not None else []
            for s in succs:
                if s in visited:
                    continue
                stack.append((s, visited + (nid,), st))
        return results

    @staticmethod
    def _combine(events):
        """events: list of sets of possible newline counts of the text-carrying writes on the path."""
        totals = {0}
        for e in events:
            totals = {t + x for t in totals for x in e}
        return totals if events else set()

    def _const_cond(self, e, env):
        if isinstance(e, ast.Name) and e.id in env:
            return env[e.id]
        if isinstance(e, ast.Constant):
            return bool(e.value)
        return None

    def _nl(self, e, st):
        """newlines appended after the text by expression e; None if e does not carry the text"""
        if isinstance(e, ast.Name):
            return st.get(e.id)
        if isinstance(e, ast.BinOp) and isinstance(e.op, ast.Add):
            l = self._nl(e.left, st)
            if l is not None:
                if isinstance(e.right, ast.Constant) and isinstance(e.right.value, str):
                    return l + e.right.value.count("\n") if e.right.value.strip("\n") == "" else l
                return l
            r = self._nl(e.right, st)
            return r
        if isinstance(e, ast.Call):
            f = e.func
            if isinstance(f, ast.Attribute) and f.attr in ("rstrip", "strip") and e.args and isinstance(e.args[0], ast.Constant) and "\n" in str(e.args[0].value):
                inner = self._nl(f.value, st)
                return 0 if inner is not None else None
            if isinstance(f, ast.Attribute) and f.attr in ("format", "remove_format", "join", "replace", "lstrip", "decode", "encode"):
                for a in list(e.args) + [f.value]:
                    v = self._nl(a, st)
                    if v is not None:
                        return v
                return None
            if isinstance(f, ast.Name) and f.id in ("to_str", "str", "decode", "encode"):
                return self._nl(e.args[0], st) if e.args else None
            for a in e.args:
                v = self._nl(a, st)
                if v is not None:
                    return v
            return None
        if isinstance(e, ast.GeneratorExp) or isinstance(e, ast.ListComp):
            for g in e.generators:
                v = self._nl(g.iter, st)
                if v is not None:
                    return v
        if isinstance(e, ast.IfExp):
            return self._nl(e.body, st)
        return None

    def _stmt(self, a, fn, cls, st, ev, text, env):
        ctx = self.ctx
        if isinstance(a, ast.Assign) and len(a.targets) == 1 and isinstance(a.targets[0], ast.Name):
            v = self._nl(a.value, st)
            calls_first = [c for c in walk_no_nested(a.value) if isinstance(c, ast.Call)]
            st = dict(st)
            if v is not None:
                st[a.targets[0].id] = v
            else:
                st.pop(a.targets[0].id, None)
            return st, self._calls(calls_first, fn, cls, st, ev, env)
        if isinstance(a, ast.AugAssign) and isinstance(a.target, ast.Name) and isinstance(a.op, ast.Add):
            cur = st.get(a.target.id)
            if cur is not None and isinstance(a.value, ast.Constant) and isinstance(a.value.value, str) and a.value.value.strip("\n") == "":
                st = dict(st)
                st[a.target.id] = cur + a.value.value.count("\n")
            return st, ev
        calls = [c for c in walk_no_nested(a) if isinstance(c, ast.Call)]
        return st, self._calls(calls, fn, cls, st, ev, env)

    def _calls(self, calls, fn, cls, st, ev, env):
        ctx = self.ctx
        ev = tuple(ev)
        for c in calls:
            if not isinstance(c.func, ast.Attribute):
                continue
            name = c.func.attr
            # does the call carry the text?
            carried = None
            for a in list(c.args) + [k.value for k in c.keywords]:
                v = self._nl(a, st)
                if v is not None:
                    carried = v
                    break
            if carried is None:
                continue
            cs = ctx.cg.resolve_call(c, fn, self_cls=cls)
            targets = cs.targets
            if cs.kind == "super":
                targets = cs.targets
            stream_write = any(t.cls is not None and self.stream_cls in t.cls.mro and t.name == "write" for t in targets)
            if stream_write:
                ev = ev + (frozenset([carried]),)
                continue
            outs = set()
            relevant = False
            for t in targets:
                if t.cls is None or t.name in ("format", "remove_format", "add_content", "_may_write"):
                    continue
                if not (self.out_cls in t.cls.mro or any(getattr(b, "name", "") == "IO" for b in t.cls.mro if isinstance(b, ClassInfo))):
                    continue
                relevant = True
                # concrete classes the receiver may have
                recv_is_self = isinstance(c.func.value, ast.Name) and c.func.value.id == "self" or cs.kind == "super"
                concrete = [cls] if recv_is_self else [k for k in ctx.p.subclasses(t.cls)]
                binds = {}
                for prm in q.param_names(t):
                    a = q.arg_for_param(c, t, prm)
                    if a is None:
                        continue
                    if isinstance(a, ast.Constant) and isinstance(a.value, bool):
                        binds[prm] = a.value
                    elif isinstance(a, ast.Name) and a.id in env:
                        binds[prm] = env[a.id]
                for k in concrete:
                    impl = t if cs.kind == "super" else (ctx.p.lookup_method(k, t.name) or t)
                    sub = self.summary(impl, k, tuple(binds.items()))
                    for x in sub:
                        outs.add(x + carried)
                    if not sub:
                        pass
            if relevant and outs:
                ev = ev + (frozenset(outs),)
        return ev


def formatter_style_set_rule(ctx, r):
    """SIBLING rule shared with C09: all arms of create_io hand the application's style set to the formatter they build."""
    p = ctx.p
    n = 0
    for ci in sorted(p.classes.values(), key=lambda c: c.qualname):
        m0 = ci.methods.get("create_io")
        if m0 is None:
            continue
        # create_io and the helpers of its class it calls on self (the formatters may be built in one of them)
        ms, work = [m0], [m0]
        while work:
            cur = work.pop()
            for c in q.calls(cur):
                if isinstance(c.func, ast.Attribute) and isinstance(c.func.value, ast.Name) and c.func.value.id == "self":
                    h = p.lookup_method(ci, c.func.attr)
                    if h is not None and h not in ms and h.cls is not None and h.module is m0.module:
                        ms.append(h)
                        work.append(h)
        # per method, the locals holding the application's style set (a parameter counts when every caller hands it one)
        ss_of = {m_: {t.id for a in walk_no_nested(m_.node) if isinstance(a, ast.Assign) and isinstance(a.value, ast.Attribute) and a.value.attr == "style_set" for t in a.targets if isinstance(t, ast.Name)}
                 for m_ in ms}
        for _ in range(len(ms)):
            for m_ in ms[1:]:
                prm_ = [a for a in m_.params if a != "self"]
                sites = [(o, x) for o in ms for x in q.calls(o) if isinstance(x.func, ast.Attribute) and x.func.attr == m_.name and isinstance(x.func.value, ast.Name) and x.func.value.id == "self"]
                for i_, pn in enumerate(prm_):
                    if sites and all(i_ < len(x.args) and ((isinstance(x.args[i_], ast.Attribute) and x.args[i_].attr == "style_set") or (isinstance(x.args[i_], ast.Name) and x.args[i_].id in ss_of[o]))
                                     for o, x in sites):
                        ss_of[m_].add(pn)
        for m, c in [(m_, c_) for m_ in ms for c_ in q.calls(m_)]:
            ss = ss_of[m]
            if isinstance(c.func, ast.Name) and c.func.id.endswith("Formatter"):
                n += 1
                args = list(c.args) + [k.value for k in c.keywords if k.arg in (None, "style_set")]
                first = c.args[0] if c.args else next((k.value for k in c.keywords if k.arg == "style_set"), None)
                given = first is not None and ((isinstance(first, ast.Name) and first.id in ss) or (isinstance(first, ast.Attribute) and first.attr == "style_set"))
                if given:
                    r.ok("%s: %s" % (m.short, norm(c)))
                else:
                    r.fail(m, c, norm(c), "%s builds a formatter without the application's style set (%s): on that arm the application's own style tags are unknown - "
                           "they come out as literal markup (or raise) while the other arms render them" % (m.short, norm(c)))
    if n == 0:
        r.vacuous_ok = True
        r.note("no create_io builds formatters directly")


def run(ctx):
    p, cg = ctx.p, ctx.cg
    out_cls = ctx.cls("clikit.api.io.output.Output")
    io_cls = ctx.cls("clikit.api.io.io.IO")
    stream_cls = ctx.cls("clikit.api.io.output_stream.OutputStream")

    # ---------------------------------------------------------------- R1
    r = ctx.rule("C11-R1", "RANGE", "every line-writing method of every output / IO class appends exactly one newline "
                 "to its text on every path that writes it", reference=21)
    ns = NewlineSummary(ctx, stream_cls, out_cls)
    for base in (out_cls, io_cls):
        for c in p.subclasses(base):
            names = list(LINE_METHODS) + (["overwrite"] if "overwrite" in p.methods_of(c) else [])
            for name in names:
                m = p.lookup_method(c, name)
                if m is None:
                    continue
                res = ns.summary(m, c)
                desc = "%s.%s: newlines %s" % (c.name, name, sorted(res))
                if m.cls is not c and res == ns.summary(m, m.cls):
                    r.ok(desc + " [inherited from %s, same result]" % m.cls.name)
                    continue
                if res == {1}:
                    r.ok(desc)
                elif not res:
                    r.fail(m, m.node, "%s.%s writes nothing" % (c.name, name), "%s.%s has no path that writes its text" % (c.name, name))
                else:
                    r.fail(m, m.node, "%s.%s newlines %s" % (c.name, name, sorted(res)),
                           "%s.%s can emit its text followed by %s newline(s) instead of exactly one (lines run together or are spaced out)" %
                           (c.name, name, " or ".join(str(x) for x in sorted(res))))

    # ---------------------------------------------------------------- R2
    r = ctx.rule("C11-R2", "TABLE", "every boolean attribute of a style is converted to an option name the formatter "
                 "library knows, whose SGR code is the expected one; colours are passed on", reference=8)
    style = ctx.cls("clikit.api.formatter.style.Style")
    conv = ctx.func("StyleConverter.convert")
    init = style.methods["__init__"]
    bool_attrs = sorted(t.attr for n in walk_no_nested(init.node) if isinstance(n, ast.Assign) and isinstance(n.value, ast.Constant) and n.value.value is False for t in n.targets if is_self_attr(t))
    preds = {}
    for name, m in style.methods.items():
        if name.startswith("is_"):
            for ret in q.returns(m):
                if ret.value is not None and is_self_attr(ret.value):
                    preds[ret.value.attr] = name
    cfg = ctx.cfg(conv)
    emitted = {}
    for c in q.calls(conv):
        if isinstance(c.func, ast.Attribute) and c.func.attr == "append" and c.args and isinstance(c.args[0], ast.Constant):
            cn = cfg.node_of(c)
            doms = [e for e in cfg.nodes if e.kind in ("T", "F") and cfg.dominates(e.id, cn.id)]
            for e in doms:
                if e.kind == "T" and isinstance(e.ast, ast.Call) and isinstance(e.ast.func, ast.Attribute):
                    emitted[e.ast.func.attr] = (c.args[0].value, c)
            if len(doms) > 1:
                extra = [x for x in doms if not (x.kind == "T" and isinstance(x.ast, ast.Call))] or doms[1:]
                r.fail(conv, c, "%s under extra condition %s" % (norm(c), norm(extra[0].ast)),
                       "the option %r is emitted only under a further condition (%s%s): styles combining attributes lose it" %
                       (c.args[0].value, "not " if extra[0].kind == "F" else "", norm(extra[0].ast)))
    # table form: pairs (style.is_X(), "name") in a literal, filtered by a comprehension `[name for on, name in pairs if on]`
    ldefs = {}
    for n in walk_no_nested(conv.node):
        if isinstance(n, ast.Assign) and len(n.targets) == 1 and isinstance(n.targets[0], ast.Name):
            ldefs.setdefault(n.targets[0].id, []).append(n.value)
    for comp in [n for n in ast.walk(conv.node) if isinstance(n, (ast.ListComp, ast.GeneratorExp)) and len(n.generators) == 1]:
        g = comp.generators[0]
        src = g.iter
        if isinstance(src, ast.Name) and len(ldefs.get(src.id, [])) == 1:
            src = ldefs[src.id][0]
        if not (isinstance(src, (ast.Tuple, ast.List)) and isinstance(g.target, ast.Tuple) and len(g.target.elts) == 2 and all(isinstance(x, ast.Name) for x in g.target.elts)):
            continue
        a_, b_ = g.target.elts[0].id, g.target.elts[1].id
        if not (isinstance(comp.elt, ast.Name) and len(g.ifs) == 1 and isinstance(g.ifs[0], ast.Name) and {comp.elt.id, g.ifs[0].id} == {a_, b_}):
            continue
        flag_pos = 0 if g.ifs[0].id == a_ else 1
        for el in src.elts:
            if isinstance(el, ast.Tuple) and len(el.elts) == 2:
                fl, nm = el.elts[flag_pos], el.elts[1 - flag_pos]
                if isinstance(fl, ast.Call) and isinstance(fl.func, ast.Attribute) and isinstance(nm, ast.Constant):
                    emitted[fl.func.attr] = (nm.value, fl)
    try:
        ptree, _, pdig = load_dependency_module("pastel/style.py")
    except AnalysisError as e:
        raise AnalysisError("cannot read pastel's option table: %s" % e)
    pastel_opts = {}
    for n in ast.walk(ptree):
        if isinstance(n, ast.Assign) and any(isinstance(t, ast.Name) and t.id == "OPTIONS" for t in n.targets) and isinstance(n.value, ast.Dict):
            for k, v in zip(n.value.keys, n.value.values):
                if isinstance(k, ast.Constant) and isinstance(v, ast.Constant):
                    pastel_opts[k.value] = v.value
                elif isinstance(k, ast.Constant) and isinstance(v, ast.Dict):
                    for kk, vv in zip(v.keys, v.values):
                        if isinstance(kk, ast.Constant) and kk.value == "set" and isinstance(vv, ast.Constant):
                            pastel_opts[k.value] = vv.value
    ctx.require(pastel_opts, "pastel Style.OPTIONS table not found")
    r.note("pastel OPTIONS (digest %s): %s" % (pdig, sorted(pastel_opts.items())))
    for a in bool_attrs:
        word = a.lstrip("_")
        pred = preds.get(a)
        if pred is None:
            r.fail(init, init.node, "no predicate for " + a, "style attribute %s has no is_* predicate" % a)
            continue
        em = emitted.get(pred)
        if em is None:
            r.fail(conv, conv.node, "%s not converted" % pred, "the style attribute '%s' is never converted: text styled with it is rendered without it" % word)
            continue
        name, call = em
        want = ATTR_TO_OPTION.get(word)
        if name not in pastel_opts:
            r.fail(conv, call, "%s -> %s" % (pred, name), "'%s' is converted to the option '%s', which the formatter library does not know" % (word, name))
        elif want and pastel_opts.get(name) != EXPECT_SGR[want]:
            r.fail(conv, call, "%s -> %s" % (pred, name), "'%s' is converted to '%s' (SGR %s) instead of SGR %s" % (word, name, pastel_opts.get(name), EXPECT_SGR[want]))
        else:
            r.ok("%s -> %s (SGR %s)" % (pred, name, pastel_opts[name]))
    ps_calls = [c for c in q.calls(conv) if isinstance(c.func, ast.Name) and c.func.id.endswith("Style")]
    if ps_calls and len(ps_calls[0].args) >= 3 and "foreground" in norm(ps_calls[0].args[0]) and "background" in norm(ps_calls[0].args[1]):
        r.ok("convert passes foreground, background and options")
    else:
        r.fail(conv, conv.node, "colours", "convert does not pass foreground and background colour on")

    # ---------------------------------------------------------------- R3
    r = ctx.rule("C11-R3", "SIBLING", "the three ways of supplying a style (style set, add_style, per-call style) go "
                 "through the converter with foreground, background and options", reference=5)
    ansi = ctx.cls("clikit.formatter.ansi_formatter.AnsiFormatter")
    plain = ctx.cls("clikit.formatter.plain_formatter.PlainFormatter")
    for cls in (ansi, plain):
        for mname in ("__init__", "add_style"):
            m = cls.methods.get(mname)
            if m is None:
                continue
            # the registration may sit in a private helper of the formatter
            scope_fns = [m] + [t for cs in cg.sites_in(m) for t in cs.targets if t.cls is cls and t.name.startswith("_") and t is not m]
            adds = [c for f_ in scope_fns for c in q.calls(f_) if isinstance(c.func, ast.Attribute) and c.func.attr == "add_style" and is_self_attr(c.func.value)]
            convs = [c for f_ in scope_fns for c in q.calls(f_) if isinstance(c.func, ast.Attribute) and c.func.attr == "convert"]
            if not adds:
                r.fail(m, m.node, "%s.%s registers nothing" % (cls.name, mname), "%s.%s does not register the style with the formatter library" % (cls.name, mname))
                continue
            if mname == "add_style":
                # a later style replaces an earlier one of the same tag: the registration is on every path
                mcfg = ctx.cfg(m)
                own_adds = {n.id for c in adds for n in mcfg.nodes_of(c)} | {n.id for cs in cg.sites_in(m) for n in mcfg.nodes_of(cs.node) if any(t in scope_fns[1:] for t in cs.targets)}
                if own_adds and not mcfg.post_dominated_by(mcfg.entry.id, own_adds):
                    r.fail(m, m.node, "%s.add_style can return without registering" % cls.name, "%s.add_style has a path that returns without registering the style (a test whether the tag is known "
                           "already, say): a style added later under an existing tag - also a built-in one - keeps the old colours and attributes" % cls.name)
            for c in adds:
                fields = [norm(a).split(".")[-1] for a in c.args[1:]]
                if convs and fields == ["foreground", "background", "options"]:
                    r.ok("%s.%s: converted style registered with %s" % (cls.name, mname, ", ".join(fields)))
                else:
                    r.fail(m, c, "%s.%s add_style(%s)" % (cls.name, mname, ", ".join(fields)), "%s.%s registers a style without %s" %
                           (cls.name, mname, ", ".join(sorted({"foreground", "background", "options"} - set(fields))) or "the converter"))
    fm = ansi.methods.get("format")
    pushes = [c for c in q.calls(fm) if isinstance(c.func, ast.Attribute) and c.func.attr == "push"]
    conv_locals = {t.id for n in walk_no_nested(fm.node) if isinstance(n, ast.Assign) and isinstance(n.value, ast.Call) and norm(n.value.func).endswith("convert") for t in n.targets if isinstance(t, ast.Name)}
    other_defs = {t.id for n in walk_no_nested(fm.node) if isinstance(n, ast.Assign) and not (isinstance(n.value, ast.Call) and norm(n.value.func).endswith("convert")) for t in n.targets if isinstance(t, ast.Name)}
    conv_locals -= other_defs
    if pushes and all(c.args and ((isinstance(c.args[0], ast.Call) and norm(c.args[0].func).endswith("convert")) or (isinstance(c.args[0], ast.Name) and c.args[0].id in conv_locals)) for c in pushes):
        r.ok("AnsiFormatter.format(style=...) pushes the converted style")
    else:
        r.fail(fm, fm.node, "format(style) conversion", "a style passed for a single call is not converted before it is applied")

    # ---------------------------------------------------------------- R4
    r = ctx.rule("C11-R4", "TABLE", "the plain formatter never enables colour and registers the same styles as the "
                 "ANSI one; an undecorated output routes text through remove_format", reference=5)
    pinit = plain.methods["__init__"]
    pc = [c for c in q.calls(pinit) if isinstance(c.func, ast.Name) and c.func.id == "Pastel"]
    flag0 = None
    if pc:
        flag0 = pc[0].args[0] if pc[0].args else next((k.value for k in pc[0].keywords if k.arg in ("colorized", "colorize")), None)
    if flag0 is not None and isinstance(flag0, ast.Constant) and flag0.value is False:
        r.ok("PlainFormatter: Pastel(False)")
    else:
        r.fail(pinit, pinit.node, "Pastel colour flag", "the plain formatter constructs its formatter with colours enabled")
    bad = [c for m in plain.methods.values() for c in q.calls(m) if isinstance(c.func, ast.Attribute) and c.func.attr in ("with_colors", "colorized")]
    if bad:
        r.fail(plain.methods["format"], bad[0], norm(bad[0]), "the plain formatter switches colours")
    else:
        r.ok("PlainFormatter never switches colours")
    for cls in (ansi, plain):
        m = cls.methods["__init__"]
        loops = [n for n in walk_no_nested(m.node) if isinstance(n, ast.For) and "styles" in norm(n.iter)]

        def registers(call):
            if isinstance(call.func, ast.Attribute) and call.func.attr == "add_style":
                return True
            return any(t.cls is cls and any(isinstance(c2.func, ast.Attribute) and c2.func.attr == "add_style" for c2 in q.calls(t)) for t in cg.site_for(m, call).targets)
        if loops and any(registers(c) for lp in loops for c in q.calls(lp)):
            r.ok("%s.__init__ registers every style of the style set" % cls.name)
        else:
            r.fail(m, m.node, "%s.__init__ style loop" % cls.name, "%s does not register the styles of its style set: their tags are %s" %
                   (cls.name, "printed literally" if cls is plain else "not rendered"))
    w = out_cls.methods["write"]
    cfg = ctx.cfg(w)
    rf = [cfg.node_of(c) for c in q.method_calls(w, "remove_format")]
    fo = [cfg.node_of(c) for c in q.method_calls(w, "format")]
    okp = rf and all(guarded_by(cfg, n, lambda e: is_self_attr(e, "_format_output"), polarity=False) is not None for n in rf) and \
        fo and all(guarded_by(cfg, n, lambda e: is_self_attr(e, "_format_output"), polarity=True) is not None for n in fo)
    if okp:
        r.ok("Output.write: format when decorated, remove_format otherwise")
    else:
        r.fail(w, w.node, "decoration switch", "Output.write does not strip the markup on an undecorated output / format on a decorated one")

    # ---------------------------------------------------------------- R6
    from .c15 import control_code_rule

    control_code_rule(ctx, "C11-R6", reference=1)

    # ---------------------------------------------------------------- R5
    r = ctx.rule("C11-R5", "PAIR", "an indentation scope restores the saved value on every exit, does not swallow "
                 "exceptions, and every use is scoped by 'with'", reference=8)
    ind = ctx.cls("clikit.api.io.indent.Indent")
    ex = ind.methods.get("__exit__")
    ctx.require(ex is not None, "Indent.__exit__ missing")
    cfg = ctx.cfg(ex)
    restores = [n for n in cfg.nodes if n.kind == "stmt" and isinstance(n.ast, ast.Assign) and any(isinstance(t, ast.Attribute) and t.attr == "_indent" for t in n.ast.targets)]
    conds = [c for c in cfg.conds()]
    if restores and not conds and all(any(isinstance(x, ast.Attribute) and "original" in x.attr for x in walk_no_nested(n.ast.value)) for n in restores):
        r.ok("Indent.__exit__ restores the saved indentation unconditionally")
    else:
        r.fail(ex, ex.node, "__exit__ restore", "Indent.__exit__ does not restore the saved indentation unconditionally (e.g. only when no exception is in flight)")
    # one saved value per output: saved as a per-output collection, restored by the same position
    ini0 = ind.methods["__init__"]
    per_output_save = any(isinstance(n, ast.Assign) and any(is_self_attr(t) and "original" in t.attr for t in n.targets) and isinstance(n.value, (ast.ListComp, ast.DictComp, ast.GeneratorExp))
                          and any(isinstance(x, ast.Attribute) and x.attr == "_indent" for x in walk_no_nested(n.value)) for n in walk_no_nested(ini0.node))
    per_output_restore = bool(restores) and all(isinstance(n.ast.value, ast.Subscript) and is_self_attr(n.ast.value.value) for n in restores)
    if per_output_save and per_output_restore:
        r.ok("Indent keeps one saved indentation per output and restores each output its own")
    else:
        r.fail(ex if not per_output_restore else ini0, (restores[0].ast if restores and not per_output_restore else ini0.node), "per-output save/restore",
               "Indent does not keep one saved indentation per output: after a scope over outputs with different indentations they all get the same value back")
    swallow = [ret for ret in q.returns(ex) if ret.value is not None and not (isinstance(ret.value, ast.Constant) and not ret.value.value)]
    if swallow:
        r.fail(ex, swallow[0], norm(swallow[0]), "Indent.__exit__ may return a truthy value: exceptions raised inside the scope are swallowed")
    else:
        r.ok("Indent.__exit__ does not swallow exceptions")
    ini = ind.methods["__init__"]
    saved = [n for n in walk_no_nested(ini.node) if isinstance(n, ast.Assign) and any(is_self_attr(t) and "original" in t.attr for t in n.targets)]
    cfgi = ctx.cfg(ini)
    sets = [n for n in cfgi.nodes if n.kind == "stmt" and isinstance(n.ast, ast.Assign) and any(isinstance(t, ast.Attribute) and t.attr == "_indent" and not is_self_attr(t) for t in n.ast.targets)]
    if saved and sets and all(cfgi.dominates(cfgi.node_of(saved[0]).id, s.id) for s in sets):
        r.ok("Indent.__init__ saves the indentation before changing it")
    else:
        r.fail(ini, ini.node, "save before set", "Indent.__init__ changes the indentation before saving it")
    for fi in p.all_functions():
        for c in q.calls(fi):
            if isinstance(c.func, ast.Attribute) and c.func.attr in ("indent", "increment_indent"):
                cs = cg.site_for(fi, c)
                if not any(t.cls is not None and (out_cls in t.cls.mro or io_cls in t.cls.mro) for t in cs.targets):
                    continue
                par = getattr(c, "_parent", None)
                if isinstance(par, ast.withitem):
                    r.ok("%s: with %s" % (fi.short, norm(c)))
                elif isinstance(par, ast.Return) and fi.name in ("indent", "increment_indent"):
                    r.ok("%s: delegating factory" % fi.short)
                elif fi.short == "Output.section":
                    # enumerated 'set' idiom: a fresh section starts at the parent's indentation; the
                    # scope object is dropped on purpose (there is nothing to restore on a new object)
                    r.ok("%s: %s sets the new section's indentation" % (fi.short, norm(c)))
                else:
                    r.fail(fi, c, norm(c), "%s changes the indentation without a 'with' scope: it is never restored" % fi.short)

    # ---------------------------------------------------------------- R10
    r = ctx.rule("C11-R10", "SIBLING", "'the decorated rendering with its escape sequences stripped and the tag-stripped text are the same string' needs one notion of what a tag is: in every "
                 "formatter of the pastel family remove_format interprets the text with the same engine call as format (colorize), only with colour switched off - not with a "
                 "pattern of its own (an unknown tag such as <src> is text for the engine)", reference=2)
    for cls in (ansi, plain):
        fmt_m, rm_m = cls.methods.get("format"), cls.methods.get("remove_format")
        if fmt_m is None or rm_m is None:
            continue
        def engine_calls(m_):
            # locals that stand for the engine itself (`f = self._formatter`), not for something inside it
            al = q.direct_aliases(m_)
            return sorted({c.func.attr for c in q.calls(m_) if isinstance(c.func, ast.Attribute) and (is_self_attr(c.func.value) or (isinstance(c.func.value, ast.Name) and c.func.value.id in al))
                           and c.func.attr not in ("colorized",)})
        a_, b_ = engine_calls(fmt_m), engine_calls(rm_m)
        if a_ and a_ == b_:
            r.ok("%s: format and remove_format both go through %s" % (cls.name, ", ".join(a_)))
        else:
            r.fail(rm_m, rm_m.node, "%s.remove_format %s vs format %s" % (cls.name, b_ or "no engine call", a_), "%s.remove_format does not strip with the engine that format renders with (%s vs %s): text that "
                   "looks like a tag but is none is printed by one and removed by the other - widths measured on the stripped text (section rows, table cells) no longer match what is printed" % (cls.name, b_ or "own pattern", a_))

    # ---------------------------------------------------------------- R9
    r = ctx.rule("C11-R9", "SIBLING", "'the markup of a registered style' is known to whichever formatter a run gets: every formatter the I/O factory of the default "
                 "configuration builds receives the application's style set (all arms: --ansi, --no-ansi, capable / incapable stream, both channels)", reference=6)
    formatter_style_set_rule(ctx, r)

    # ---------------------------------------------------------------- R7
    r = ctx.rule("C11-R7", "ORDER", "indentation is decided on the text as written, before decoration: in the writing method the per-line prefixing "
                 "('non-empty line' = non-empty before any escape code) precedes the call of the formatter", reference=1)
    n_w = 0
    for c in [out_cls] + [k for k in p.subclasses(out_cls, strict=True)]:
        for name, m in sorted(c.methods.items()):
            cfg = ctx.cfg(m)
            def applies_indent(tree, depth=0):
                for x in ast.walk(tree):
                    if isinstance(x, ast.BinOp) and isinstance(x.op, ast.Mult) and any(is_self_attr(y, "_indent") for y in (x.left, x.right)):
                        return True
                    # a private helper of the output that does it
                    if depth == 0 and isinstance(x, ast.Call) and isinstance(x.func, ast.Attribute) and isinstance(x.func.value, ast.Name) and x.func.value.id == "self" and x.func.attr.startswith("_"):
                        h = p.lookup_method(c, x.func.attr)
                        if h is not None and h is not m and applies_indent(h.node, 1):
                            return True
                return False
            ind_nodes = [n for n in cfg.nodes if n.kind == "stmt" and n.ast is not None and applies_indent(n.ast)]
            fmt_nodes = [n for n in cfg.nodes if n.kind in ("stmt", "return") and n.ast is not None and any(
                isinstance(x, ast.Call) and isinstance(x.func, ast.Attribute) and x.func.attr in ("format", "remove_format") and isinstance(x.func.value, ast.Name) and x.func.value.id == "self"
                for x in walk_no_nested(n.ast))]
            if not ind_nodes or not fmt_nodes:
                continue
            n_w += 1
            late = [i for i in ind_nodes if any(i.id in cfg.reach_strict(f.id) for f in fmt_nodes)]
            if late:
                r.fail(m, late[0].ast, "indentation after formatting", "%s prefixes the lines after the formatter ran: a line that holds only an escape sequence (a style that starts or ends at a "
                       "line break) counts as non-empty and is indented, so the decorated output with its escapes stripped differs from the plain output" % m.short)
            else:
                r.ok("%s: lines prefixed before %s" % (m.short, "format/remove_format"))
    if n_w == 0:
        r.fail(out_cls.methods["write"], out_cls.methods["write"].node, "no indenting writer", "no writing method applies the indentation any more")

    # ---------------------------------------------------------------- R8
    r = ctx.rule("C11-R8", "SIBLING", "the error-stream twin of every IO writing method does what the standard one does: both delegate to the same "
                 "method of their output with the same argument shapes (a text ending in a newline gets the same treatment on both streams)", reference=4)
    def shape(m):
        out = []
        prm = q.param_names(m)
        for c in q.calls(m):
            if isinstance(c.func, ast.Attribute) and is_self_attr(c.func.value):
                out.append((c.func.attr, tuple(norm(a) for a in c.args), tuple(sorted((k.arg or "**", norm(k.value)) for k in c.keywords))))
        return out
    for name, m in sorted(io_cls.methods.items()):
        if not name.startswith("write"):
            continue
        twin = io_cls.methods.get("error" + name[len("write"):])
        if twin is None:
            continue
        a, b = shape(m), shape(twin)
        if a == b and a:
            r.ok("IO.%s / IO.%s: %s" % (name, twin.name, a[0][0]))
        else:
            r.fail(twin, twin.node, "IO.%s / IO.%s delegate differently" % (name, twin.name),
                   "IO.%s and IO.%s no longer delegate the same way (%s vs %s): the same text is written differently to the two streams" % (name, twin.name, a, b))
    # ---------------------------------------------------------------- R11
    r = ctx.rule("C11-R11", "SIBLING", "'a style passed for a single call' reaches the formatter through every facade: a method of IO / Output that forwards to the method of the "
                 "same name one layer down hands on every one of its parameters (format(string, style) does not become format(string))", reference=17)
    n11 = 0
    for cls in (io_cls, out_cls):
        for name, m in sorted(cls.methods.items()):
            prm = [a for a in m.params if a != "self"]
            if not prm:
                continue
            for c in [x for x in q.calls(m) if isinstance(x.func, ast.Attribute) and x.func.attr == name and not (isinstance(x.func.value, ast.Name) and x.func.value.id == "self")
                      and not (isinstance(x.func.value, ast.Call) and isinstance(x.func.value.func, ast.Name) and x.func.value.func.id == "super" and False)]:
                used = {n.id for a in list(c.args) + [k.value for k in c.keywords] for n in ast.walk(a) if isinstance(n, ast.Name)}
                if not (used & set(prm)):
                    continue  # not a forwarding call of this method's own arguments
                n11 += 1
                miss = [a for a in prm if a not in used]
                if miss:
                    r.fail(m, c, "%s.%s drops %s" % (cls.name, name, ", ".join(miss)), "%s.%s forwards to %s without its parameter %s: what the caller passes for it is ignored at this layer only "
                           "(io.format(text, style) renders without the style, output.format(text, style) with it)" % (cls.name, name, norm(c.func), ", ".join(miss)))
                else:
                    r.ok("%s.%s forwards %s" % (cls.name, name, ", ".join(prm)))
    ctx.require(n11 >= 4, "the forwarding methods of IO / Output were not found")

    return ctx.results
