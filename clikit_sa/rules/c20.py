"""C20 - error traces always render and show the real message and failing line.

The TAINT rule (untrusted text must not reach a markup-interpreting sink that
can raise) is shared with C04.
"""
import ast

from ..loader import walk_no_nested, norm, load_dependency_module, AnalysisError, ClassInfo
from ..taint import Taint
from ..cfg import guarded_by
from .. import q

SOURCE_ATTRS = {"exception_message", "file_content", "line", "filename"}
SOLUTION_ATTRS = {"solution_title", "solution_description", "documentation_links"}
EXC_NAMES = {"e", "exc", "exception", "error", "err"}


def pastel_can_raise():
    """Fact extracted from the installed pastel: colorize() reaches
    ``raise`` in StyleStack.pop through a call that no handler encloses."""
    try:
        ptree, _, pd = load_dependency_module("pastel/pastel.py")
        stree, _, sd = load_dependency_module("pastel/stack.py")
    except AnalysisError:
        return None, "pastel source not found"
    pop_raises = False
    for n in ast.walk(stree):
        if isinstance(n, ast.FunctionDef) and n.name == "pop":
            pop_raises = any(isinstance(x, ast.Raise) for x in ast.walk(n))
    colorize_calls_pop = False
    for n in ast.walk(ptree):
        if isinstance(n, ast.FunctionDef) and n.name == "colorize":
            for c in ast.walk(n):
                if isinstance(c, ast.Call) and isinstance(c.func, ast.Attribute) and c.func.attr == "pop" and "_style_stack" in ast.unparse(c.func.value):
                    # with a style argument (named closing tag) and not inside a try
                    inside_try = False
                    p = getattr(c, "_parent", None)
                    while p is not None and p is not n:
                        if isinstance(p, ast.Try):
                            inside_try = True
                        p = getattr(p, "_parent", None)
                    if c.args and not inside_try:
                        colorize_calls_pop = True
    return (pop_raises and colorize_calls_pop), "pastel digests %s/%s" % (pd, sd)


def _from_tokenizer(recv, fi):
    """``recv`` is a record produced by the stdlib tokenizer (token_info.line is
    the *sanitised* line fed to it, not a frame's source line)."""
    if not isinstance(recv, ast.Name):
        return False
    f = fi
    for n in walk_no_nested(f.node):
        if isinstance(n, ast.For):
            names = {x.id for x in walk_no_nested(n.target) if isinstance(x, ast.Name)}
            if recv.id in names and isinstance(n.iter, ast.Name):
                for d in walk_no_nested(f.node):
                    if isinstance(d, ast.Assign) and any(isinstance(t, ast.Name) and t.id == n.iter.id for t in d.targets):
                        if isinstance(d.value, ast.Call) and norm(d.value.func).startswith("tokenize."):
                            return True
    return False


def _label_kind(label):
    """'inspector.exception_message' -> '.exception_message'; 'str(self._exception)' / 'str(e)' -> 'str(<exception>)'"""
    if label.startswith("str("):
        return "str(<exception>)"
    if "." in label:
        return "." + label.rsplit(".", 1)[1]
    return label


def live_reachable(ctx, roots):
    """Functions reachable from roots through call sites that sit on live CFG nodes."""
    cg = ctx.cg
    seen = {}
    work = list(roots)
    while work:
        f = work.pop()
        if f.qualname in seen:
            continue
        seen[f.qualname] = f
        cfg = ctx.cfg(f)
        live = cfg.live_nodes(exc=True)
        for cs in cg.sites_in(f):
            ns = cfg.nodes_of(cs.node)
            if ns and not any(n.id in live for n in ns):
                continue
            for t in cs.targets:
                if t.qualname not in seen:
                    work.append(t)
        for sub in getattr(f, "nested", {}).values():
            work.append(sub)
    return seen


def build_taint(ctx):
    p = ctx.p
    io_cls = ctx.cls("clikit.api.io.io.IO")
    out_cls = ctx.cls("clikit.api.io.output.Output")
    fmt_cls = ctx.cls("clikit.api.formatter.formatter.Formatter")
    sink_methods = {}
    for c in p.subclasses(fmt_cls):
        for name in ("format", "remove_format"):
            m = c.methods.get(name)
            if m is not None:
                sink_methods[m.qualname] = name
    for c in p.subclasses(io_cls) + p.subclasses(out_cls):
        for name in ("write", "write_line", "error", "error_line"):
            m = c.methods.get(name)
            if m is not None:
                sink_methods[m.qualname] = name
    ctx.require(len(sink_methods) >= 8, "markup sinks not found")

    def is_source(e, fi):
        if isinstance(e, ast.Call) and isinstance(e.func, ast.Name) and e.func.id == "str" and len(e.args) == 1:
            a = e.args[0]
            if isinstance(a, ast.Attribute) and a.attr in ("_exception", "exception") and isinstance(a.value, ast.Name):
                return "str(%s)" % norm(a)
            if isinstance(a, ast.Name):
                t = ctx.typer.env(fi).get(a.id)
                if a.id in EXC_NAMES or (t is not None and any(x.startswith("exc:") for x in t.prims)):
                    return "str(%s)" % a.id
            return None
        if isinstance(e, ast.Attribute) and not (isinstance(e.value, ast.Name) and e.value.id in ("self", "cls")):
            if e.attr in SOURCE_ATTRS:
                t = ctx.typer.expr_type(e.value, fi)
                if not t.classes and not _from_tokenizer(e.value, fi):
                    # objects of crashtest (frames, inspector): not clikit's own, not tokenizer records
                    return norm(e)
        return None

    def is_sink(cs, fi):
        for t in cs.targets:
            if t.qualname in sink_methods:
                prm = q.param_names(t)
                a = q.arg_for_param(cs.node, t, prm[0]) if prm else None
                if a is not None:
                    return (t.name, [a])
        return None

    def clean_return(cs):
        return any(sink_methods.get(t.qualname) == "remove_format" for t in cs.targets)

    def scope(fi):
        m = fi.module.name
        return not m.startswith(("clikit.api.io", "clikit.io.", "clikit.formatter", "clikit.api.formatter", "clikit.adapter"))

    return Taint(ctx, is_source, is_sink, clean_return=clean_return, scope=scope)


def taint_rule(ctx, rule_id, roots, statement, reference=None):
    r = ctx.rule(rule_id, "TAINT", statement, reference=reference)
    can_raise, why = pastel_can_raise()
    if can_raise is None:
        raise AnalysisError("cannot extract the 'colorize may raise' fact: %s" % why)
    r.note("sink fact (%s): pastel.colorize %s" % (why, "can raise ValueError on an unmatched closing tag" if can_raise else "does not raise any more"))
    if not can_raise:
        r.vacuous_ok = True
        r.note("rule disarmed: the interpreting sinks cannot raise")
        return r
    t = build_taint(ctx)
    reach = live_reachable(ctx, roots)
    n_sinks = 0
    for fi in reach.values():
        for cs in ctx.cg.sites_in(fi):
            if t.is_sink(cs, fi) is not None:
                n_sinks += 1
    flows = [f for f in t.flows if f.fi.qualname in reach]
    flagged = set()
    for f in sorted(flows, key=lambda f: (f.fi.qualname, f.sink_call.lineno, f.label)):
        # keyed by (class, kind of source -> kind of sink): stable under renaming of locals and under the
        # extraction of helper methods; a flow of another kind, or in another class, is a different key
        construct = "%s -> %s" % (_label_kind(f.label), f.sink_name)
        flagged.add(id(f.sink_call))
        scope = f.fi.cls.qualname if f.fi.cls is not None else (f.fi.parent.cls.qualname if f.fi.parent is not None and f.fi.parent.cls is not None else None)
        r.fail(f.fi, f.sink_call, construct, key_scope=scope, message=
               "text that is not authored markup (%s) reaches the markup interpreter %s(); an unmatched closing tag in it "
               "makes rendering raise ValueError (and tag-like text is not shown verbatim)" % (f.label, f.sink_name),
               chain=" -> ".join(f.chain), sink_call=norm(f.sink_call)[:120], function=f.fi.qualname)
    for fi in sorted(reach.values(), key=lambda f: f.qualname):
        for cs in ctx.cg.sites_in(fi):
            if t.is_sink(cs, fi) is not None and id(cs.node) not in flagged:
                r.ok("%s: %s receives only authored markup / clean values" % (fi.short, norm(cs.node)[:70]))
    ctx.require(n_sinks > 0, "no markup sink reachable from %s" % ", ".join(x.short for x in roots))
    return r


def _anc20(n):
    p_ = getattr(n, "_parent", None)
    while p_ is not None:
        yield p_
        p_ = getattr(p_, "_parent", None)


def run(ctx):
    p = ctx.p
    et = ctx.cls("clikit.ui.components.exception_trace.ExceptionTrace")
    render = et.methods.get("render")
    ctx.require(render is not None, "ExceptionTrace.render missing")

    taint_rule(ctx, "C20-R1", [render],
               "text that is not authored markup (exception message, source lines, file names, solution texts) never "
               "reaches a markup-interpreting sink that can raise", reference=41)

    # ---------------------------------------------------------------- R2
    r = ctx.rule("C20-R2", "GUARD", "frames under the ignored path are skipped only when the verbosity is not debug", reference=2)
    rt = et.methods.get("_render_trace")
    ctx.require(rt is not None, "ExceptionTrace._render_trace missing")
    cfg = ctx.cfg(rt)
    skips = []
    for n in walk_no_nested(rt.node):
        if isinstance(n, ast.Continue):
            # a continue that depends on the ignore pattern
            for anc in _ancestors(n):
                if isinstance(anc, ast.If) and any(isinstance(x, ast.Attribute) and x.attr == "_ignore" for x in walk_no_nested(anc.test)):
                    skips.append(n)
                    break
    if not skips:
        # other skipping forms: the append guarded positively
        ign_conds = [c for c in cfg.conds() if any(isinstance(x, ast.Attribute) and x.attr == "_ignore" for x in walk_no_nested(c.ast))]
        if not ign_conds:
            r.vacuous_ok = True
            r.note("the trace renderer has no ignore filter any more")
    for s in skips:
        ok = all(guarded_by(cfg, cn, lambda e: isinstance(e, ast.Call) and isinstance(e.func, ast.Attribute) and e.func.attr == "is_debug",
                            polarity=False) is not None for cn in cfg.nodes_of(s))
        if ok:
            r.ok("%s: ignored-path skip only under 'not io.is_debug()'" % rt.short)
        else:
            r.fail(rt, s, "continue (ignored path)", "frames under the ignored path are dropped even at debug verbosity")
    if not skips:
        # positive form: `if not ignore or not match or debug: keep(frame)` - every path of an iteration that does
        # not keep the frame must have seen 'not debug'
        ign_conds = [c for c in cfg.conds() if any(isinstance(x, ast.Attribute) and x.attr == "_ignore" for x in walk_no_nested(c.ast))]
        for c0 in ign_conds[:1]:
            loops = cfg.enclosing_loops(c0.ast)
            if not loops:
                continue
            heads = [n for n in cfg.nodes if n.kind == "loop_body" and n.ast is loops[0]]
            loop_heads = [n.id for n in cfg.nodes if n.kind == "for" and n.ast is loops[0]]
            keeps = set(n.id for n in cfg.nodes if n.kind == "stmt" and any(a is loops[0] for a in _ancestors(n.ast))
                        and any(isinstance(c, ast.Call) and isinstance(c.func, ast.Attribute) and c.func.attr in ("append", "add", "insert") for c in walk_no_nested(n.ast)))
            not_debug = set(e.id for e in cfg.nodes if e.kind == "F" and isinstance(e.ast, ast.Call) and isinstance(e.ast.func, ast.Attribute) and e.ast.func.attr == "is_debug")
            r.vacuous_ok = False
            if keeps and all(cfg.all_paths_hit(h.id, keeps | not_debug, loop_heads) for h in heads):
                r.ok("%s: a frame is dropped only on paths that saw 'not io.is_debug()'" % rt.short)
            else:
                r.fail(rt, c0.ast, "ignore filter", "frames under the ignored path are dropped even at debug verbosity")

    # 'under an ignored path' is a statement about the frame's file name as the frame reports it: the pattern is matched against <frame>.filename itself
    for c in q.calls(rt):
        if isinstance(c.func, ast.Attribute) and isinstance(c.func.value, ast.Name) and c.func.value.id == "re" and c.args and any(isinstance(x, ast.Attribute) and x.attr == "_ignore" for x in walk_no_nested(c.args[0])):
            subj = c.args[1] if len(c.args) > 1 else None
            if isinstance(subj, ast.Attribute) and subj.attr == "filename":
                r.ok("%s: ignore pattern matched against %s" % (rt.short, norm(subj)))
            else:
                r.fail(rt, c, norm(c), "the ignore pattern is matched against `%s`, a transformed file name, not the one the frame reports: frames reached through a symlinked directory, with a relative "
                       "or a pseudo file name are no longer recognised as ignored and leak into the listing" % (norm(subj) if subj is not None else "?"))

    # ---------------------------------------------------------------- R3
    r = ctx.rule("C20-R3", "SIBLING", "the marker test and the printed line number use the same index expression; "
                 "numbering starts at 1 and follows enumeration order", reference=3)
    ln = ctx.func("Highlighter.line_numbers")
    marks = []
    for n in walk_no_nested(ln.node):
        if isinstance(n, ast.Compare) and len(n.ops) == 1 and isinstance(n.ops[0], ast.Eq):
            for a, b in ((n.left, n.comparators[0]), (n.comparators[0], n.left)):
                if isinstance(a, ast.Name) and a.id == "mark_line":
                    marks.append((n, b))
    nums = []
    # the printed number: a local assigned from "{:>{}}".format(<index expr>, <width>) / str(<index expr>) inside the enumeration
    ivars = set()
    for n in walk_no_nested(ln.node):
        if isinstance(n, ast.For) and isinstance(n.iter, ast.Call) and isinstance(n.iter.func, ast.Name) and n.iter.func.id == "enumerate" and isinstance(n.target, ast.Tuple) and isinstance(n.target.elts[0], ast.Name):
            ivars.add(n.target.elts[0].id)
    for n in walk_no_nested(ln.node):
        if isinstance(n, ast.Assign) and len(n.targets) == 1 and isinstance(n.targets[0], ast.Name) and isinstance(n.value, ast.Call) and n.value.args \
                and q.names_in(n.value.args[0]) & ivars and not any(isinstance(x, ast.Name) and x.id == "mark_line" for x in walk_no_nested(n.value)):
            v = n.value
            if isinstance(v, ast.Call) and isinstance(v.func, ast.Attribute) and v.func.attr == "format" and v.args:
                nums.append((n, v.args[0]))
            elif isinstance(v, ast.Call) and isinstance(v.func, ast.Name) and v.func.id == "str" and v.args:
                nums.append((n, v.args[0]))
    ctx.require(marks and nums, "marker test / line number expression not found in Highlighter.line_numbers")
    want = norm(nums[0][1])
    for n, idx in marks:
        if norm(idx) == want:
            r.ok("%s: marker test %s uses the printed number %s" % (ln.short, norm(n), want))
        else:
            r.fail(ln, n, norm(n), "the marked line is decided with %s but the number printed next to it is %s" % (norm(idx), want))
    # enumeration starts at 0 and the printed number is index + 1 (or enumerate(..., 1) and index)
    ok_num = False
    for n in walk_no_nested(ln.node):
        if isinstance(n, ast.For) and isinstance(n.iter, ast.Call) and isinstance(n.iter.func, ast.Name) and n.iter.func.id == "enumerate":
            start = 0
            if len(n.iter.args) > 1 and isinstance(n.iter.args[1], ast.Constant):
                start = n.iter.args[1].value
            for k in n.iter.keywords:
                if k.arg == "start" and isinstance(k.value, ast.Constant):
                    start = k.value.value
            ivar = n.target.elts[0].id if isinstance(n.target, ast.Tuple) and isinstance(n.target.elts[0], ast.Name) else None
            e = nums[0][1]
            off = None
            if isinstance(e, ast.Name) and e.id == ivar:
                off = 0
            elif isinstance(e, ast.BinOp) and isinstance(e.op, ast.Add) and isinstance(e.left, ast.Name) and e.left.id == ivar and isinstance(e.right, ast.Constant):
                off = e.right.value
            if off is not None and start + off == 1:
                ok_num = True
    if ok_num:
        r.ok("%s: numbering = enumeration index + offset = 1 for the first line" % ln.short)
    else:
        r.fail(ln, nums[0][0], norm(nums[0][0]), "line numbers do not start at 1 / do not follow the enumeration index")

    # ---------------------------------------------------------------- R4
    r = ctx.rule("C20-R4", "ORDER", "the full report writes the exception's class name and its message on every path "
                 "that renders frames; the simple report writes the message", reference=3)
    rex = et.methods.get("_render_exception")
    ctx.require(rex is not None, "ExceptionTrace._render_exception missing")
    cfg = ctx.cfg(rex)
    for attr, what in (("exception_name", "class name"), ("exception_message", "message")):
        sites = []
        derived = set()
        for _ in range(4):
            for n in walk_no_nested(rex.node):
                if isinstance(n, ast.Assign) and any((isinstance(x, ast.Attribute) and x.attr == attr) or (isinstance(x, ast.Name) and x.id in derived)
                                                     for x in walk_no_nested(n.value)):
                    for t in n.targets:
                        if isinstance(t, ast.Name):
                            derived.add(t.id)
        def writes_attr(fn, depth=0):
            """fn contains a write call whose arguments carry <attr> (directly or through locals)"""
            dloc = set()
            for _ in range(4):
                for n_ in walk_no_nested(fn.node):
                    if isinstance(n_, ast.Assign) and any((isinstance(x, ast.Attribute) and x.attr == attr) or (isinstance(x, ast.Name) and x.id in dloc) for x in walk_no_nested(n_.value)):
                        for t_ in n_.targets:
                            if isinstance(t_, ast.Name):
                                dloc.add(t_.id)
            for cs_ in ctx.cg.sites_in(fn):
                if any(t.name in ("_render_line", "write_line", "write", "error_line") for t in cs_.targets):
                    if any((isinstance(x, ast.Attribute) and x.attr == attr) or (isinstance(x, ast.Name) and x.id in dloc)
                           for a in list(cs_.node.args) + [k.value for k in cs_.node.keywords] for x in walk_no_nested(a)):
                        return True
            return False
        for cs in ctx.cg.sites_in(rex):
            if any(t.name in ("_render_line", "write_line", "write", "error_line") for t in cs.targets):
                uses = any((isinstance(x, ast.Attribute) and x.attr == attr) or (isinstance(x, ast.Name) and x.id in derived)
                           for a in list(cs.node.args) + [k.value for k in cs.node.keywords] for x in walk_no_nested(a))
                if uses:
                    sites.extend(cfg.nodes_of(cs.node))
            elif any(t.cls is et and t.name.startswith("_") and t is not rex and writes_attr(t) for t in cs.targets):
                sites.extend(cfg.nodes_of(cs.node))  # a private helper of the renderer that writes it
        if not sites:
            r.fail(rex, rex.node, "no write of " + attr, "the full report never writes the exception's %s" % what)
            continue
        ids = set(n.id for n in sites)
        # every path that reaches the snippet/trace rendering passes the write
        starts = [n for n in cfg.nodes if n.kind == "stmt" and any(isinstance(c, ast.Call) and isinstance(c.func, ast.Attribute) and c.func.attr == "_render_trace" for c in walk_no_nested(n.ast))]
        ok = bool(starts) and all(cfg.post_dominated_by(s.id, ids) for s in starts)
        if ok:
            r.ok("%s: %s written on every path after the trace" % (rex.short, what))
        else:
            r.fail(rex, sites[0].ast, "write of " + attr, "a path through the full report skips writing the exception's %s" % what)
    cfg = ctx.cfg(render)
    simple_ok = False
    for n in cfg.nodes:
        if n.kind == "stmt" and any(isinstance(c, ast.Call) and isinstance(c.func, ast.Attribute) and c.func.attr in ("write_line", "error_line", "write") for c in walk_no_nested(n.ast)) \
                and any(isinstance(x, ast.Attribute) and x.attr == "_exception" for x in walk_no_nested(n.ast)):
            g = guarded_by(cfg, n, lambda e: isinstance(e, ast.Name) and e.id == "simple", polarity=True)
            if g is not None:
                simple_ok = True
    # ... its text, i.e. str(exception) - not a component picked out of it
    picked = [n for n in cfg.nodes if n.kind == "stmt" and n.ast is not None and any(isinstance(x, ast.Attribute) and x.attr in ("args", "message") and isinstance(x.value, ast.Attribute) and x.value.attr == "_exception" for x in walk_no_nested(n.ast))
              and guarded_by(cfg, n, lambda e: isinstance(e, ast.Name) and e.id == "simple", polarity=True) is not None]
    if picked:
        r.fail(render, picked[0].ast, norm(picked[0].ast)[:70], "in simple mode the report prints a component of the exception (%s) instead of str(exception): exceptions with a custom __str__, several "
               "arguments or none show the wrong text, or render raises IndexError" % norm(picked[0].ast)[:60])
    elif simple_ok:
        r.ok("%s: simple mode writes the exception text" % render.short)
    else:
        r.fail(render, render.node, "simple mode write", "in simple mode the message of the exception is not written")
    # ---------------------------------------------------------------- R7
    from .c17 import shared_objects_rule

    shared_objects_rule(ctx, "C20-R7", lambda m: m.startswith(("clikit.ui.components.exception_trace", "clikit.formatter")), reference=16)

    # ---------------------------------------------------------------- R6
    r = ctx.rule("C20-R6", "KEY", "text between two tokens of a source line is copied from the line itself (tabs and "
                 "other gap characters are shown verbatim)", reference=1)
    stl = ctx.func("Highlighter.split_to_lines")
    cfg6 = ctx.cfg(stl)
    gaps = []
    for n in cfg6.nodes:
        if n.kind == "stmt" and isinstance(n.ast, ast.AugAssign) and isinstance(n.ast.target, ast.Name):
            g = guarded_by(cfg6, n, lambda e: isinstance(e, ast.Compare) and isinstance(e.ops[0], ast.Gt) and any(isinstance(x, ast.Name) and "col" in x.id for x in walk_no_nested(e)), polarity=True,
                           kill_names=lambda e: set())
            if g is not None and any(isinstance(x, ast.Name) and "col" in x.id for x in walk_no_nested(n.ast.value)):
                gaps.append(n)
    if not gaps:
        r.vacuous_ok = True
        r.note("no inter-token gap handling found")
    for n in gaps:
        v = n.ast.value
        from_line = any(isinstance(x, ast.Subscript) and isinstance(x.value, ast.Attribute) and x.value.attr == "line" for x in walk_no_nested(v))
        if from_line:
            r.ok("%s: gap text %s copied from the token's line" % (stl.short, norm(v)))
        else:
            r.fail(stl, n.ast, norm(n.ast), "the text between two tokens is synthesised (%s) instead of copied from the source line: tabs and other gap characters are not shown verbatim" % norm(v))

    theme_null_rule(ctx, "C20-R5", reference=4)

    # ---------------------------------------------------------------- R8
    from .c17 import memo_key_rule

    r = ctx.rule("C20-R8", "CACHEKEY", "the snippet memo cannot hand out the snippet of another frame or stream: its key covers every input "
                 "of the memoised value (the whole frame - file, line number, content - and the stream's capabilities; same rule as C17-R4)", reference=1)
    memo_key_rule(ctx, r, only_module="clikit.ui.components.exception_trace")

    # ---------------------------------------------------------------- R9
    r = ctx.rule("C20-R9", "EXC", "source that the tokenizer rejects does not stop the report: the frame's file need not be Python at all (a template "
                 "compiled under its own file name), and a single frame line out of context is often an unfinished statement - every path from "
                 "the trace renderer into the tokenizer passes a handler for tokenize.TokenError, at the call site or inside the highlighter", reference=3)
    hl_cls = ctx.cls("clikit.ui.components.exception_trace.Highlighter")

    def handler_names(cfg_, node_ids):
        out = []
        for nid in node_ids:
            for s_, k in cfg_.succ[nid]:
                sn = cfg_.nodes[s_]
                if k == "e" and sn.kind == "except":
                    h = sn.ast
                    out.append(None if h.type is None else [norm(x) for x in (h.type.elts if isinstance(h.type, ast.Tuple) else [h.type])])
        return out

    def protected(cfg_, node_ids):
        # the tokenizer rejects source in two ways: tokenize.TokenError (unfinished statement / string) and SyntaxError
        # (IndentationError, TabError for an inconsistent dedent or mixed tabs): a handler counts only when it takes both
        def both(h):
            if h is None or any(nm in ("Exception", "BaseException") for nm in h):
                return True
            return any(nm.endswith("TokenError") for nm in h) and any(nm in ("SyntaxError",) for nm in h)
        return any(both(h) for h in handler_names(cfg_, node_ids))

    unsafe_memo = {}

    def unsafe(f, depth=0):
        """f can let a tokenizer error out: it drives the tokenizer outside a handler, or calls (outside a handler) a method of the highlighter that does"""
        if f.qualname in unsafe_memo:
            return unsafe_memo[f.qualname]
        unsafe_memo[f.qualname] = False
        cfg_ = ctx.cfg(f)
        res = False
        # the tokenizer is a generator: errors surface where it is iterated, i.e. anywhere in this function after it was created
        tok_calls = [c for c in q.calls(f) if isinstance(c.func, ast.Attribute) and isinstance(c.func.value, ast.Name) and c.func.value.id == "tokenize"]
        if tok_calls:
            loops = [n for n in cfg_.nodes if n.kind == "for"]
            sites = [n.id for c in tok_calls for n in cfg_.nodes_of(c)] + [n.id for n in loops]
            if not all(protected(cfg_, [x]) for x in sites):
                res = True
        if not res and depth < 4:
            for cs in ctx.cg.sites_in(f):
                for t in cs.targets:
                    if t.cls is hl_cls and t is not f and unsafe(t, depth + 1) and not protected(cfg_, [n.id for n in cfg_.nodes_of(cs.node)]):
                        res = True
        unsafe_memo[f.qualname] = res
        return res

    n_tok = 0
    for m in sorted(et.methods.values(), key=lambda f: f.name):
        cfg = ctx.cfg(m)
        for cs in ctx.cg.sites_in(m):
            tg = [t for t in cs.targets if t.cls is hl_cls and ctx.cg.reaches(t, lambda f: any(isinstance(c.func, ast.Attribute) and isinstance(c.func.value, ast.Name) and c.func.value.id == "tokenize" for c in q.calls(f)))]
            if not tg:
                continue
            n_tok += 1
            args = list(cs.node.args) + [k.value for k in cs.node.keywords]
            what = "<frame line>" if any(isinstance(x, ast.Attribute) and x.attr == "line" for a in args for x in walk_no_nested(a)) else "<file content>"
            here = protected(cfg, [n.id for n in cfg.nodes_of(cs.node)])
            inside = not any(unsafe(t) for t in tg)
            name_ = cs.node.func.attr if isinstance(cs.node.func, ast.Attribute) else norm(cs.node.func)
            if here or inside:
                r.ok("%s: %s(%s) - tokenizer errors handled %s" % (m.short, name_, what, "at the call" if here else "inside the highlighter"))
            else:
                r.fail(m, cs.node, "%s(%s) without TokenError handler" % (name_, what), "%s hands %s to the tokenizer with no handler for tokenize.TokenError on the way: %s makes rendering the trace raise, "
                       "and with exception catching on the error leaves run()" % (m.short, what, "a frame whose line is an incomplete statement" if what == "<frame line>" else
                                                                                "a frame whose file is not Python source (a template compiled under its own name, a file edited since import)"))
    if n_tok == 0:
        r.vacuous_ok = True
        r.note("no tokenising call left in ExceptionTrace")

    # ---------------------------------------------------------------- R10
    r = ctx.rule("C20-R10", "TABLE", "one notion of 'line' in the snippet: the highlighter normalises line ends to '\\n' and the tokenizer counts "
                 "'\\n' only, so text is cut into lines at '\\n' only - never with str.splitlines(), which also cuts at form feed, "
                 "\\x1c-\\x1e, \\x85, U+2028/9 and shifts every later line number", reference=2)
    hl = ctx.cls("clikit.ui.components.exception_trace.Highlighter")
    for m in sorted(hl.methods.values(), key=lambda f: f.name):
        for c in q.calls(m):
            if isinstance(c.func, ast.Attribute) and c.func.attr == "splitlines":
                r.fail(m, c, norm(c), "%s cuts text into lines with splitlines(): a multi-line token containing a form feed or U+2028 yields more lines than the "
                       "tokenizer counted, so the numbered snippet marks the wrong line" % m.short)
            elif isinstance(c.func, ast.Attribute) and c.func.attr == "split" and c.args and isinstance(c.args[0], ast.Constant) and c.args[0].value == "\n":
                r.ok("%s: %s" % (m.short, norm(c)))
    if r.n == 0:
        r.vacuous_ok = True

    # ---------------------------------------------------------------- R11
    r = ctx.rule("C20-R11", "RANGE", "the one-line form of a frame takes element [0] of the highlighter's answer: a method whose result is subscripted with a constant returns no empty "
                 "literal (a frame without source - exec'd code - has an empty line, not no line)", reference=1)
    n11 = 0
    for m in sorted(et.methods.values(), key=lambda f: f.name):
        for sub in [n for n in walk_no_nested(m.node) if isinstance(n, ast.Subscript) and isinstance(n.slice, ast.Constant) and isinstance(n.slice.value, int) and isinstance(n.value, ast.Call)]:
            cs = ctx.cg.site_for(m, sub.value)
            tg = [t for t in cs.targets if t.cls is hl_cls]
            if not tg:
                continue
            n11 += 1
            empt = [(t, ret) for t in tg for ret in q.returns(t) if isinstance(ret.value, (ast.List, ast.Tuple)) and not ret.value.elts]
            if empt:
                t, ret = empt[0]
                r.fail(t, ret, "%s returns [] but is subscripted [%d]" % (t.name, sub.slice.value), "%s can return an empty list while %s takes element [%d] of its result: a frame without source text makes "
                       "rendering the trace raise IndexError" % (t.short, m.short, sub.slice.value))
            else:
                r.ok("%s: %s never answers with an empty literal" % (m.short, ", ".join(t.short for t in tg)))
    if n11 == 0:
        r.vacuous_ok = True

    # ---------------------------------------------------------------- R12
    r = ctx.rule("C20-R12", "TAINT", "'contains its message text ... every source line verbatim': between the text and the write nothing lossy is applied - no encode with an error handler "
                 "that replaces or drops characters in the trace renderer", reference=1)
    lossy = []
    for m in list(et.methods.values()) + list(hl_cls.methods.values()):
        for c in q.calls(m):
            if isinstance(c.func, ast.Attribute) and c.func.attr in ("encode", "decode"):
                errs = [a for a in list(c.args[1:]) + [k.value for k in c.keywords if k.arg == "errors"] if isinstance(a, ast.Constant) and a.value in ("replace", "ignore", "xmlcharrefreplace", "backslashreplace", "namereplace")]
                if errs:
                    lossy.append((m, c))
    for m, c in lossy:
        r.fail(m, c, norm(c)[:70], "%s squeezes text through `%s`: on that path characters of the message and of the source lines are replaced, so the report no longer contains the message text" % (m.short, norm(c)[:60]))
    if not lossy:
        r.ok("no lossy re-encoding in ExceptionTrace / Highlighter")
    # ---------------------------------------------------------------- R13
    r = ctx.rule("C20-R13", "EXC", "a frame's file name is whatever the code object says ('<string>', a relative name, a template path): the trace renderer applies to it only total "
                 "path functions - a partial one (os.path.commonpath / relpath raise ValueError for a relative or empty name, samefile / getsize / stat raise OSError) "
                 "sits under a handler for that class", reference=0)
    PARTIAL = {"commonpath": "ValueError", "relpath": "ValueError", "commonprefix": None, "samefile": "OSError", "getsize": "OSError", "getmtime": "OSError", "stat": "OSError", "lstat": "OSError",
               "listdir": "OSError", "readlink": "OSError"}
    n13 = 0
    for f in sorted([x for x in p.all_functions() if x.module.name == "clikit.ui.components.exception_trace"], key=lambda x: x.qualname):
        fcfg = ctx.cfg(f)
        for c in q.calls(f):
            nm = c.func.attr if isinstance(c.func, ast.Attribute) else (c.func.id if isinstance(c.func, ast.Name) else None)
            if PARTIAL.get(nm) is None or not (isinstance(c.func, ast.Name) or norm(c.func.value) in ("os.path", "os", "path", "posixpath", "ntpath")):
                continue
            n13 += 1
            need = PARTIAL[nm]
            hs = handler_names(fcfg, [n.id for n in fcfg.nodes_of(c)])
            if any(h is None or any(x in (need, "Exception", "BaseException") or (need == "OSError" and x in ("IOError", "EnvironmentError")) for x in h) for h in hs):
                r.ok("%s: %s under a handler for %s" % (f.short, norm(c.func), need))
            else:
                r.fail(f, c, "%s without a handler for %s" % (norm(c.func), need), "%s calls %s on a frame's file name outside any handler for %s: a frame whose file name is not an absolute path "
                       "('<string>', code compiled under a relative name) makes the trace renderer itself raise, inside the except block of run() - the exception leaks" % (f.short, norm(c.func), need))
    if n13 == 0:
        r.vacuous_ok = True
        r.note("the trace renderer calls no partial path function")

    # ---------------------------------------------------------------- R14
    r = ctx.rule("C20-R14", "GUARD", "'simple mode prints the message only' at every verbosity: the simple arm of render is governed by the `simple` parameter alone - no state of the "
                 "output (debug, verbose, ansi) is conjoined with it", reference=1)
    rnd = et.methods.get("render")
    ctx.require(rnd is not None and "simple" in rnd.params, "ExceptionTrace.render(io, simple) missing")
    n14 = 0
    for ifn in [n for n in walk_no_nested(rnd.node) if isinstance(n, ast.If) and any(isinstance(x, ast.Name) and x.id == "simple" for x in ast.walk(n.test))]:
        neg = isinstance(ifn.test, ast.UnaryOp) and isinstance(ifn.test.op, ast.Not) and isinstance(ifn.test.operand, ast.Name) and ifn.test.operand.id == "simple"
        arm = ifn.orelse if neg else ifn.body
        if not any(isinstance(x, ast.Return) for st in arm for x in ast.walk(st)) and not neg:
            continue
        n14 += 1
        outer = [a_ for a_ in _anc20(ifn) if isinstance(a_, (ast.If, ast.While)) ]
        plain = (isinstance(ifn.test, ast.Name) and ifn.test.id == "simple") or neg
        if plain and not outer:
            r.ok("%s: the message-only arm depends on `simple` alone" % rnd.short)
        else:
            what = norm(ifn.test) if not plain else norm(outer[0].test)
            r.fail(rnd, ifn.test, "simple arm under `%s`" % what[:60], "render takes the message-only arm under `%s`, not under `simple` alone: with simple=True and the other condition false the full trace is "
                   "printed (e.g. at -vvv)" % what)
    if n14 == 0:
        r.fail(rnd, rnd.node, "no simple arm", "render has no arm that is taken when `simple` is true and returns before the full trace")

    # ---------------------------------------------------------------- R15
    r = ctx.rule("C20-R15", "SIBLING", "'on an output that cannot show UTF-8 the snippet uses ASCII marks': every highlighter the trace renderer builds is told what the output supports "
                 "(supports_utf8 = io.supports_utf8()), and every snippet is cut from the frame's file content - the call sites agree", reference=5)
    firsts = {}
    for name_, m_ in sorted(et.methods.items()):
        for c in q.calls(m_):
            if isinstance(c.func, ast.Name) and c.func.id == "Highlighter":
                kw = next((k.value for k in c.keywords if k.arg == "supports_utf8"), c.args[0] if c.args else None)
                if kw is not None and any(isinstance(x, ast.Attribute) and x.attr == "supports_utf8" for x in ast.walk(kw)):
                    r.ok("%s: Highlighter built with the output's UTF-8 support" % m_.short)
                else:
                    r.fail(m_, c, "%s without supports_utf8" % norm(c)[:40], "%s builds a Highlighter with its default (UTF-8 marks) whatever the output supports: on an ASCII / latin-1 stream the arrow and "
                           "bar of the snippet cannot be encoded - UnicodeEncodeError escapes render before the class name and message are written" % m_.short)
            if isinstance(c.func, ast.Attribute) and c.func.attr == "code_snippet" and c.args:
                firsts.setdefault(norm(c.args[0]), []).append((m_, c))
    if len(firsts) > 1:
        ref_txt = max(firsts, key=lambda k: (k.endswith("file_content"), len(firsts[k])))
        for txt, sites in sorted(firsts.items()):
            if txt != ref_txt:
                for m_, c in sites:
                    r.fail(m_, c, "code_snippet(%s, ...)" % txt[:50], "%s cuts the snippet from `%s` while the other call site uses `%s`: when the file cannot be read the single line is shown as line 1 - "
                           "the number, the text and the marker no longer belong together" % (m_.short, txt, ref_txt))
    for txt, sites in sorted(firsts.items()):
        if len(firsts) == 1 or txt == max(firsts, key=lambda k: (k.endswith("file_content"), len(firsts[k]))):
            for m_, c in sites:
                r.ok("%s: snippet cut from %s" % (m_.short, txt))

    # ---------------------------------------------------------------- R16
    r = ctx.rule("C20-R16", "SLICE", "'the marked line is the line of the frame': line i of what the highlighter returns is line i of the source - the source is split as it is, never "
                 "after stripping leading / trailing newlines (a file may start with blank lines)", reference=2)
    n16 = 0
    for name_, m_ in sorted(hl_cls.methods.items()):
        for c in q.calls(m_):
            if isinstance(c.func, ast.Attribute) and c.func.attr in ("split", "splitlines") and (c.func.attr == "splitlines" or (c.args and isinstance(c.args[0], ast.Constant) and c.args[0].value == "\n")):
                n16 += 1
                stripped = [x for x in ast.walk(c.func.value) if isinstance(x, ast.Call) and isinstance(x.func, ast.Attribute) and x.func.attr in ("strip", "lstrip")]
                if stripped:
                    r.fail(m_, c, "%s on a stripped source" % norm(c)[:50], "%s splits the source after `%s`: for a file that starts with blank lines every row moves up - number, text and marker of the "
                           "snippet no longer match" % (m_.short, norm(stripped[0])[:40]))
                else:
                    r.ok("%s: %s" % (m_.short, norm(c)[:50]))
    if n16 == 0:
        r.vacuous_ok = True

    # ---------------------------------------------------------------- R17
    r = ctx.rule("C20-R17", "TABLE", "'frames under the ignored path are hidden': the ignore pattern is a path prefix - it is applied to a frame's file name with match() (anchored at the "
                 "start only), not with fullmatch() or search()", reference=1)
    n17 = 0
    for m_ in sorted(et.methods.values(), key=lambda f: f.name):
        for c in q.calls(m_):
            if isinstance(c.func, ast.Attribute) and c.func.attr in ("match", "fullmatch", "search", "findall") and \
                    any(isinstance(x, ast.Attribute) and x.attr == "_ignore" for x in ast.walk(c)):
                n17 += 1
                if c.func.attr == "match":
                    r.ok("%s: %s" % (m_.short, norm(c)[:60]))
                else:
                    r.fail(m_, c, "ignore pattern applied with %s" % c.func.attr, "%s applies the ignore pattern with %s(): a directory-prefix pattern ('^/path/vendor/') %s - frames the caller asked "
                           "to hide are shown at -v / -vv (or unrelated ones hidden)" % (m_.short, c.func.attr, "no longer matches any file below it" if c.func.attr == "fullmatch" else "matches anywhere in the name"))
    if n17 == 0:
        r.vacuous_ok = True

    return ctx.results


def theme_null_rule(ctx, rule_id, reference=None):
    p = ctx.p
    et = ctx.cls("clikit.ui.components.exception_trace.ExceptionTrace")
    # ---------------------------------------------------------------- R5
    r = ctx.rule(rule_id, "NULL", "a token type that may still be None (no token seen yet: empty or source-less code) "
                 "is never used as key into the theme table", reference=reference)
    mod = et.module
    for fi in [f for f in p.all_functions() if f.module is mod]:
        cfg = ctx.cfg(fi)
        none_defs = {}
        other_defs = {}
        for n in cfg.nodes:
            if n.kind == "stmt" and isinstance(n.ast, ast.Assign):
                for t in n.ast.targets:
                    if isinstance(t, ast.Name):
                        if isinstance(n.ast.value, ast.Constant) and n.ast.value.value is None:
                            none_defs.setdefault(t.id, []).append(n)
                        else:
                            other_defs.setdefault(t.id, []).append(n)
        if not none_defs:
            continue
        for sub in [x for x in walk_no_nested(fi.node) if isinstance(x, ast.Subscript)]:
            if not (isinstance(sub.slice, ast.Name) and sub.slice.id in none_defs):
                continue
            if not (isinstance(sub.value, ast.Attribute) and isinstance(sub.value.value, ast.Name) and sub.value.value.id == "self"):
                continue
            v = sub.slice.id
            safe = set(n.id for n in other_defs.get(v, []))
            for c in cfg.nodes:
                if c.kind in ("T", "F") and isinstance(c.ast, ast.Compare) and isinstance(c.ast.left, ast.Name) and c.ast.left.id == v \
                        and len(c.ast.ops) == 1 and isinstance(c.ast.comparators[0], ast.Constant) and c.ast.comparators[0].value is None:
                    if (isinstance(c.ast.ops[0], ast.IsNot) and c.kind == "T") or (isinstance(c.ast.ops[0], ast.Is) and c.kind == "F"):
                        safe.add(c.id)
            bad = False
            for un in cfg.nodes_of(sub):
                for d in none_defs[v]:
                    if not cfg.all_paths_hit(d.id, safe, [un.id]):
                        bad = True
            desc = "%s: %s" % (fi.short, norm(sub))
            if bad:
                r.fail(fi, sub, norm(sub) + " @" + _arm(sub), "%s can still be None here (no token has set it yet: empty / unavailable source), "
                       "so %s raises KeyError and the trace fails to render" % (v, norm(sub)))
            else:
                r.ok(desc)
    return r


def _arm(node):
    """Normalised text of the innermost enclosing if-test (keeps keys stable and distinct per arm)."""
    for a in _ancestors(node):
        if isinstance(a, ast.If):
            return norm(a.test)
    return "top"


def _ancestors(n):
    p = getattr(n, "_parent", None)
    while p is not None:
        yield p
        p = getattr(p, "_parent", None)
