"""C03 - the resolver selects the deepest command named by the leading tokens."""
import ast

from ..loader import ClassInfo, walk_no_nested, norm, is_self_attr
from ..cfg import guarded_by
from .. import q


def _dash_prefix_test(e, var):
    """token[0] == '-' | token[:1] == '-' | token.startswith('-')  (on ``var``)"""
    if isinstance(e, ast.Compare) and len(e.ops) == 1 and isinstance(e.ops[0], ast.Eq):
        for a, b in ((e.left, e.comparators[0]), (e.comparators[0], e.left)):
            if isinstance(b, ast.Constant) and b.value == "-" and isinstance(a, ast.Subscript) and isinstance(a.value, ast.Name) and a.value.id == var:
                sl = a.slice
                if isinstance(sl, ast.Constant) and sl.value == 0:
                    return True
                if isinstance(sl, ast.Slice) and sl.lower is None and isinstance(sl.upper, ast.Constant) and sl.upper.value == 1:
                    return True
    if isinstance(e, ast.Call) and isinstance(e.func, ast.Attribute) and e.func.attr == "startswith" and isinstance(e.func.value, ast.Name) \
            and e.func.value.id == var and e.args and isinstance(e.args[0], ast.Constant) and e.args[0].value == "-":
        return True
    return False


def _sep_test(e, var):
    if isinstance(e, ast.Compare) and len(e.ops) == 1 and isinstance(e.ops[0], ast.Eq):
        for a, b in ((e.left, e.comparators[0]), (e.comparators[0], e.left)):
            if isinstance(a, ast.Name) and a.id == var and isinstance(b, ast.Constant) and b.value == "--":
                return True
    return False


def run(ctx):
    p, cg = ctx.p, ctx.cg
    coll = ctx.cls("clikit.api.command.command_collection.CommandCollection")
    res = ctx.cls("clikit.resolver.default_resolver.DefaultResolver")

    # ---------------------------------------------------------------- R1
    r = ctx.rule("C03-R1", "SIBLING", "every index CommandCollection.add records is consulted by get and by "
                 "__contains__ (a name, short name or alias is found by 'in' iff found by get); nobody outside the "
                 "class touches the indices", reference=6)
    add, get, cont = coll.methods.get("add"), coll.methods.get("get"), coll.methods.get("__contains__")
    ctx.require(add and get and cont, "CommandCollection.add/get/__contains__ missing")
    written = set()
    for n in walk_no_nested(add.node):
        if isinstance(n, ast.Assign):
            for t in n.targets:
                if isinstance(t, ast.Subscript) and is_self_attr(t.value):
                    written.add(t.value.attr)

    def consulted(fn):
        out = set()
        for n in walk_no_nested(fn.node):
            if isinstance(n, ast.Compare) and len(n.ops) == 1 and isinstance(n.ops[0], ast.In) and is_self_attr(n.comparators[0]):
                out.add(n.comparators[0].attr)
            if isinstance(n, ast.Call) and isinstance(n.func, ast.Attribute) and n.func.attr in ("get", "__contains__") and is_self_attr(n.func.value):
                out.add(n.func.value.attr)
        # any(key in index for index in (self._a, self._b, ...)) - the tuple may be held in a local
        tuples = {t.id: a.value for a in walk_no_nested(fn.node) if isinstance(a, ast.Assign) and isinstance(a.value, (ast.Tuple, ast.List)) for t in a.targets if isinstance(t, ast.Name)}
        for n in ast.walk(fn.node):
            if isinstance(n, (ast.GeneratorExp, ast.ListComp)) and len(n.generators) == 1 and isinstance(n.generators[0].target, ast.Name):
                g = n.generators[0]
                src = tuples.get(g.iter.id) if isinstance(g.iter, ast.Name) else g.iter
                if isinstance(src, (ast.Tuple, ast.List)) and isinstance(n.elt, ast.Compare) and isinstance(n.elt.ops[0], ast.In) and isinstance(n.elt.comparators[0], ast.Name) and n.elt.comparators[0].id == g.target.id:
                    out |= {e.attr for e in src.elts if is_self_attr(e)}
        return out
    cg_, cc_ = consulted(get), consulted(cont)
    for idx in sorted(written | cg_ | cc_):
        miss = [nm for nm, s in (("add", written), ("get", cg_), ("__contains__", cc_)) if idx not in s]
        if not miss:
            r.ok("index %s: written by add, consulted by get and __contains__" % idx)
        else:
            fn = {"add": add, "get": get, "__contains__": cont}[miss[0]]
            r.fail(fn, fn.node, "index %s not in %s" % (idx, "/".join(miss)),
                   "CommandCollection index %s is not handled by %s: a command registered under that kind of name is %s" %
                   (idx, ", ".join(miss), "never found" if "add" not in miss else "looked up but never recorded"))
    # get dereferences the secondary indices into the primary one
    for n in walk_no_nested(get.node):
        if isinstance(n, ast.Return) and isinstance(n.value, ast.Subscript) and is_self_attr(n.value.value):
            inner = n.value.slice
            if isinstance(inner, ast.Subscript) and is_self_attr(inner.value):
                # self._commands[self._alias_index[name]] must be under 'name in self._alias_index'
                cfg = ctx.cfg(get)
                idx = inner.value.attr
                g = guarded_by(cfg, cfg.node_of(n), lambda e, idx=idx: isinstance(e, ast.Compare) and isinstance(e.ops[0], ast.In) and is_self_attr(e.comparators[0], idx), polarity=True)
                if g is not None:
                    r.ok("get: %s under its own membership test" % norm(n.value))
                else:
                    r.fail(get, n, norm(n), "secondary index dereferenced without the matching membership test")
    # a token that IS a command's name selects that command: the primary index is asked with the name as given, before
    # any translation through the short-name / alias indices
    gcfg = ctx.cfg(get)
    gprm = [a for a in get.params if a != "self"]
    prim_tests = [c for c in gcfg.conds() if isinstance(c.ast, ast.Compare) and isinstance(c.ast.ops[0], ast.In) and is_self_attr(c.ast.comparators[0], "_commands")
                  and isinstance(c.ast.left, ast.Name) and c.ast.left.id in gprm]
    if prim_tests:
        for c in prim_tests:
            x = c.ast.left.id
            pre = [w for w in gcfg.writes(lambda t, x=x: t == x) if c.id in gcfg.reach([w.id])]
            if pre:
                r.fail(get, pre[0].ast, norm(pre[0].ast) + " before the name test", "CommandCollection.get translates its argument through a secondary index (%s) before testing it as a name: "
                       "a token that is one command's name and another's alias selects the wrong command" % norm(pre[0].ast))
            else:
                r.ok("get: the name as given is tested against the primary index first")
    # who-may-touch
    priv = written | {"_commands"}
    for fi in p.all_functions():
        if fi.cls is coll:
            continue
        for n in walk_no_nested(fi.node):
            if isinstance(n, ast.Attribute) and n.attr in priv and not (isinstance(n.value, ast.Name) and n.value.id in ("self", "cls")):
                t = ctx.typer.expr_type(n.value, fi)
                if coll in t.classes:
                    r.fail(fi, n, norm(n), "%s reaches into CommandCollection.%s directly" % (fi.short, n.attr))

    # ---------------------------------------------------------------- R2
    r = ctx.rule("C03-R2", "GUARD", "a token becomes a candidate command name only if it is neither '--' nor an "
                 "option, and the first such token ends the scan", reference=1)
    gat = res.methods.get("get_arguments_to_test")
    ctx.require(gat is not None, "DefaultResolver.get_arguments_to_test missing")
    cfg = ctx.cfg(gat)
    appends = [c for c in q.calls(gat) if isinstance(c.func, ast.Attribute) and c.func.attr == "append" and c.args and isinstance(c.args[0], ast.Name)]
    ctx.require(appends, "no candidate append in get_arguments_to_test")
    for c in appends:
        var = c.args[0].id
        an = cfg.node_of(c)
        dash_f = set(n.id for n in cfg.nodes if n.kind == "F" and _dash_prefix_test(n.ast, var))
        # an empty token has no dash prefix: the false edge of an emptiness test counts too
        empty_f = set(n.id for n in cfg.nodes if n.kind == "F" and (
            (isinstance(n.ast, ast.Subscript) and isinstance(n.ast.value, ast.Name) and n.ast.value.id == var and isinstance(n.ast.slice, ast.Slice))
            or (isinstance(n.ast, ast.Name) and n.ast.id == var and False)))
        loops = cfg.enclosing_loops(c)
        heads = [n.id for n in cfg.nodes if n.kind in ("loop", "loop_body") and loops and n.ast is loops[0]]
        g = True if (dash_f and heads and all(cfg.all_paths_hit(h, dash_f | empty_f, [an.id]) for h in heads)) else None
        stops_t = [n for n in cfg.nodes if n.kind == "T" and (_dash_prefix_test(n.ast, var) or _sep_test(n.ast, var))]
        leak = [t for t in stops_t if an.id in cfg.reach([t.id])]
        if g is None:
            r.fail(gat, c, norm(c), "a token is taken as a candidate command name without an 'is it an option?' test on it")
        elif leak:
            r.fail(gat, c, norm(c), "after an option or '--' the scan goes on and later tokens still become candidate names")
        else:
            r.ok("%s: %s guarded, scan stops at first option/'--'" % (gat.short, norm(c)))

    # ---------------------------------------------------------------- R3
    r = ctx.rule("C03-R3", "ORDER", "the walk down the command tree stops at the first token that names no "
                 "(sub-)command, and descends through *named* sub-commands", reference=2)
    pa0 = res.methods.get("process_arguments")
    ctx.require(pa0 is not None, "DefaultResolver.process_arguments missing")
    # the walk may live in a private helper: take the function (process_arguments or a method it calls
    # on self) that holds the loop with the membership test
    cand = [pa0] + [t for cs in cg.sites_in(pa0) for t in cs.targets if t.cls is not None and res in t.cls.mro and t.name.startswith("_")]
    pa = pa0
    for f in cand:
        if any(isinstance(n, ast.For) and any(isinstance(x, ast.Compare) and isinstance(x.ops[0], (ast.In, ast.NotIn)) for x in walk_no_nested(n)) for n in walk_no_nested(f.node)):
            pa = f
            break
    cfg = ctx.cfg(pa)
    miss_edges = []
    for n in cfg.nodes:
        if n.kind in ("T", "F") and isinstance(n.ast, ast.Compare) and len(n.ast.ops) == 1:
            op = n.ast.ops[0]
            if (isinstance(op, ast.NotIn) and n.kind == "T") or (isinstance(op, ast.In) and n.kind == "F"):
                miss_edges.append(n)
    ctx.require(miss_edges, "no membership test in process_arguments")
    gets = [cfg.node_of(c) for c in q.method_calls(pa, "get")]
    for m in miss_edges:
        reach = cfg.reach([m.id])
        if any(g is not None and g.id in reach for g in gets):
            r.fail(pa, m.ast, norm(m.ast), "after a token that names no command the walk continues with later tokens")
        else:
            r.ok("%s: miss on %s leaves the loop" % (pa.short, norm(m.ast)))
    # descent
    coll_var = None
    for m in miss_edges:
        if isinstance(m.ast.comparators[0], ast.Name):
            coll_var = m.ast.comparators[0].id
    redefs = [n for n in walk_no_nested(pa.node) if isinstance(n, ast.Assign) and any(isinstance(t, ast.Name) and t.id == coll_var for t in n.targets)
              and any(isinstance(a, (ast.For, ast.While)) for a in _anc(n))]
    if not redefs:
        r.fail(pa, pa.node, "no descent", "the walk never descends into sub-commands")
    for d in redefs:
        if isinstance(d.value, ast.Attribute) and d.value.attr == "named_sub_commands":
            r.ok("%s: descent through %s" % (pa.short, norm(d.value)))
        else:
            r.fail(pa, d, norm(d), "the walk descends through %s instead of the named sub-commands (anonymous ones must not be selectable by name)" % norm(d.value))

    # ---------------------------------------------------------------- R4
    r = ctx.rule("C03-R4", "ORDER", "a non-empty list of unmatched leading tokens raises the undefined-command error "
                 "before any default command is considered", reference=1)
    rs = res.methods.get("resolve")
    cfg = ctx.cfg(rs)
    dflt = [cfg.node_of(c) for c in q.method_calls(rs, "process_default_commands")]
    cand_var = None
    for n in walk_no_nested(rs.node):
        if isinstance(n, ast.Assign) and isinstance(n.value, ast.Call) and isinstance(n.value.func, ast.Attribute) and n.value.func.attr == "get_arguments_to_test":
            cand_var = n.targets[0].id if isinstance(n.targets[0], ast.Name) else None
    ctx.require(dflt and cand_var, "process_default_commands call / candidate list not found in resolve")
    empt = set(n.id for n in cfg.nodes if n.kind == "F" and isinstance(n.ast, ast.Name) and n.ast.id == cand_var)
    nonempty = [n for n in cfg.nodes if n.kind == "T" and isinstance(n.ast, ast.Name) and n.ast.id == cand_var]
    for d in dflt:
        if empt and cfg.all_paths_hit(cfg.entry.id, empt, [d.id]):
            r.ok("%s: defaults considered only when no candidate tokens" % rs.short)
        else:
            r.fail(rs, d.ast, norm(d.ast), "the default command can be chosen although leading tokens that name no command were given")
    for t in nonempty:
        if not cfg.inevitably_raises(t.id):
            r.fail(rs, t.ast, "if " + cand_var, "unmatched leading tokens do not inevitably raise the undefined-command error")

    # ---------------------------------------------------------------- R5
    r = ctx.rule("C03-R5", "TABLE", "commands are registered the same way at application and sub-command level: "
                 "disabled -> nowhere, default -> default collection, not anonymous -> named collection", reference=6)
    app_add = ctx.func("ConsoleApplication.add_command")
    sub_add = ctx.func("Command.add_sub_command")
    tables = {}
    own_tests = []
    def _conds_at(fn_, cfg_, node_):
        out = []
        for e in cfg_.nodes:
            if e.kind in ("T", "F") and cfg_.dominates(e.id, node_.id) and isinstance(e.ast, ast.Call) and isinstance(e.ast.func, ast.Attribute):
                out.append((e.ast.func.attr, e.kind == "T"))
                rcv = e.ast.func.value
                while isinstance(rcv, (ast.Attribute, ast.Call)):
                    rcv = rcv.value if isinstance(rcv, ast.Attribute) else rcv.func
                if isinstance(rcv, ast.Name) and rcv.id == "self" and e.ast.func.attr in ("is_enabled", "is_default", "is_anonymous"):
                    own_tests.append((fn_, e.ast))
        return out

    for fn in (app_add, sub_add):
        cfg = ctx.cfg(fn)
        tab = {}
        # the filing may sit in a private helper of the same object that is handed the command and its config
        scopes = [(fn, cfg, [])]
        for c in q.calls(fn):
            if isinstance(c.func, ast.Attribute) and isinstance(c.func.value, ast.Name) and c.func.value.id == "self" and fn.cls is not None and c.func.attr.startswith("_") and c.func.attr in fn.cls.methods:
                h = fn.cls.methods[c.func.attr]
                if q.method_calls(h, "add"):
                    scopes.append((h, ctx.cfg(h), _conds_at(fn, cfg, cfg.node_of(c))))
        for fn_, cfg_, outer in scopes:
            for c in q.method_calls(fn_, "add"):
                if not is_self_attr(c.func.value):
                    continue
                role = "default" if "default" in c.func.value.attr else ("named" if "named" in c.func.value.attr else "all")
                tab[role] = tuple(sorted(outer + _conds_at(fn_, cfg_, cfg_.node_of(c))))
        tables[fn.short] = tab
    want = {"all": (("is_enabled", True),), "default": (("is_default", True), ("is_enabled", True)), "named": (("is_anonymous", False), ("is_enabled", True))}
    for fn in (app_add, sub_add):
        tab = tables[fn.short]
        for role in ("all", "default", "named"):
            got = tab.get(role)
            if got == want[role]:
                r.ok("%s: %s collection under %s" % (fn.short, role, got))
            else:
                r.fail(fn, fn.node, "%s collection under %s" % (role, got), "%s registers into the %s collection under %s, expected %s" % (fn.short, role, got, want[role]))
    seen_own = set()
    for fn, e in own_tests:
        if norm(e) in seen_own:
            continue
        seen_own.add(norm(e))
        r.fail(fn, e, norm(e) + " asks the parent", "%s decides the registration of the command being added by asking `%s`, which is the configuration of the "
               "object it is added TO: a disabled (default / anonymous) sub-command is registered according to its parent's marker" % (fn.short, norm(e)))

    # ---------------------------------------------------------------- R7
    r = ctx.rule("C03-R7", "SENTINEL", "a scan that draws tokens with next(it, None) tests the sentinel it asked for, "
                 "not truthiness (an empty-string token is a token)", reference=2)
    for fi in [f for f in p.all_functions() if f.module.name.startswith("clikit.resolver")]:
        drawn = set()
        for n in walk_no_nested(fi.node):
            if isinstance(n, ast.Assign) and isinstance(n.value, ast.Call) and isinstance(n.value.func, ast.Name) and n.value.func.id == "next" \
                    and len(n.value.args) == 2 and isinstance(n.value.args[1], ast.Constant) and n.value.args[1].value is None:
                for t in n.targets:
                    if isinstance(t, ast.Name):
                        drawn.add(t.id)
        for n in walk_no_nested(fi.node):
            if isinstance(n, ast.While):
                t = n.test
                if isinstance(t, ast.Name) and t.id in drawn:
                    r.fail(fi, n, "while " + t.id, "the loop ends on a falsy token: an empty-string argument is taken for the end of the command line "
                           "(so `app \"\"` runs the default command instead of reporting an undefined command)")
                elif isinstance(t, ast.Compare) and isinstance(t.left, ast.Name) and t.left.id in drawn and isinstance(t.ops[0], ast.IsNot):
                    r.ok("%s: while %s" % (fi.short, norm(t)))
    if r.n == 0:
        r.vacuous_ok = True
        r.note("no sentinel-drawing scan loops in the resolver any more")

    # ---------------------------------------------------------------- R8
    r = ctx.rule("C03-R8", "OWNER", "options after the command path never change the selection: the option pass hands "
                 "on exactly the command it was given", reference=2)
    po = res.methods.get("process_options")
    if po is None:
        r.vacuous_ok = True
        r.note("no separate option pass")
    else:
        cmd_param = [x for x in q.param_names(po) if "command" in x]
        ctx.require(cmd_param, "process_options has no command parameter")
        cp = cmd_param[0]
        rebinds = [n for n in walk_no_nested(po.node) if isinstance(n, (ast.Assign, ast.AugAssign)) and any(isinstance(t, ast.Name) and t.id == cp for t in (n.targets if isinstance(n, ast.Assign) else [n.target]))]
        if rebinds:
            r.fail(po, rebinds[0], norm(rebinds[0]), "the option pass replaces the selected command (%s): an option named like a sub-command changes the selection" % norm(rebinds[0]))
        else:
            r.ok("%s: %s never rebound" % (po.short, cp))
        for ret in q.returns(po):
            if ret.value is None:
                continue
            args_ok = isinstance(ret.value, ast.Call) and any(isinstance(a, ast.Name) and a.id == cp for a in ret.value.args)
            if args_ok:
                r.ok("%s: hands %s on to %s" % (po.short, cp, norm(ret.value.func)))
            else:
                r.fail(po, ret, norm(ret), "the option pass returns something that is not derived from the command it was given")

    # ---------------------------------------------------------------- R9
    r = ctx.rule("C03-R9", "SIBLING", "the markers 'default' and 'anonymous' of a command config are always written "
                 "together (marking a command default makes it reachable by name again)", reference=3)
    cc = ctx.cls("clikit.api.config.command_config.CommandConfig")
    marker_methods = {}
    for name in ("default", "anonymous"):
        m = cc.methods.get(name)
        ctx.require(m is not None, "CommandConfig.%s missing" % name)
        marker_methods[name] = {t.attr for n in walk_no_nested(m.node) if isinstance(n, ast.Assign) for t in n.targets if is_self_attr(t)}
    union = set().union(*marker_methods.values())
    for name, fields in sorted(marker_methods.items()):
        if fields == union:
            r.ok("CommandConfig.%s writes %s" % (name, sorted(fields)))
        else:
            m = cc.methods[name]
            r.fail(m, m.node, "CommandConfig.%s writes %s" % (name, sorted(fields)), "CommandConfig.%s() does not write %s: a config that was marked with the other "
                   "marker before keeps its old value (e.g. stays anonymous, unreachable by name)" % (name, sorted(union - fields)))
    d = cc.methods["default"]
    anon_false = [n for n in walk_no_nested(d.node) if isinstance(n, ast.Assign) and any(is_self_attr(t, "_anonymous") for t in n.targets) and isinstance(n.value, ast.Constant) and n.value.value is False]
    if anon_false:
        r.ok("CommandConfig.default() clears the anonymous marker")

    # ---------------------------------------------------------------- R10
    r = ctx.rule("C03-R10", "ORDER", "a command with default sub-commands continues into them: the command itself is "
                 "selected only when there is no default sub-command result at all", reference=1)
    pds = res.methods.get("process_default_sub_commands")
    ctx.require(pds is not None, "process_default_sub_commands missing")
    cfg = ctx.cfg(pds)
    res_var = None
    for n in walk_no_nested(pds.node):
        if isinstance(n, ast.Assign) and isinstance(n.value, ast.Call) and isinstance(n.value.func, ast.Attribute) and n.value.func.attr == "process_default_commands":
            res_var = n.targets[0].id if isinstance(n.targets[0], ast.Name) else None
    ctx.require(res_var, "process_default_sub_commands does not ask for the default sub-commands")
    own = [n for n in cfg.nodes if n.kind in ("return", "stmt") and isinstance(getattr(n.ast, "value", None), ast.Call) and norm(n.ast.value.func).endswith("ResolveResult")]
    ctx.require(own, "process_default_sub_commands never falls back to the command itself")
    t_edges = [e for e in cfg.nodes if e.kind == "T" and isinstance(e.ast, ast.Name) and e.ast.id == res_var]
    if not t_edges:
        r.fail(pds, pds.node, "no test of the default result", "the result of the default sub-commands is never tested")
    for o in own:
        leak = [t for t in t_edges if o.id in cfg.reach([t.id])]
        if leak:
            r.fail(pds, o.ast, norm(o.ast), "the command itself can be selected although a default sub-command was found (an extra condition on the default's result): "
                   "its parse error is hidden and the parent's handler runs")
        else:
            r.ok("%s: own result only when no default sub-command exists" % pds.short)

    # ---------------------------------------------------------------- R12
    r = ctx.rule("C03-R12", "TABLE", "the marker getters of a command config answer with the marker: a field that only ever holds a boolean (initialised "
                 "with True/False, set from a boolean parameter) is returned as it is, not compared with None (`default(False)` must un-mark)", reference=8)
    for ci in [c for c in p.classes.values() if c.module.name.startswith("clikit.api.config")]:
        init_ = ci.methods.get("__init__")
        if init_ is None:
            continue
        bool_fields = {t.attr for n in walk_no_nested(init_.node) if isinstance(n, ast.Assign) and isinstance(n.value, ast.Constant) and isinstance(n.value.value, bool) for t in n.targets if is_self_attr(t)}
        # ... and fields that a setter fills with a boolean constant or a parameter whose default is one (False is then a value the field can hold)
        for m2 in ci.methods.values():
            bparams = {k for k, d in m2.defaults.items() if isinstance(d, ast.Constant) and isinstance(d.value, bool)}
            for n in walk_no_nested(m2.node):
                if isinstance(n, ast.Assign) and ((isinstance(n.value, ast.Constant) and isinstance(n.value.value, bool)) or (isinstance(n.value, ast.Name) and n.value.id in bparams)):
                    bool_fields |= {t.attr for t in n.targets if is_self_attr(t)}
        for name_, m_ in sorted(ci.methods.items()):
            if not name_.startswith("is_"):
                continue
            for ret in q.returns(m_):
                if ret.value is None:
                    continue
                flds = {x.attr for x in walk_no_nested(ret.value) if is_self_attr(x) and x.attr in bool_fields}
                if not flds:
                    continue
                none_cmp = [x for x in walk_no_nested(ret.value) if isinstance(x, ast.Compare) and isinstance(x.ops[0], (ast.Is, ast.IsNot)) and isinstance(x.comparators[0], ast.Constant)
                            and x.comparators[0].value is None and is_self_attr(x.left) and x.left.attr in bool_fields]
                if none_cmp:
                    r.fail(m_, ret, norm(ret), "%s.%s compares the boolean marker self.%s with None: it is true whatever was set, so un-marking (`%s(False)`) has no effect" %
                           (ci.name, name_, none_cmp[0].left.attr, name_[3:]))
                else:
                    r.ok("%s.%s returns the marker %s" % (ci.name, name_, ", ".join(sorted(flds))))

    # ---------------------------------------------------------------- R13
    from .c06 import base_recursion_rule

    r = ctx.rule("C03-R13", "SIBLING", "the expected path of command names of a deeply nested command is complete: a format asks its base format for the base's "
                 "full listing (the base fall-through is recursive - no include_base=False on the call to the base)", reference=30)
    base_recursion_rule(ctx, r)

    # ---------------------------------------------------------------- R14
    from .c17 import leniency_pair_rule

    r = ctx.rule("C03-R14", "PAIR", "which default sub-command is selected ('first parsable') does not depend on an earlier help request: the leniency switched on "
                 "for a command during help resolution is switched back on every exit (same rule as C17-R2)", reference=1)
    leniency_pair_rule(ctx, r)

    # ---------------------------------------------------------------- R11
    r = ctx.rule("C03-R11", "EXC", "'first parsable default' is decided by the cannot-parse error alone: the handler around the trial parse "
                 "in ResolveResult catches that class (or subclasses) and nothing else - an unknown option still escapes instead of "
                 "silently moving the selection to another default", reference=1)
    rr = ctx.cls("clikit.resolver.resolve_result.ResolveResult")
    cannot = ctx.cls("clikit.api.args.exceptions.CannotParseArgsException")
    trial = []
    for m in rr.methods.values():
        for c in q.calls(m):
            if isinstance(c.func, ast.Attribute) and c.func.attr == "parse":
                trial.append((m, c))
    ctx.require(trial, "ResolveResult no longer parses the raw args of its command")
    for m, c in trial:
        cfg = ctx.cfg(m)
        caught_all = []
        for cn in cfg.nodes_of(c):
            for s_, k in cfg.succ[cn.id]:
                sn = cfg.nodes[s_]
                if k == "e" and sn.kind == "except":
                    caught_all.append((sn.ast, cfg._handler_classes(sn.ast)))
        if not caught_all:
            r.fail(m, c, norm(c) + " unprotected", "the trial parse is not protected: a command line that the first default cannot parse raises instead of trying the next default")
            continue
        ok_ = True
        has = False
        for h, classes in caught_all:
            if classes == []:
                r.fail(m, h, "bare except around trial parse", "the trial parse swallows every exception")
                ok_ = False
                continue
            for k_ in classes:
                if isinstance(k_, ClassInfo) and cannot in k_.mro:
                    has = True
                else:
                    nm = getattr(k_, "name", None) or getattr(k_, "__name__", None) or "?"
                    r.fail(m, h, "trial parse also catches " + nm, "ResolveResult treats %s as 'this default cannot parse the line' too: adding an option that only a later "
                           "default knows silently changes the selected command instead of raising" % nm)
                    ok_ = False
        if not has:
            r.fail(m, c, norm(c) + " cannot-parse not caught", "the cannot-parse error is not caught around the trial parse")
        elif ok_:
            r.ok("%s: %s under except %s only" % (m.short, norm(c), cannot.name))

    # ---------------------------------------------------------------- R15
    r = ctx.rule("C03-R15", "KEY", "'with no leading tokens the application's default command is selected': on the empty-line arm of resolve, what is resolved is what "
                 "process_default_commands chose - its result goes to create_resolved_command as it is, not through the sub-command walk", reference=1)
    rs = res.methods.get("resolve")
    ctx.require(rs is not None, "DefaultResolver.resolve missing")
    rcfg = ctx.cfg(rs)
    n15 = 0
    for n in rcfg.nodes:
        if n.kind != "stmt" or not isinstance(n.ast, ast.Assign) or not (isinstance(n.ast.value, ast.Call) and isinstance(n.ast.value.func, ast.Attribute) and n.ast.value.func.attr == "process_default_commands"):
            continue
        var = n.ast.targets[0].id if isinstance(n.ast.targets[0], ast.Name) else None
        others = [w.id for w in rcfg.writes(lambda t: t == var) if w.id != n.id]
        for ret in [x for x in rcfg.nodes if x.kind == "return" and x.id in rcfg.reach([n.id], blocked=others)]:
            v = ret.ast.value
            if not (isinstance(v, ast.Call) and isinstance(v.func, ast.Attribute) and v.func.attr == "create_resolved_command"):
                continue
            n15 += 1
            a0 = v.args[0] if v.args else None
            if isinstance(a0, ast.Name) and a0.id == var:
                r.ok("%s: the default command chosen is resolved as it is" % rs.short)
            else:
                r.fail(rs, ret.ast, "empty-line arm resolves %s" % norm(a0)[:60], "%s does not resolve the command that process_default_commands chose but %s: an empty line no longer selects the application's "
                       "default command (when the default has a default sub-command of its own, that one runs, or the line is rejected)" % (rs.short, norm(a0)[:80]))
    ctx.require(n15 >= 1, "the empty-line arm of DefaultResolver.resolve (process_default_commands -> create_resolved_command) was not found")

    # ---------------------------------------------------------------- R16
    r = ctx.rule("C03-R16", "ORDER", "'every tree of commands': the tree is built from the configuration as the CONFIG listeners left it - in the application's constructor the "
                 "CONFIG event is dispatched before the first command is added and before the command configs are read", reference=1)
    capp = ctx.cls("clikit.console_application.ConsoleApplication")
    ci = capp.methods.get("__init__")
    ctx.require(ci is not None, "ConsoleApplication.__init__ missing")
    icfg = ctx.cfg(ci)
    disp = [x for c in q.calls(ci) if isinstance(c.func, ast.Attribute) and c.func.attr == "dispatch" and c.args and norm(c.args[0]).endswith("CONFIG") for x in icfg.nodes_of(c)]
    if not disp:
        r.vacuous_ok = True
        r.note("the constructor dispatches no CONFIG event")
    else:
        uses = [x for c in q.calls(ci) if isinstance(c.func, ast.Attribute) and c.func.attr in ("add_command", "add_commands") for x in icfg.nodes_of(c)]
        uses += [x for a in walk_no_nested(ci.node) if isinstance(a, ast.Attribute) and a.attr in ("command_configs", "default_commands") and isinstance(a.value, ast.Name) and a.value.id == "config" for x in icfg.nodes_of(a)]
        early = [u for u in uses if any(d.id in icfg.reach_strict(u.id) for d in disp)]
        if early:
            r.fail(ci, early[0].ast, "command tree built before the CONFIG event", "%s builds (part of) the command tree before it dispatches the CONFIG event: commands, sub-commands and default flags a CONFIG "
                   "listener adds never reach the tree - such a command is reported as not defined" % ci.short)
        else:
            r.ok("%s: CONFIG is dispatched before %d uses of the command configuration" % (ci.short, len(uses)))
    ctx.borrow("c05", "C05-R8", "C03-R17", "'first parsable default': whether a default sub-command can parse the line is decided on a parser of its own - a configuration does not keep one default parser for all commands and threads (an overlapping parse makes a parsable default count as unparsable) (same rule as C05-R8)")
    # ---------------------------------------------------------------- R18
    r = ctx.rule("C03-R18", "OWNER", "'replacing a name by any of its aliases' - and by no other command's: a list a configuration object goes on changing in place (add_alias, "
                 "add_..., item stores) is its own - no method binds such a field to a list the caller passed in (two commands configured from one alias list would share every "
                 "alias added to either later)", reference=10)
    n18 = 0
    for c_ in sorted(p.classes.values(), key=lambda k: k.qualname):
        if not c_.module.name.startswith(("clikit.api.config", "clikit.api.command", "clikit.config")):
            continue
        mutated = set()
        for m_ in c_.methods.values():
            for x in q.calls(m_):
                if isinstance(x.func, ast.Attribute) and x.func.attr in q.MUTATORS and is_self_attr(x.func.value):
                    mutated.add(x.func.value.attr)
            for n_ in walk_no_nested(m_.node):
                if isinstance(n_, (ast.Assign, ast.Delete)):
                    for t in n_.targets:
                        if isinstance(t, ast.Subscript) and is_self_attr(t.value):
                            mutated.add(t.value.attr)
        for f_ in sorted(mutated):
            n18 += 1
            bad = None
            for m_ in c_.methods.values():
                for n_ in walk_no_nested(m_.node):
                    if isinstance(n_, ast.Assign) and isinstance(n_.value, ast.Name) and n_.value.id in m_.params and n_.value.id != "self" and any(is_self_attr(t, f_) for t in n_.targets):
                        bad = (m_, n_)
            if bad:
                r.fail(bad[0], bad[1], norm(bad[1]), "%s keeps the caller's object in self.%s, a field that other methods of %s change in place: whoever else holds that list (another command "
                       "configured from the same list) sees every later addition - e.g. an alias added to one command also selects the other" % (bad[0].short, f_, c_.name))
            else:
                r.ok("%s.%s: changed in place, never bound to a caller's object" % (c_.name, f_))
    ctx.require(n18 >= 1, "no configuration field that is changed in place was found")

    return ctx.results


def _anc(n):
    p = getattr(n, "_parent", None)
    while p is not None:
        yield p
        p = getattr(p, "_parent", None)
