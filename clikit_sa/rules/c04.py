"""C04 - a run always ends in a valid exit status and never leaks a handler failure."""
import ast
import builtins

from ..loader import walk_no_nested, norm, ClassInfo
from ..cfg import guarded_by
from ..interval import Intervals, INF
from .. import q
from .c20 import taint_rule


def _in(iv, lo, hi):
    return iv is not None and iv[0] >= lo and iv[1] <= hi


def run(ctx):
    p, cg = ctx.p, ctx.cg
    app = ctx.cls("clikit.console_application.ConsoleApplication")
    cmd = ctx.cls("clikit.api.command.command.Command")
    run_fn = app.methods.get("run")
    handle = cmd.methods.get("handle")
    do_handle = cmd.methods.get("_do_handle")
    x2c = app.methods.get("exception_to_exit_code")
    ctx.require(run_fn and handle and do_handle, "ConsoleApplication.run / Command.handle / Command._do_handle missing")
    iv = Intervals(ctx)

    # ---------------------------------------------------------------- R1
    r = ctx.rule("C04-R1", "RANGE", "every status run() can return is an int in 0..255; 0 only on the falsy-result "
                 "path of Command.handle, >= 1 otherwise and on every exception path", reference=9)
    cfg = ctx.cfg(handle)
    for ret in q.returns(handle):
        if ret.value is None:
            r.fail(handle, ret, "return None", "Command.handle can return None instead of a status")
            continue
        v = iv.expr(ret.value, handle)
        desc = "%s: %s in [%s, %s]" % (handle.short, norm(ret), v[0], v[1])
        rn = cfg.node_of(ret)
        falsy_guard = guarded_by(cfg, rn, lambda e: isinstance(e, ast.Name), polarity=False)
        if falsy_guard is not None and isinstance(falsy_guard.ast, ast.Name):
            # the falsy arm: must be exactly 0
            if v == (0, 0):
                r.ok(desc + " on the falsy-result arm")
            else:
                r.fail(handle, ret, norm(ret), "a falsy handler result must give status 0, found %s" % norm(ret.value))
        else:
            if _in(v, 1, 255):
                r.ok(desc)
            else:
                r.fail(handle, ret, norm(ret), "a non-falsy handler result must be clamped into 1..255; %s evaluates to [%s, %s]" % (norm(ret.value), v[0], v[1]))
    # falling off the end
    rv, none = iv.returns(handle)
    if none:
        r.fail(handle, handle.node, "implicit None", "Command.handle can fall off its end (returns None)")
    if not any(isinstance(c.ast, ast.Name) for c in cfg.conds()):
        r.fail(handle, handle.node, "no falsy test", "Command.handle does not map a falsy handler result to 0")
    # the falsy test must see the handler's own result: every definition of the tested variable that
    # reaches the test is the call of _do_handle (or a literal), never a conversion of it
    for c in [c for c in cfg.conds() if isinstance(c.ast, ast.Name)]:
        var = c.ast.id
        defs = cfg.writes(lambda t: t == var)
        for d in defs:
            others = [x.id for x in defs if x is not d]
            if c.id not in cfg.reach([d.id], blocked=others):
                continue
            v = d.ast.value if isinstance(d.ast, ast.Assign) else None
            direct = isinstance(v, ast.Constant) or (isinstance(v, ast.Call) and any(t.name == "_do_handle" for t in cg.site_for(handle, v).targets))
            if direct:
                r.ok("%s: falsy test sees %s" % (handle.short, norm(d.ast)[:50]))
            else:
                r.fail(handle, d.ast, "falsy test on " + norm(d.ast), "the 'falsy result -> status 0' test is applied to a converted value (%s), not to what the handler returned: "
                       "truthy results that convert to 0 ('0', 0.5) give status 0" % norm(d.ast))
    # KeyboardInterrupt arm inside handle
    for n in cfg.nodes:
        if n.kind == "except":
            for s in walk_no_nested(n.ast):
                if isinstance(s, ast.Assign) and any(isinstance(t, ast.Name) and "status" in t.id for t in s.targets):
                    v = iv.expr(s.value, handle)
                    if _in(v, 1, 255):
                        r.ok("%s: interrupt arm %s" % (handle.short, norm(s)))
                    else:
                        r.fail(handle, s, norm(s), "the interrupt arm must give a status in 1..255")
    if x2c is not None:
        rv, none = iv.returns(x2c)
        if none or not _in(rv, 1, 255):
            r.fail(x2c, x2c.node, "return range", "exception_to_exit_code must return 1..255, found %s%s" % (rv, " or None" if none else ""))
        else:
            r.ok("%s returns [%s, %s]" % (x2c.short, rv[0], rv[1]))
    cfg = ctx.cfg(run_fn)
    for ret in q.returns(run_fn):
        if ret.value is None:
            r.fail(run_fn, ret, "return None", "run() can return None")
            continue
        v = iv.expr(ret.value, run_fn)
        if _in(v, 0, 255):
            r.ok("%s: %s in [%s, %s]" % (run_fn.short, norm(ret), v[0], v[1]))
        else:
            r.fail(run_fn, ret, norm(ret), "run() can return a status outside 0..255: [%s, %s]" % (v[0], v[1]))
    # every assignment to the status variable in an exception arm is >= 1
    status_vars = {ret.value.id for ret in q.returns(run_fn) if isinstance(ret.value, ast.Name)}
    for n in cfg.nodes:
        if n.kind == "stmt" and isinstance(n.ast, ast.Assign) and any(isinstance(t, ast.Name) and t.id in status_vars for t in n.ast.targets):
            in_handler = any(isinstance(a, ast.ExceptHandler) for a in _ancestors(n.ast))
            v = iv.expr(n.ast.value, run_fn)
            if in_handler:
                if _in(v, 1, 255):
                    r.ok("%s: exception arm %s in [%s, %s]" % (run_fn.short, norm(n.ast), v[0], v[1]))
                else:
                    r.fail(run_fn, n.ast, norm(n.ast), "an exception must end in a non-zero status 1..255; got [%s, %s]" % (v[0], v[1]))

    # ---------------------------------------------------------------- R2
    r = ctx.rule("C04-R2", "EXC", "io creation, resolution and handling sit inside the try whose handlers cover "
                 "Exception and KeyboardInterrupt; every handler path sets the status; the only re-raise is under "
                 "'exceptions not caught'", reference=6)
    protected = []
    for cs in cg.sites_in(run_fn):
        names = {t.name for t in cs.targets}
        if "handle" in names and any(t.cls is cmd for t in cs.targets):
            protected.append(("handling", cs.node))
        elif "resolve_command" in names:
            protected.append(("resolution", cs.node))
        elif (isinstance(cs.node.func, ast.Name) and "factory" in cs.node.func.id) or (isinstance(cs.node.func, ast.Attribute) and "factory" in cs.node.func.attr):
            protected.append(("io creation", cs.node))
        elif isinstance(cs.node.func, ast.Attribute) and cs.node.func.attr == "handle" and len(cs.node.args) == 2 and not cs.targets:
            protected.append(("handling", cs.node))
    ctx.require(len(protected) >= 3, "io factory / resolve_command / command.handle calls not all found in run()")
    for what, call in protected:
        ok_exc = ok_kbd = False
        for n in cfg.nodes_of(call):
            for s, k in cfg.succ[n.id]:
                sn = cfg.nodes[s]
                if k == "e" and sn.kind == "except":
                    caught = cfg._handler_classes(sn.ast)
                    if caught == [] or Exception in caught or BaseException in caught:
                        ok_exc = True
                    if caught == [] or KeyboardInterrupt in caught or BaseException in caught:
                        ok_kbd = True
        if ok_exc and ok_kbd:
            r.ok("%s: %s (%s) covered by Exception and KeyboardInterrupt handlers" % (run_fn.short, norm(call)[:50], what))
        else:
            r.fail(run_fn, call, norm(call), "%s is not inside the try that catches %s: a failure there escapes run()" %
                   (what, "Exception" if not ok_exc else "KeyboardInterrupt"))
    for n in cfg.nodes:
        if n.kind != "except":
            continue
        # every normal path from the handler to a return defines the returned variable
        for ret in q.returns(run_fn):
            if not isinstance(ret.value, ast.Name):
                continue
            v = ret.value.id
            defs = set(w.id for w in cfg.writes(lambda t, v=v: t == v))
            rn = cfg.node_of(ret)
            if cfg.all_paths_hit(n.id, defs, [rn.id]):
                r.ok("%s: handler '%s' sets %s on every path" % (run_fn.short, norm(n.ast.type) if n.ast.type else "bare", v))
            else:
                r.fail(run_fn, n.ast, "except " + (norm(n.ast.type) if n.ast.type else ""), "a path through this handler reaches the return without setting the status")
    for n in cfg.nodes:
        if n.kind == "raise" and any(isinstance(a, ast.ExceptHandler) for a in _ancestors(n.ast)):
            g = guarded_by(cfg, n, lambda e: isinstance(e, ast.Call) and isinstance(e.func, ast.Attribute) and e.func.attr == "is_exception_caught", polarity=False)
            if g is not None:
                r.ok("%s: re-raise only when exceptions are not caught" % run_fn.short)
            else:
                r.fail(run_fn, n.ast, norm(n.ast), "the handler re-raises although exception catching is enabled")

    # ---------------------------------------------------------------- R3
    r = ctx.rule("C04-R3", "MULT", "the handler is invoked at most once per handle(), never when a pre-handle listener "
                 "marked the event handled; handle()/run() call their callee exactly once, outside loops", reference=5)
    cfg = ctx.cfg(do_handle)
    hcalls = [cs for cs in cg.sites_in(do_handle) if isinstance(cs.node.func, ast.Call) or (cs.kind == "dynamic" and not isinstance(cs.node.func, ast.Attribute))]
    hcalls = [cs for cs in hcalls if not (isinstance(cs.node.func, ast.Name))]
    # ... or through a local that holds the bound method: m = getattr(handler, name); m(args, io, self)
    getattr_locals = {t.id for n in walk_no_nested(do_handle.node) if isinstance(n, ast.Assign) and isinstance(n.value, ast.Call) and isinstance(n.value.func, ast.Name) and n.value.func.id == "getattr"
                      for t in n.targets if isinstance(t, ast.Name)}
    for cs in cg.sites_in(do_handle):
        if isinstance(cs.node.func, ast.Name) and cs.node.func.id in getattr_locals and cs not in hcalls:
            hcalls.append(cs)
    ctx.require(hcalls, "dynamic handler call not found in Command._do_handle")
    handled_true = [n for n in cfg.nodes if n.kind == "T" and any(isinstance(c, ast.Call) and isinstance(c.func, ast.Attribute) and c.func.attr == "is_handled" for c in walk_no_nested(n.ast))]
    for cs in hcalls:
        nodes = cfg.nodes_of(cs.node)
        in_loop = any(cfg.in_loop(n.id) for n in nodes)
        after_handled = any(n.id in cfg.reach([t.id]) for n in nodes for t in handled_true)
        if in_loop:
            r.fail(do_handle, cs.node, norm(cs.node), "the command handler can be invoked more than once (call inside a loop)")
        elif after_handled:
            r.fail(do_handle, cs.node, norm(cs.node), "the command handler still runs after a pre-handle listener marked the event handled")
        else:
            r.ok("%s: %s at most once, skipped when handled" % (do_handle.short, norm(cs.node)[:50]))
    if len(hcalls) > 1:
        # two handler calls on one path?
        ids = [n.id for cs in hcalls for n in cfg.nodes_of(cs.node)]
        for a in ids:
            for b in ids:
                if a != b and b in cfg.reach_strict(a, exc=True):
                    r.fail(do_handle, hcalls[0].node, "two handler calls on one path", "the command handler can be invoked twice on one path")
    if handled_true:
        # the handled arm returns the event's status
        for t in handled_true:
            reach = cfg.reach([t.id])
            rets = [n for n in cfg.nodes if n.kind == "return" and n.id in reach]
            if rets and all(n.ast.value is not None and any(isinstance(x, ast.Attribute) and x.attr == "status_code" for x in walk_no_nested(n.ast.value)) for n in rets[:1]):
                r.ok("%s: handled arm returns the event's status" % do_handle.short)
    else:
        r.fail(do_handle, do_handle.node, "no is_handled test", "_do_handle ignores whether a pre-handle listener handled the event")
    for fn, callee in ((handle, "_do_handle"), (run_fn, "handle"), (cmd.methods.get("run"), "handle")):
        if fn is None:
            continue
        cfg2 = ctx.cfg(fn)
        sites = [cs for cs in cg.sites_in(fn) if any(t.name == callee and t.cls is cmd for t in cs.targets)]
        if not sites:
            r.fail(fn, fn.node, "no call of " + callee, "%s never calls %s" % (fn.short, callee))
            continue
        ids = set(n.id for cs in sites for n in cfg2.nodes_of(cs.node))
        in_loop = any(cfg2.in_loop(i) for i in ids)
        twice = any(b in cfg2.reach_strict(a) for a in ids for b in ids)
        # exactly once on every path that reaches the normal exit without an exception
        always = cfg2.all_paths_hit(cfg2.entry.id, ids, [cfg2.exit.id], exc=False) if fn is not run_fn else True
        if in_loop or twice:
            r.fail(fn, sites[0].node, norm(sites[0].node), "%s can call %s more than once per invocation" % (fn.short, callee))
        elif not always:
            r.fail(fn, sites[0].node, norm(sites[0].node), "%s can return normally without calling %s" % (fn.short, callee))
        else:
            r.ok("%s: calls %s exactly once" % (fn.short, callee))

    # ---------------------------------------------------------------- R6
    r = ctx.rule("C04-R6", "EXC", "what run() does in its exception arm after printing the report cannot itself raise "
                 "on foreign data: no conversion of attributes of the caught exception outside a handler", reference=1)
    cfgr = ctx.cfg(run_fn)
    arm_calls = [cs for cs in cg.sites_in(run_fn) if any(isinstance(a, ast.ExceptHandler) for a in _ancestors(cs.node)) and cs.targets and all(t.cls is app for t in cs.targets)]
    seen_fns = {}
    for cs in arm_calls:
        for t in cs.targets:
            for g in cg.reachable([t], stop=lambda f: f.cls is not app).values():
                if g.cls is app:
                    seen_fns[g.qualname] = g
    for g in seen_fns.values():
        gcfg = ctx.cfg(g)
        risky = []
        for c in q.calls(g):
            if isinstance(c.func, ast.Name) and c.func.id in ("int", "float") and c.args and not isinstance(c.args[0], ast.Constant):
                in_try = any(isinstance(a, ast.Try) and any(cfg_catches(h) for h in a.handlers) for a in _ancestors(c))
                if not in_try:
                    risky.append(c)
        if risky:
            for c in risky:
                r.fail(g, c, norm(c), "%s converts foreign data with %s outside any handler: a non-numeric value makes run() raise after the report was printed" % (g.short, norm(c)))
        else:
            r.ok("%s: no unguarded conversion of foreign data" % g.short)
    if not seen_fns:
        r.vacuous_ok = True

    # ---------------------------------------------------------------- R4
    et = ctx.cls("clikit.ui.components.exception_trace.ExceptionTrace")
    rend = et.methods.get("render")
    # the trace renderer is what the except arm of run() calls
    called = [cs for cs in cg.sites_in(run_fn) if any(isinstance(a, ast.ExceptHandler) for a in _ancestors(cs.node))
              and any(rend.qualname in cg.reachable([t]) for t in cs.targets)]
    ctx.require(called, "run()'s exception arm does not call ExceptionTrace.render any more")
    taint_rule(ctx, "C04-R4", [run_fn, rend],
               "in the error report written by run()'s exception arm, text that is not authored markup never reaches a "
               "markup-interpreting sink that can raise (else the failure of the report escapes run())", reference=41)

    # ---------------------------------------------------------------- R7
    from .c20 import theme_null_rule

    theme_null_rule(ctx, "C04-R7", reference=4)

    # ---------------------------------------------------------------- R5
    r = ctx.rule("C04-R5", "KEY", "the arguments handed to handle() and the command that receives the call come from "
                 "the same resolved command", reference=1)
    for cs in cg.sites_in(run_fn):
        if not any(t.name == "handle" and t.cls is cmd for t in cs.targets):
            continue
        recv = cs.node.func.value if isinstance(cs.node.func, ast.Attribute) else None
        arg0 = cs.node.args[0] if cs.node.args else None

        def origin(e, attr):
            """local defined as <X>.<attr> -> text of X"""
            if isinstance(e, ast.Attribute) and e.attr == attr:
                return norm(e.value)
            if isinstance(e, ast.Name):
                defs = [n for n in walk_no_nested(run_fn.node) if isinstance(n, ast.Assign) and any(isinstance(t, ast.Name) and t.id == e.id for t in n.targets)]
                if len(defs) == 1 and isinstance(defs[0].value, ast.Attribute) and defs[0].value.attr == attr:
                    return norm(defs[0].value.value)
            return None
        a = origin(recv, "command")
        b = origin(arg0, "args")
        if a is not None and a == b:
            r.ok("%s: %s and its args both come from %s" % (run_fn.short, norm(cs.node), a))
        else:
            r.fail(run_fn, cs.node, norm(cs.node), "the handled command (%s) and the parsed arguments (%s) do not come from the same resolved command" % (a, b))

    # ---------------------------------------------------------------- R8
    r = ctx.rule("C04-R8", "SIBLING", "'handled' means what a listener said with handled(): the predicate that lets _do_handle skip the "
                 "handler reads exactly the field its setter writes and nothing else (stopping propagation is not handling)", reference=1)
    pre = ctx.cls("clikit.api.event.pre_handle_event.PreHandleEvent")
    getter = pre.methods.get("is_handled")
    ctx.require(getter is not None, "PreHandleEvent.is_handled missing")
    set_fields = {}
    for name, m in pre.methods.items():
        if name in ("__init__", "is_handled"):
            continue
        prm = [a for a in m.params if a != "self"]
        for n in walk_no_nested(m.node):
            if isinstance(n, ast.Assign) and isinstance(n.value, ast.Name) and n.value.id in prm:
                for t in n.targets:
                    if isinstance(t, ast.Attribute) and isinstance(t.value, ast.Name) and t.value.id == "self":
                        set_fields.setdefault(t.attr, name)
    for ret in q.returns(getter):
        reads = set()
        others = []
        for n in walk_no_nested(ret.value) if ret.value is not None else []:
            if isinstance(n, ast.Attribute) and isinstance(n.value, ast.Name) and n.value.id == "self":
                par = getattr(n, "_parent", None)
                if isinstance(par, ast.Call) and par.func is n:
                    others.append(norm(par))
                else:
                    reads.add(n.attr)
        fld = [f for f in reads if f in set_fields]
        if len(fld) == 1 and reads == set(fld) and not others:
            r.ok("PreHandleEvent.is_handled returns self.%s, written by %s()" % (fld[0], set_fields[fld[0]]))
        else:
            r.fail(getter, ret, norm(ret), "PreHandleEvent.is_handled also depends on %s: the handler is skipped (zero invocations, status taken from the event) "
                   "although no listener marked the event handled" % ", ".join(sorted(others) + sorted("self." + x for x in reads - set(fld))))

    # ---------------------------------------------------------------- R9
    r = ctx.rule("C04-R9", "OWNER", "the handler's result reaches the normalisation in Command.handle unchanged: what sits between "
                 "(Command._do_handle after the pre-handle arm, CallbackHandler.handle) returns the value of the call it "
                 "makes on every path - no other constant, no filtering by type", reference=2)
    cb = ctx.cls("clikit.handler.callback_handler.CallbackHandler")
    cbh = cb.methods.get("handle")
    ctx.require(cbh is not None, "CallbackHandler.handle missing")
    for fn in (cbh, do_handle):
        cfg = ctx.cfg(fn)
        if fn is do_handle:
            calls = [cs.node for cs in hcalls]
        else:
            calls = [c for c in q.calls(fn) if isinstance(c.func, ast.Attribute) and isinstance(c.func.value, ast.Name) and c.func.value.id == "self"]
        if not calls:
            r.fail(fn, fn.node, "no forwarded call", "%s does not call the handler / callback" % fn.short)
            continue
        call_nodes = {n.id for c in calls for n in cfg.nodes_of(c)}
        # locals that hold the call's value
        holders = set()
        for n in cfg.nodes:
            if n.kind == "stmt" and isinstance(n.ast, ast.Assign) and n.ast.value in calls and isinstance(n.ast.targets[0], ast.Name):
                holders.add(n.ast.targets[0].id)
        after = cfg.reach(list(call_nodes))
        bad = None
        nret = 0
        for n in cfg.nodes:
            if n.kind != "return" or n.id not in after:
                continue
            nret += 1
            v = n.ast.value
            if v in calls:
                continue
            if isinstance(v, ast.Name) and v.id in holders:
                others_w = [w for w in cfg.writes(lambda t, nm=v.id: t == nm) if not (isinstance(w.ast, ast.Assign) and w.ast.value in calls)]
                if not others_w:
                    continue
            bad = n
            break
        # an implicit fall off the end after the call loses the result as well
        rets_ = {n.id for n in cfg.nodes if n.kind == "return"}
        if bad is None and cfg.exit.id in cfg.reach([x for x in call_nodes if x not in rets_], blocked=rets_):
            r.fail(fn, calls[0], norm(calls[0])[:60] + " result dropped", "%s can end without returning the result of %s" % (fn.short, norm(calls[0])[:60]))
        elif bad is not None:
            r.fail(fn, bad.ast, norm(bad.ast), "%s returns `%s` after calling the handler: a truthy result that is not passed on (a float, a non-empty string) "
                   "is reported as success, or a different status than the handler's" % (fn.short, norm(bad.ast)))
        else:
            r.ok("%s: returns the result of %s on all %d return(s) after it" % (fn.short, norm(calls[0])[:50], nret))

    # ---------------------------------------------------------------- R10
    from .c17 import memo_key_rule

    r = ctx.rule("C04-R10", "CACHEKEY", "the error report cannot replay text prepared for another stream: the key of the trace's snippet memo covers "
                 "every input of the memoised value, e.g. the stream's encoding capability (same rule as C17-R4; a snippet "
                 "with box-drawing characters replayed to an ASCII stream raises UnicodeEncodeError out of run())", reference=1)
    memo_key_rule(ctx, r, only_module="clikit.ui.components.exception_trace")

    # ---------------------------------------------------------------- R11
    r = ctx.rule("C04-R11", "EXC", "an exception raised by a handler inside a `with` block of the library reaches run()'s handler: no __exit__ of a "
                 "context manager defined in clikit can return a truthy value (it would swallow the exception: status 0, no report)", reference=1)
    n11 = 0
    for ci in sorted(p.classes.values(), key=lambda c: c.qualname):
        ex = ci.methods.get("__exit__")
        if ex is None:
            continue
        n11 += 1
        bad = None
        for ret in q.returns(ex):
            v = ret.value
            if v is None or (isinstance(v, ast.Constant) and not v.value):
                continue
            bad = ret
        if bad is not None:
            r.fail(ex, bad, norm(bad), "%s.__exit__ can return a truthy value (%s): an exception raised inside the with-block - by a command handler writing under "
                   "io.indent(), say - is suppressed, the run returns 0 and prints no error report" % (ci.name, norm(bad)))
        else:
            r.ok("%s.__exit__ returns nothing truthy" % ci.name)
    if n11 == 0:
        r.vacuous_ok = True

    # ---------------------------------------------------------------- R12
    from .c05 import scratch_rule

    r = ctx.rule("C04-R12", "RESET", "'invoked with the arguments parsed for that command': what a rejected earlier run left in a parser cannot end up in this run's "
                 "arguments - every ArgsParser.parse starts from empty scratch maps (same rule as C05-R1)", reference=2)
    parser_base = ctx.cls("clikit.api.args.args_parser.ArgsParser")
    for c in p.subclasses(parser_base, strict=True):
        if "parse" in c.methods:
            scratch_rule(ctx, r, c.methods["parse"])

    # ---------------------------------------------------------------- R15
    r = ctx.rule("C04-R15", "ORDER", "'no other handler runs' when a pre-handle listener handled the event: the command's handler is not even looked up (a handler given as a "
                 "factory is created by the look-up) on a path that ends in the handled return", reference=1)
    cfgd = ctx.cfg(do_handle)
    lookups = [n for n in cfgd.nodes if n.kind in ("stmt", "return", "cond") and n.ast is not None and any(isinstance(x, ast.Attribute) and x.attr == "handler" and isinstance(x.ctx, ast.Load) for x in walk_no_nested(n.ast))]
    handled_rets = [n for n in cfgd.nodes if n.kind == "return" and any(cfgd.dominates(t.id, n.id) for t in handled_true)]
    if not lookups:
        r.fail(do_handle, do_handle.node, "no handler look-up", "_do_handle never reads the configured handler")
    elif not handled_rets:
        r.note("no handled return in _do_handle")
        r.vacuous_ok = True
    else:
        early = [l for l in lookups if any(h.id in cfgd.reach([l.id]) for h in handled_rets)]
        if early:
            r.fail(do_handle, early[0].ast, norm(early[0].ast) + " before the handled return", "%s reads the configured handler (%s) on a path that can still end in the handled return: with a handler factory, "
                   "`--version` builds the command's handler - and fails with it when building fails" % (do_handle.short, norm(early[0].ast)))
        else:
            r.ok("%s: handler looked up only after the handled return was passed" % do_handle.short)

    # ---------------------------------------------------------------- R13 / R14
    ctx.borrow("c12", "C12-R1", "C04-R13", "a pre-handle listener registered between two runs takes part in the next run (it may handle the event, i.e. "
               "decide that the command handler runs zero times): every write to the listener store drops the sorted cache of that event on all paths")
    ctx.borrow("c17", "C17-R8", "C04-R14", "'the handler is invoked exactly once' also on the second run: a handler configured as a factory stays a factory - the getter "
               "never stores the object it created back into the configured field")
    ctx.borrow("c20", "C20-R13", "C04-R16", "'exception paths return a status >= 1': rendering the trace of a caught exception does not itself raise for a frame whose file name is not an "
               "absolute path - no partial path function (commonpath / relpath / stat ...) outside a handler in the trace renderer (same rule as C20-R13)")
    return ctx.results


def cfg_catches(h):
    """handler catches ValueError and TypeError (or everything)"""
    if h.type is None:
        return True
    names = [norm(x) for x in (h.type.elts if isinstance(h.type, ast.Tuple) else [h.type])]
    return "Exception" in names or "BaseException" in names or ("ValueError" in names and "TypeError" in names)


def _ancestors(n):
    p = getattr(n, "_parent", None)
    while p is not None:
        yield p
        p = getattr(p, "_parent", None)
