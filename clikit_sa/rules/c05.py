"""C05 - parsing is a pure function of the command line, the format and the mode."""
import ast

from ..loader import walk_no_nested, norm, is_self_attr, ClassInfo
from ..effects import root, is_fresh, show, path_fields
from .. import q
from ..cfg import guarded_by


def self_attr_accesses(fi, attr):
    return [n for n in walk_no_nested(fi.node) if is_self_attr(n, attr)]


def resets_attr_always(ctx, callee, attr, _depth=0):
    """``callee`` (a method on the same object) re-initialises self.<attr> on every path, before any other use of it."""
    if _depth > 3:
        return False
    cfg = ctx.cfg(callee)
    rs = set(n.id for n in reset_nodes(cfg, callee, attr, ctx, _depth + 1))
    if not rs:
        return False
    if not cfg.post_dominated_by(cfg.entry.id, rs):
        return False
    # no use before the reset
    for n in cfg.nodes:
        if n.ast is None or n.id in rs or n.kind in ("T", "F", "loop_body", "loop_exit", "finally", "with_exit", "loop", "except", "def"):
            continue
        if any(is_self_attr(x, attr) for x in walk_no_nested(n.ast)) and not cfg.all_paths_hit(cfg.entry.id, rs, [n.id]):
            return False
    return True


def _stateless(e, fi):
    """the expression is built from this call's parameters and constants only (no object state, no other locals)"""
    prm = set(fi.params) - {"self"}
    for n in walk_no_nested(e):
        if isinstance(n, ast.Name) and isinstance(n.ctx, ast.Load) and n.id not in prm and n.id not in ("len", "max", "min", "list", "dict", "set", "int", "str", "bool", "tuple", "True", "False", "None"):
            return False
        if isinstance(n, (ast.Call,)) and not isinstance(n.func, ast.Name):
            return False
    return True


def _helper_reset(ctx, fi, e, attr):
    """``self.h(<parameters / constants>)`` where h (a method of the same object) does not read self.<attr>: the new value does not
    depend on the old one"""
    if ctx is None or not (isinstance(e, ast.Call) and isinstance(e.func, ast.Attribute) and isinstance(e.func.value, ast.Name) and e.func.value.id == "self" and fi.cls is not None):
        return False
    h = ctx.p.lookup_method(fi.cls, e.func.attr)
    if h is None or not all(_stateless(a, fi) for a in list(e.args) + [k.value for k in e.keywords]):
        return False
    seen, work = set(), [h]
    while work:
        g = work.pop()
        if g.qualname in seen:
            continue
        seen.add(g.qualname)
        if any(is_self_attr(x, attr) for x in walk_no_nested(g.node)):
            return False
        for c in q.calls(g):
            if isinstance(c.func, ast.Attribute) and isinstance(c.func.value, ast.Name) and c.func.value.id == "self":
                t = ctx.p.lookup_method(fi.cls, c.func.attr)
                if t is not None:
                    work.append(t)
    return True


def reset_nodes(cfg, fi, attr, ctx=None, _depth=0):
    """CFG nodes that start ``self.<attr>`` afresh: rebind to a fresh value, .clear(), or a call of a
    method of the same object that does so on all of its paths."""
    out = []
    if ctx is not None:
        for n in cfg.nodes:
            a = n.ast
            if n.kind == "stmt" and isinstance(a, ast.Expr) and isinstance(a.value, ast.Call) and isinstance(a.value.func, ast.Attribute) \
                    and isinstance(a.value.func.value, ast.Name) and a.value.func.value.id == "self":
                cs = ctx.cg.site_for(fi, a.value)
                if cs.targets and all(t.cls is not None and resets_attr_always(ctx, t, attr, _depth) for t in cs.targets):
                    out.append(n)
    for n in cfg.nodes:
        a = n.ast
        if n.kind != "stmt" or a is None:
            continue
        if isinstance(a, ast.Assign):
            for t in a.targets:
                if is_self_attr(t, attr) and (q.is_fresh_expr(a.value) or _stateless(a.value, fi) or _helper_reset(ctx, fi, a.value, attr)):
                    out.append(n)
        elif isinstance(a, ast.Expr) and isinstance(a.value, ast.Call) and isinstance(a.value.func, ast.Attribute) \
                and a.value.func.attr == "clear" and is_self_attr(a.value.func.value, attr):
            out.append(n)
    return out


def scratch_rule(ctx, r, entry):
    """RESET rule for one entry method ``entry`` (a ``parse`` implementation)."""
    p, cg = ctx.p, ctx.cg
    cls = entry.cls
    # methods reachable from the entry through calls that stay on the same object
    reach = {}
    work = [entry]
    while work:
        f = work.pop()
        if f.qualname in reach:
            continue
        reach[f.qualname] = f
        for cs in cg.sites_in(f):
            fn = cs.node.func
            on_self = isinstance(fn, ast.Attribute) and isinstance(fn.value, ast.Name) and fn.value.id == "self"
            if on_self or cs.kind == "super":
                for t in cs.targets:
                    if t.cls is not None and (t.cls in cls.mro or cls in t.cls.mro):
                        work.append(t)
    # scratch attributes: written (rebound or mutated in place) under the entry
    scratch = {}
    for f in reach.values():
        for n in walk_no_nested(f.node):
            if is_self_attr(n) and isinstance(getattr(n, "ctx", None), ast.Store):
                scratch.setdefault(n.attr, []).append((f, n))
        al_ = q.alias_roots(f)  # `tbl = self._tbl; tbl[k] = v` writes into self._tbl
        for c in q.calls(f):
            if isinstance(c.func, ast.Attribute) and c.func.attr in q.MUTATORS:
                a = q.root_in(f, c.func.value, al_)
                if a is not None:
                    scratch.setdefault(a, []).append((f, c))
        for n in walk_no_nested(f.node):
            if isinstance(n, (ast.Assign, ast.AugAssign, ast.Delete)):
                tgts = n.targets if not isinstance(n, ast.AugAssign) else [n.target]
                for t in tgts:
                    if isinstance(t, ast.Subscript):
                        a = q.root_in(f, t, al_)
                        if a is not None:
                            scratch.setdefault(a, []).append((f, n))
    if not scratch:
        r.vacuous_ok = True
        r.note("%s keeps no per-parse state on the parser object" % entry.short)
        return
    cfg = ctx.cfg(entry)
    for attr in sorted(scratch):
        # which reachable methods touch the attribute (read or write)?
        touching = set(f.qualname for f in reach.values() if f is not entry and self_attr_accesses(f, attr))
        # transitive: methods that call touching methods
        changed = True
        while changed:
            changed = False
            for f in reach.values():
                if f.qualname in touching or f is entry:
                    continue
                if any(t.qualname in touching for t in cg.callees(f)):
                    touching.add(f.qualname)
                    changed = True
        resets = reset_nodes(cfg, entry, attr, ctx)
        reset_ids = set(n.id for n in resets)
        uses = []
        for n in cfg.nodes:
            if n.ast is None or n.kind in ("T", "F", "loop_body", "loop_exit", "finally", "with_exit", "loop", "except", "def"):
                continue
            if n.id in reset_ids:
                continue
            parts = [n.ast]
            if n.kind == "for":
                parts = [n.ast.iter]
            elif n.kind == "with_enter":
                parts = [i.context_expr for i in n.ast.items]
            hit = None
            for part in parts:
                for s in walk_no_nested(part):
                    if is_self_attr(s, attr):
                        hit = "uses self.%s" % attr
                    elif isinstance(s, ast.Call):
                        cs = cg.site_for(entry, s)
                        tq = [t.short for t in cs.targets if t.qualname in touching]
                        if tq:
                            hit = "calls %s which touches self.%s" % (tq[0], attr)
            if hit:
                uses.append((n, hit))
        desc = "%s: self.%s (written in %s)" % (entry.short, attr, ", ".join(sorted(set(f.short for f, _ in scratch[attr]))))
        if not uses:
            r.ok(desc + " - not used under the entry")
            continue
        bad = None
        for n, why in uses:
            if not reset_ids or not cfg.all_paths_hit(cfg.entry.id, reset_ids, [n.id]):
                bad = (n, why)
                break
        if bad is None:
            r.ok(desc + " - reset dominates %d use(s)" % len(uses))
        else:
            n, why = bad
            r.fail(entry, n.ast, "self.%s not reset before: %s" % (attr, why),
                   "attribute self.%s is per-call scratch state (written under the entry) but %s can be reached from the start of %s "
                   "without the attribute having been re-initialised: values of the previous call leak into this one"
                   % (attr, why, entry.short), entry=entry.qualname,
                   first_use="%s:%d" % (entry.module.path, getattr(n.ast, "lineno", 0)))


def restored_on_all_exits(ctx, ev):
    """``del X[0]`` whose inverse ``X.insert(0, ...)`` lies on every exit (normal
    and exceptional) from the deletion."""
    e = ev.origin_event()
    if e.kind == "mutcall:insert":
        # the restoring half of the pair: X.insert(0, v) dominated by `del X[0]`
        c = e.node
        if not (isinstance(c, ast.Call) and c.args and isinstance(c.args[0], ast.Constant) and c.args[0].value == 0):
            return False
        cont = norm(c.func.value)
        cfg = ctx.cfg(e.fi)
        dels = [n for n in cfg.nodes if n.kind == "stmt" and isinstance(n.ast, ast.Delete) and len(n.ast.targets) == 1
                and isinstance(n.ast.targets[0], ast.Subscript) and norm(n.ast.targets[0].value) == cont
                and isinstance(n.ast.targets[0].slice, ast.Constant) and n.ast.targets[0].slice.value == 0]
        if not dels:
            return False
        ids = set(d.id for d in dels)
        return all(cfg.all_paths_hit(cfg.entry.id, ids | _infeasible_for(cfg, n), [n.id], exc=True) for n in cfg.nodes_of(c))
    if e.kind != "subdel":
        return False
    fi = e.fi
    node = e.node
    if not (isinstance(node, ast.Delete) and len(node.targets) == 1 and isinstance(node.targets[0], ast.Subscript)):
        return False
    tgt = node.targets[0]
    if not (isinstance(tgt.slice, ast.Constant) and tgt.slice.value == 0):
        return False
    cont = norm(tgt.value)
    cfg = ctx.cfg(fi)
    inverse = set()
    for n in cfg.nodes:
        if n.ast is None or n.kind not in ("stmt",):
            continue
        for c in walk_no_nested(n.ast):
            if isinstance(c, ast.Call) and isinstance(c.func, ast.Attribute) and c.func.attr == "insert" and \
                    norm(c.func.value) == cont and c.args and isinstance(c.args[0], ast.Constant) and c.args[0].value == 0:
                inverse.add(n.id)
    if not inverse:
        return False
    for dn in cfg.nodes_of(node):
        for s in cfg.succs(dn.id, exc=False):
            if not cfg.post_dominated_by(s, inverse | _infeasible_for(cfg, dn), exc=True):
                return False
    return True


def _infeasible_for(cfg, node):
    """Edges that cannot be taken on a path through ``node``: ``node`` lies under the true edge of a test of a boolean local that is assigned
    once, so the false edges of every other test of that local are infeasible there (and vice versa) - `if flag: del x[0] ... finally: if flag: x.insert(0, ..)`."""
    out = set()
    for e in cfg.nodes:
        if e.kind in ("T", "F") and isinstance(e.ast, ast.Name) and cfg.dominates(e.id, node.id, exc=True):
            name = e.ast.id
            if len(cfg.writes(lambda t, nm=name: t == nm)) != 1:
                continue
            for o in cfg.nodes:
                if o.kind in ("T", "F") and isinstance(o.ast, ast.Name) and o.ast.id == name and o.kind != e.kind:
                    out.add(o.id)
    return out


def run(ctx):
    p, cg = ctx.p, ctx.cg
    parser_base = ctx.cls("clikit.api.args.args_parser.ArgsParser")
    raw_base = ctx.cls("clikit.api.args.raw_args.RawArgs")
    fmt_cls = ctx.cls("clikit.api.args.format.args_format.ArgsFormat")

    # ---------------------------------------------------------------- R1
    r = ctx.rule("C05-R1", "RESET", "every attribute the parser writes during a parse is re-initialised in that "
                 "parse before its first use (directly or through a callee)", reference=2)
    entries = [c.methods["parse"] for c in p.subclasses(parser_base, strict=True) if "parse" in c.methods]
    ctx.require(entries, "no ArgsParser.parse implementation found")
    for e in entries:
        scratch_rule(ctx, r, e)

    # ---------------------------------------------------------------- R2
    r = ctx.rule("C05-R2", "OWNER", "argv lists, raw args (and their token lists) and formats handed to the raw-args "
                 "wrappers, the parser, Args and the resolvers are never mutated (at any alias depth) unless the "
                 "inverse mutation is on every exit", reference=41)
    eff = ctx.effects
    scope_mods = ("clikit.args.", "clikit.api.args.args", "clikit.resolver.", "clikit.api.command.command",
                  "clikit.api.resolver.", "clikit.handler.")
    protected_types = {raw_base, fmt_cls}
    n_checked = 0
    for fi in p.all_functions():
        if not fi.module.name.startswith(scope_mods) and not (fi.module.name + ".").startswith(scope_mods):
            continue
        if fi.cls is not None and fi.cls is fmt_cls:
            continue
        env = ctx.typer.env(fi)
        for prm in q.param_names(fi):
            t = env.get(prm)
            if t is None:
                continue
            is_protected = any(any(pt in c.mro for pt in protected_types) for c in t.classes)
            is_argv = prm == "argv" or (fi.cls is not None and raw_base in fi.cls.mro and fi.name == "__init__" and "list" in t.prims)
            if not (is_protected or is_argv):
                continue
            n_checked += 1
            evs = eff.mutations_rooted_at(fi, prm)
            evs = [e for e in evs if not restored_on_all_exits(ctx, e)]
            # constructor of the wrapper may of course store *into itself*; only the parameter object counts
            desc = "%s(%s)" % (fi.short, prm)
            if not evs:
                r.ok(desc)
                continue
            seen = set()
            for ev in evs:
                o = ev.origin_event()
                key = "%s mutated: %s" % (show(ev.token), norm(o.node))
                if key in seen:
                    continue
                seen.add(key)
                # report at the function that performs the mutation; callers are listed in the chain
                if o.fi is not fi:
                    continue
                r.fail(o.fi, o.node, norm(o.node),
                       "%s mutates the caller's %s (%s)" % (o.fi.short, prm, show(ev.token)),
                       chain=ev.chain(), token=show(ev.token))
            if not any(ev.origin_event().fi is fi for ev in evs):
                r.ok(desc + " [mutation happens in a callee, reported there]")
    # Args wrappers: self._fmt / self._raw_args are foreign objects
    args_cls = ctx.cls("clikit.api.args.args.Args")
    for name, m in sorted(args_cls.methods.items()):
        for ev in eff.events_in(m):
            t = ev.token
            if root(t) == ("p", "self") and not is_fresh(t):
                flds = path_fields(t)
                if flds and flds[-1] in ("_fmt", "_raw_args") and len(flds) >= 1 and not (len(flds) == 1 and ev.kind.startswith("attr-store")):
                    if len(flds) == 1 and not ev.kind.startswith(("mutcall", "sub", "call", "aug")):
                        continue
                    o = ev.origin_event()
                    r.fail(m, ev.node, norm(ev.node), "Args.%s mutates the format / raw args it was given (%s)" % (name, show(t)), chain=ev.chain())
        r.ok("Args.%s leaves format and raw args alone" % name)
    ctx.require(n_checked >= 5, "too few protected parameters found (%d): resolver typing broken?" % n_checked)

    # ---------------------------------------------------------------- R3
    r = ctx.rule("C05-R3", "OWNER", "the token list is copied before it is consumed: every in-place consumer of "
                 "tokens in the parser works on a fresh copy", reference=2)
    for e in entries:
        for f in cg.reachable([e], stop=lambda f: f.cls is None or f.cls not in p.subclasses(parser_base)).values():
            if f.cls is None or parser_base not in f.cls.mro:
                continue
            for n in walk_no_nested(f.node):
                if isinstance(n, ast.Assign) and isinstance(n.value, (ast.Attribute, ast.Subscript, ast.Call)):
                    src = n.value
                    if any(isinstance(s, ast.Attribute) and s.attr in ("tokens", "_tokens", "option_tokens") for s in walk_no_nested(src)):
                        fresh = q.is_fresh_expr(src)
                        desc = "%s: %s" % (f.short, norm(n))
                        if fresh:
                            r.ok(desc)
                        else:
                            # aliasing the caller's list is only a violation if it is then mutated: R2 reports that;
                            # here the alias itself is recorded
                            muts = [ev for ev in ctx.effects.events_in(f) if "tokens" in " ".join(path_fields(ev.token)) and not is_fresh(ev.token)]
                            if muts:
                                r.fail(f, n, norm(n), "the parser consumes the caller's token list in place (no copy)")
                            else:
                                r.ok(desc + " [alias, never mutated]")
    for c in p.subclasses(raw_base, strict=True):
        init = c.methods.get("__init__")
        if init is None:
            continue
        for prm in q.param_names(init):
            if prm == "argv":
                evs = ctx.effects.mutations_rooted_at(init, prm)
                if evs:
                    o = evs[0].origin_event()
                    r.fail(init, o.node, norm(o.node), "%s consumes the caller's argv list in place" % init.short)
                else:
                    r.ok("%s: argv copied before pop" % init.short)

    # ---------------------------------------------------------------- R4
    r = ctx.rule("C05-R4", "READONLY", "Command.parse is a pure pass-through to the configured parser: it stores nothing on the command "
                 "(a remembered result would be keyed by less than tokens + format + leniency) and returns the parser's "
                 "result of this call on every path", reference=1)
    cmd = ctx.cls("clikit.api.command.command.Command")
    cparse = cmd.methods.get("parse")
    ctx.require(cparse is not None, "Command.parse missing")
    own = []
    for n in walk_no_nested(cparse.node):
        if is_self_attr(n) and isinstance(getattr(n, "ctx", None), (ast.Store, ast.Del)):
            own.append(n)
    pcalls = [c for c in q.calls(cparse) if isinstance(c.func, ast.Attribute) and c.func.attr == "parse"]
    if own:
        for n in own:
            r.fail(cparse, n, "stores self.%s" % n.attr, "Command.parse keeps self.%s between calls: the next parse on this command can be answered from what an earlier "
                   "one left there (other leniency, raw args edited in place) instead of from its own inputs" % n.attr)
    elif not pcalls:
        r.fail(cparse, cparse.node, "no parser call", "Command.parse does not call the configured parser")
    else:
        rets = q.returns(cparse)
        direct = [x for x in rets if x.value in pcalls]
        holders = {t.id for n in walk_no_nested(cparse.node) if isinstance(n, ast.Assign) and n.value in pcalls for t in n.targets if isinstance(t, ast.Name)}
        via = [x for x in rets if isinstance(x.value, ast.Name) and x.value.id in holders]
        if rets and len(direct) + len(via) == len(rets):
            r.ok("Command.parse: stateless, returns %s" % norm(pcalls[0])[:60])
        else:
            bad = [x for x in rets if x not in direct and x not in via]
            r.fail(cparse, bad[0] if bad else cparse.node, norm(bad[0]) if bad else "no return", "Command.parse can return something else than the parser's result for this call")

    # ---------------------------------------------------------------- R5
    r = ctx.rule("C05-R5", "SENTINEL", "'the leniency mode' is the one the caller names: Command.parse consults the config's setting only when the mode "
                 "argument is None - an explicit False is a mode, not an absence", reference=1)
    explicit_mode_rule(ctx, r)

    # ---------------------------------------------------------------- R6
    from .c17 import leniency_pair_rule

    r = ctx.rule("C05-R6", "PAIR", "a parse after a help request gives what it gave before: the leniency that the help resolver switches on for a command's config is "
                 "switched back on every exit, to the value saved by the state query (same rule as C17-R2)", reference=1)
    leniency_pair_rule(ctx, r)

    # ---------------------------------------------------------------- R7
    from .c17 import global_containers_rule, class_level_through_self

    r = ctx.rule("C05-R7", "OWNER", "each parser object has its own scratch maps: no class-level (process-wide) container of the parser classes is mutated (same rule as C17-R6)", reference=1)
    global_containers_rule(ctx, r, mod_pred=lambda m: m.startswith("clikit.args"))
    class_level_through_self(ctx, r, mod_pred=lambda m: m.startswith("clikit.args"))
    if r.n == 0:
        inits = [m for c in p.subclasses(parser_base, strict=True) for n_, m in c.methods.items() if n_ == "__init__"]
        if inits:
            r.ok("no class-level container in clikit.args; scratch maps are created in %s" % ", ".join(m.short for m in inits))
        else:
            r.vacuous_ok = True
    # ---------------------------------------------------------------- R8
    r = ctx.rule("C05-R8", "OWNER", "'a parser handed from request to request': which parser object a command uses is decided by configuration alone - the field behind "
                 "Config.args_parser is written by the constructor and its setter only; the getter hands out the default (a fresh parser per access) without keeping it, so two "
                 "requests never share a default parser's scratch state unless the application asked for that", reference=2)
    cfg_cls = ctx.cls("clikit.api.config.config.Config")
    getter = cfg_cls.methods.get("args_parser")
    ctx.require(getter is not None, "Config.args_parser missing")
    fields = {a.attr for a in walk_no_nested(getter.node) if is_self_attr(a)}
    fields = {f for f in fields if "parser" in f}
    ctx.require(fields, "Config.args_parser reads no parser field")
    for c_ in sorted([cfg_cls] + list(ctx.p.subclasses(cfg_cls, strict=True)), key=lambda k: k.qualname):
        for name_, m_ in sorted(c_.methods.items()):
            for node_, kind_, t_ in [w for f_ in fields for w in q.writes_to_self_attr(m_, f_)]:
                if name_ == "__init__" or name_.startswith("set_"):
                    r.ok("%s.%s: %s" % (c_.name, name_, norm(node_)[:50]))
                else:
                    r.fail(m_, node_, "%s written in %s" % ("/".join(sorted(fields)), name_), "%s.%s keeps a parser in the configuration on its own: every command of that configuration, and every thread, then "
                           "shares one parser object and its per-parse scratch state - two overlapping requests see each other's tokens (a line missing a required argument is accepted with the other's)" % (c_.name, name_))

    return ctx.results


def explicit_mode_rule(ctx, r):
    """SENTINEL rule shared with C02."""
    cmd = ctx.cls("clikit.api.command.command.Command")
    cparse = cmd.methods.get("parse")
    ctx.require(cparse is not None, "Command.parse missing")
    cfg = ctx.cfg(cparse)
    modes = [a for a in cparse.params if a not in ("self",) and isinstance(cparse.defaults.get(a), ast.Constant) and cparse.defaults[a].value is None]
    ctx.require(modes, "Command.parse has no optional mode parameter any more")
    for x in modes:
        writes = [w for w in cfg.writes(lambda t, x=x: t == x)]
        if not writes:
            r.fail(cparse, cparse.node, "mode `%s` never defaulted" % x, "Command.parse never replaces a missing mode by the config's setting")
            continue
        for w in writes:
            g = guarded_by(cfg, w, lambda e: isinstance(e, ast.Compare) and isinstance(e.ops[0], ast.Is) and isinstance(e.left, ast.Name) and e.left.id == x
                           and isinstance(e.comparators[0], ast.Constant) and e.comparators[0].value is None, polarity=True, kill_names=lambda e: set())
            v = w.ast.value if isinstance(w.ast, ast.Assign) else None
            ifexp_ok = isinstance(v, ast.IfExp) and isinstance(v.test, ast.Compare) and isinstance(v.test.left, ast.Name) and v.test.left.id == x and isinstance(v.test.comparators[0], ast.Constant) \
                and v.test.comparators[0].value is None and isinstance(v.test.ops[0], (ast.Is, ast.IsNot))
            if g is not None or ifexp_ok:
                r.ok("%s: `%s` defaulted only when it is None" % (cparse.short, x))
            else:
                r.fail(cparse, w.ast, norm(w.ast), "Command.parse overrides the mode `%s` it was given (%s): an explicit %s=False on a command whose config enables lenient parsing "
                       "is parsed leniently - malformed lines are accepted in strict mode" % (x, norm(w.ast), x))
