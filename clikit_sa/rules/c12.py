"""C12 - listeners run by priority then registration order until propagation stops."""
import ast

from ..loader import ClassInfo, AnalysisError, walk_no_nested, norm, is_self_attr, unparse
from .. import q
from ..cfg import guarded_by

STORE = "_listeners"
CACHE = "_sorted"
SORTER = "_sort_listeners"


_HELPERS = {}


def _helper_invalidates(ctx, fi):
    """a private method h(key) of the dispatcher that drops / rebuilds the cache entry of its parameter on every path"""
    if fi.qualname in _HELPERS:
        return _HELPERS[fi.qualname]
    _HELPERS[fi.qualname] = False
    prm = q.param_names(fi)
    if not prm:
        return False
    k = prm[0]
    cfg = ctx.cfg(fi)
    good = set()
    for cn in cfg.nodes:
        if cn.kind in ("stmt", "return") and cn.ast is not None and _is_invalidation(cn.ast, lambda e: norm(e) == k):
            good.add(cn.id)
        if cn.kind in ("T", "F") and isinstance(cn.ast, ast.Compare) and len(cn.ast.ops) == 1 and is_self_attr(cn.ast.comparators[0], CACHE) and norm(cn.ast.left) == k:
            op = cn.ast.ops[0]
            if (isinstance(op, ast.In) and cn.kind == "F") or (isinstance(op, ast.NotIn) and cn.kind == "T"):
                good.add(cn.id)
    res = bool(good) and cfg.post_dominated_by(cfg.entry.id, good)
    _HELPERS[fi.qualname] = res
    return res


def _helper_ensures(ctx, fi):
    """a private method h(key) after which the cache entry of its parameter exists (built if it was missing)"""
    prm = q.param_names(fi)
    if not prm:
        return False
    k = prm[0]
    cfg = ctx.cfg(fi)
    good = set()
    for cn in cfg.nodes:
        if cn.kind == "stmt" and any(isinstance(c, ast.Call) and isinstance(c.func, ast.Attribute) and c.func.attr in ("_sort_listeners", SORTER) and c.args and norm(c.args[0]) == k
                                     for c in walk_no_nested(cn.ast)):
            good.add(cn.id)
        if cn.kind in ("T", "F") and isinstance(cn.ast, ast.Compare) and len(cn.ast.ops) == 1 and is_self_attr(cn.ast.comparators[0], CACHE) and norm(cn.ast.left) == k:
            op = cn.ast.ops[0]
            if (isinstance(op, ast.In) and cn.kind == "T") or (isinstance(op, ast.NotIn) and cn.kind == "F"):
                good.add(cn.id)
    return bool(good) and cfg.post_dominated_by(cfg.entry.id, good)


def _is_invalidation(node, key_ok, ctx=None, fi=None):
    """del self._sorted[k] / self._sorted.pop(k, ..) / self._sorted.clear() / self._sorted = {} /
    self._sort_listeners(k) / a private helper doing one of these for its parameter"""
    for n in walk_no_nested(node):
        if ctx is not None and isinstance(n, ast.Call) and isinstance(n.func, ast.Attribute) and isinstance(n.func.value, ast.Name) and n.func.value.id == "self" \
                and n.args and key_ok(n.args[0]):
            for t in ctx.cg.site_for(fi, n).targets:
                if t.cls is not None and t.name.startswith("_") and _helper_invalidates(ctx, t):
                    return True
        if isinstance(n, ast.Delete):
            for t in n.targets:
                if isinstance(t, ast.Subscript) and is_self_attr(t.value, CACHE) and key_ok(t.slice):
                    return True
        if isinstance(n, ast.Call) and isinstance(n.func, ast.Attribute):
            if n.func.attr == "pop" and is_self_attr(n.func.value, CACHE) and n.args and key_ok(n.args[0]):
                return True
            if n.func.attr == "clear" and is_self_attr(n.func.value, CACHE):
                return True
            if n.func.attr in ("_sort_listeners", SORTER) and n.args and key_ok(n.args[0]):
                return True
        if isinstance(n, ast.Assign):
            for t in n.targets:
                if is_self_attr(t, CACHE) and q.is_fresh_expr(n.value):
                    return True
    return False


def run(ctx):
    p, cg = ctx.p, ctx.cg
    ed = ctx.cls("EventDispatcher")
    methods = {n: m for n, m in ed.methods.items()}
    init = methods.get("__init__")
    ctx.require(init is not None, "EventDispatcher.__init__ missing")
    attrs = set()
    for n in walk_no_nested(init.node):
        if isinstance(n, ast.Assign):
            for t in n.targets:
                if is_self_attr(t):
                    attrs.add(t.attr)
    # a container declared in the class body is found too (that it must not be there is what R15 decides)
    attrs |= {nm_ for nm_, v_ in ed.attrs.items() if isinstance(v_, (ast.Dict, ast.List, ast.Set)) or (isinstance(v_, ast.Call) and isinstance(v_.func, ast.Name) and v_.func.id in ("dict", "list", "set", "OrderedDict", "defaultdict"))}
    # the listener store = the attribute a registration appends its listener parameter into; the sorted
    # cache = the other dict attribute, the one that is filled from the store (names are not assumed)
    global STORE, CACHE
    addm = methods.get("add_listener")
    ctx.require(addm is not None, "EventDispatcher.add_listener missing")
    lp = [x for x in q.param_names(addm) if "listener" in x] or q.param_names(addm)[1:2]
    store = None
    for c in q.calls(addm):
        if isinstance(c.func, ast.Attribute) and c.func.attr in ("append", "insert", "add") and c.args and isinstance(c.args[-1], ast.Name) and c.args[-1].id in lp:
            store = q.root_in(addm, c.func.value)
    if store is None:
        for c in q.calls(addm):
            if isinstance(c.func, ast.Attribute) and c.func.attr == "setdefault" and q.self_attr_root(c.func.value):
                store = q.self_attr_root(c.func.value)
    ctx.require(store in attrs, "cannot find the listener store (attribute the listener is appended to in add_listener)")
    cache = None
    for m in methods.values():
        own_reads = {n.attr for n in walk_no_nested(m.node) if is_self_attr(n)}
        if store in own_reads:
            for node, kind, t in [w for a in attrs - {store} for w in q.writes_to_self_attr(m, a)]:
                if kind in ("substore", "mutcall") and any(isinstance(x, ast.Call) and isinstance(x.func, ast.Name) and x.func.id == "sorted" for x in walk_no_nested(m.node)) or \
                        any(isinstance(x, ast.Attribute) and x.attr == "sort" for x in walk_no_nested(m.node)):
                    cache = q.self_attr_root(t) or (t.attr if is_self_attr(t) else None)
    ctx.require(cache in attrs and cache != store, "cannot find the sorted-listener cache (attribute filled from the store by a sort)")
    STORE, CACHE = store, cache

    # ---------------------------------------------------------------- R1
    r = ctx.rule("C12-R1", "INVALID",
                 "every write to the listener store is followed on all paths by dropping the sorted cache "
                 "for the same event (or by a test showing nothing is cached)", reference=3)
    for name, m in sorted(methods.items()):
        if name == "__init__":
            continue
        writes = q.writes_to_self_attr(m, STORE)
        if not writes:
            continue
        cfg = ctx.cfg(m)
        params = q.param_names(m)
        for node, kind, target in writes:
            # the event key used by the write
            key = None
            e = target
            while isinstance(e, (ast.Subscript, ast.Attribute, ast.Call)) and not is_self_attr(e, STORE):
                if isinstance(e, ast.Subscript) and is_self_attr(e.value, STORE):
                    key = e.slice
                    break
                e = e.value if not isinstance(e, ast.Call) else e.func
            key_txt = norm(key) if key is not None else None

            def key_ok(k, key_txt=key_txt):
                return key_txt is None or norm(k) == key_txt

            wnodes = cfg.nodes_of(node)
            ctx.require(wnodes, "no CFG node for write %s" % norm(node))
            inval = set()
            for cn in cfg.nodes:
                if cn.kind in ("stmt", "return") and cn.ast is not None and _is_invalidation(cn.ast, key_ok, ctx, m):
                    inval.add(cn.id)
                # 'k in self._sorted' false edge / 'k not in self._sorted' true edge: nothing cached
                if cn.kind in ("T", "F") and isinstance(cn.ast, ast.Compare) and len(cn.ast.ops) == 1:
                    op = cn.ast.ops[0]
                    if is_self_attr(cn.ast.comparators[0], CACHE) and key_ok(cn.ast.left):
                        if (isinstance(op, ast.In) and cn.kind == "F") or (isinstance(op, ast.NotIn) and cn.kind == "T"):
                            inval.add(cn.id)
            good = all(cfg.post_dominated_by(w.id, inval - {w.id}) for w in wnodes)
            desc = "%s: %s" % (m.short, norm(node))
            if good:
                r.ok(desc)
            else:
                r.fail(m, node, norm(node),
                       "write to the listener store can reach the end of %s without invalidating self.%s[%s]; "
                       "a later dispatch would use a stale sorted list" % (m.short, CACHE, key_txt or "*"),
                       entry=m.qualname, exit="normal return")

    # ---------------------------------------------------------------- R2
    r = ctx.rule("C12-R2", "POLARITY",
                 "registration appends, the sort is descending in priority only (stable), iteration is forward", reference=6)
    global SORTER
    add = methods.get("add_listener")
    sort = methods.get("_sort_listeners")
    if sort is None:
        for m_ in methods.values():
            if q.writes_to_self_attr(m_, CACHE) and any(isinstance(x, ast.Call) and isinstance(x.func, ast.Name) and x.func.id == "sorted" for x in walk_no_nested(m_.node)):
                sort = m_
    if sort is not None:
        SORTER = sort.name
    disp = methods.get("_do_dispatch")
    if disp is None:
        for m_ in methods.values():
            if any(cs.kind in ("dynamic",) and isinstance(cs.node.func, ast.Name) for cs in ctx.cg.sites_in(m_)) and any(isinstance(n, ast.For) for n in walk_no_nested(m_.node)):
                disp = m_
    ctx.require(add and sort and disp, "add_listener/_sort_listeners/_do_dispatch missing")
    for m in (add, sort):
        for c in q.calls(m):
            if isinstance(c.func, ast.Attribute) and c.func.attr in ("append", "insert", "extend", "appendleft") and \
                    q.self_attr_root(c.func.value) in (STORE, CACHE):
                if c.func.attr in ("append", "extend"):
                    r.ok("%s: %s" % (m.short, norm(c)))
                else:
                    r.fail(m, c, norm(c), "listeners must be appended (registration order); %s reverses/perturbs the order" % c.func.attr)
    # local list accumulation in the sorter (result.append) is order preserving too
    sorted_calls = [c for c in q.calls(sort) if isinstance(c.func, ast.Name) and c.func.id == "sorted"]
    sort_method_calls = [c for c in q.calls(sort) if isinstance(c.func, ast.Attribute) and c.func.attr == "sort"]
    ctx.require(sorted_calls or sort_method_calls, "no sorted()/.sort() call in _sort_listeners: priority order cannot be classified")
    for c in sorted_calls + sort_method_calls:
        pol = _sort_polarity(c)
        if pol is None:
            raise AnalysisError("unrecognised sort key in _sort_listeners: %s" % norm(c))
        if pol == "desc0":
            r.ok("%s: %s" % (sort.short, norm(c)))
        else:
            r.fail(sort, c, norm(c), "listeners must be ordered by priority descending only (stable among equals); found %s" % pol)
    for m in (sort, disp):
        for n in walk_no_nested(m.node):
            if isinstance(n, ast.For):
                it = n.iter
                bad = None
                for s in walk_no_nested(it):
                    if isinstance(s, ast.Call) and isinstance(s.func, ast.Name) and s.func.id == "reversed":
                        bad = "reversed()"
                    if isinstance(s, ast.Subscript) and isinstance(s.slice, ast.Slice) and s.slice.step is not None:
                        st = s.slice.step
                        if isinstance(st, ast.UnaryOp) and isinstance(st.op, ast.USub):
                            bad = "negative-step slice"
                if bad:
                    r.fail(m, n, "for " + norm(n.target) + " in " + norm(it), "iteration order reversed by %s" % bad)
                else:
                    r.ok("%s: for %s in %s" % (m.short, norm(n.target), norm(it)))

    # ---------------------------------------------------------------- R3
    r = ctx.rule("C12-R3", "GUARD",
                 "in the dispatch loop every listener call is preceded, in its iteration, by the propagation test "
                 "whose 'stopped' edge leaves the loop", reference=1)
    cfg = ctx.cfg(disp)
    lparam = None
    for n in walk_no_nested(disp.node):
        if isinstance(n, ast.For):
            lparam = n
    listener_calls = []
    for cs in ctx.cg.sites_in(disp):
        if cs.kind in ("dynamic", "unresolved") and isinstance(cs.node.func, ast.Name):
            listener_calls.append(cs.node)
    ctx.require(listener_calls, "no listener call found in _do_dispatch")
    for call in listener_calls:
        loops = cfg.enclosing_loops(call)
        if not loops:
            r.fail(disp, call, norm(call), "listener call is not inside the dispatch loop")
            continue
        loop = loops[0]
        heads = [n for n in cfg.nodes if n.kind == "loop_body" and n.ast is loop]
        if isinstance(loop, ast.While):
            heads = [n for n in cfg.nodes if n.kind == "loop" and n.ast is loop]
        cnodes = cfg.nodes_of(call)
        stop_false = set()
        stop_true = set()
        for cn in cfg.nodes:
            if cn.kind in ("T", "F") and _is_stop_test(cn.ast):
                (stop_true if cn.kind == "T" else stop_false).add(cn.id)
        ok = bool(stop_false) and all(
            cfg.all_paths_hit(h.id, stop_false, [c.id for c in cnodes]) for h in heads
        )
        # the 'stopped' edge must not reach a listener call again
        leak = False
        for t in stop_true:
            if set(c.id for c in cnodes) & cfg.reach([t]):
                leak = True
        if ok and not leak:
            r.ok("%s: %s guarded by is_propagation_stopped()" % (disp.short, norm(call)))
        else:
            r.fail(disp, call, norm(call),
                   "a listener can be called without a preceding 'propagation stopped?' test in the same iteration"
                   if not ok else "after propagation was stopped the loop can still reach a listener call")

    # ---------------------------------------------------------------- R4
    r = ctx.rule("C12-R4", "RESET", "the sorted list of an event is rebuilt from empty", reference=2)
    cfg = ctx.cfg(sort)
    appends = [c for c in q.calls(sort) if isinstance(c.func, ast.Attribute) and c.func.attr in ("append", "extend")
               and q.self_attr_root(c.func.value) == CACHE]
    # a local that stands for the event's cache entry as it is (`lst = self.<cache>.setdefault(name, [])`, `lst = self.<cache>[name]`): appending to it appends to the entry
    entry_locals = {t.id for n in walk_no_nested(sort.node) if isinstance(n, ast.Assign)
                    and ((isinstance(n.value, ast.Call) and isinstance(n.value.func, ast.Attribute) and n.value.func.attr in ("setdefault", "get") and is_self_attr(n.value.func.value, CACHE))
                         or (isinstance(n.value, ast.Subscript) and is_self_attr(n.value.value, CACHE)))
                    for t in n.targets if isinstance(t, ast.Name)}
    appends += [c for c in q.calls(sort) if isinstance(c.func, ast.Attribute) and c.func.attr in ("append", "extend") and isinstance(c.func.value, ast.Name) and c.func.value.id in entry_locals]
    stores = [(n, t) for n, k, t in q.writes_to_self_attr(sort, CACHE) if k == "substore" and isinstance(n, ast.Assign)]
    ctx.require(appends or stores, "_sort_listeners never writes the sorted cache")
    fresh_nodes = set()
    for n, t in stores:
        if q.is_fresh_expr(n.value) or _local_fresh(sort, n.value):
            for cn in cfg.nodes_of(n):
                fresh_nodes.add(cn.id)
    for c in appends:
        cn = cfg.node_of(c)
        if fresh_nodes and any(cfg.dominates(f, cn.id) for f in fresh_nodes):
            r.ok("%s: %s after fresh store" % (sort.short, norm(c)))
        else:
            r.fail(sort, c, norm(c), "the sorted list is appended to without being reset first: listeners would be called twice")
    # a cache entry is never the store's own bucket list (a listener registered during a dispatch would join the running dispatch,
    # and lists handed out by get_listeners would grow later)
    for n in walk_no_nested(sort.node):
        if isinstance(n, ast.Assign):
            for t in n.targets:
                elts = t.elts if isinstance(t, (ast.Tuple, ast.List)) else []
                for e_ in elts:
                    if isinstance(e_, ast.Subscript) and is_self_attr(e_.value, CACHE):
                        r.fail(sort, n, norm(n), "the cache entry is bound by unpacking (%s) to an object that already exists - the store's own bucket list - instead of a list built for the cache: "
                               "a listener registered by a listener during a dispatch takes part in the running dispatch" % norm(n))
    # ... and every stored listener is carried over: the append is on every path of its iteration (no filter)
    for c in appends:
        loops = [a for a in _anc(c) if isinstance(a, (ast.For, ast.While))]
        if not loops:
            continue
        inner = loops[0]
        head = cfg.node_of(inner) if isinstance(inner, ast.For) else None
        if head is None:
            continue
        body_start = [x for x in cfg.succs(head.id) if cfg.nodes[x].kind == "loop_body"]
        tgt = {n.id for n in cfg.nodes_of(c)}
        if body_start and all(cfg.all_paths_hit(b, tgt, [head.id]) for b in body_start):
            r.ok("%s: %s on every path of its iteration" % (sort.short, norm(c)[:50]))
        else:
            r.fail(sort, c, norm(c) + " conditional", "a stored listener can be left out of the sorted list (the append is conditional): a registration that the filter rejects - the same or an equal "
                   "callable registered a second time - never takes part in a dispatch")
    if not appends:
        for n, t in stores:
            if q.is_fresh_expr(n.value) or _local_fresh(sort, n.value):
                r.ok("%s: %s" % (sort.short, norm(n)))
            else:
                r.fail(sort, n, norm(n), "sorted cache entry is not rebuilt from a fresh list")

    # ---------------------------------------------------------------- R5
    r = ctx.rule("C12-R5", "KEY", "store, cache and dispatch are subscripted with the method's own event-name "
                 "parameter (or the loop variable when iterating all events)", reference=18)
    for name, m in sorted(methods.items()):
        params = set(q.param_names(m))
        loopvars = q.loop_vars_over(m, lambda it: q.self_attr_root(it) in (STORE, CACHE))
        for attr in (STORE, CACHE):
            for sub in q.subscripts_on_self_attr(m, attr):
                key = sub.slice
                names = q.names_in(key)
                if isinstance(key, ast.Name) and (key.id in params or key.id in loopvars):
                    # the parameter must not have been rebound to something else
                    r.ok("%s: %s" % (m.short, norm(sub)))
                else:
                    r.fail(m, sub, norm(sub), "listener store/cache subscripted with %s, which is not this method's event name" % norm(key))
            for node, key, neg in q.membership_tests(m, attr):
                if isinstance(key, ast.Name) and (key.id in params or key.id in loopvars):
                    r.ok("%s: %s" % (m.short, norm(node)))
                else:
                    r.fail(m, node, norm(node), "membership of the listener store/cache tested with a foreign key %s" % norm(key))
    # the event-name parameter is never rebound in those methods
    for name, m in sorted(methods.items()):
        for attr in (STORE, CACHE):
            if not q.subscripts_on_self_attr(m, attr):
                continue
            params = set(q.param_names(m))
            for n in walk_no_nested(m.node):
                if isinstance(n, (ast.Assign, ast.AugAssign)):
                    tgts = n.targets if isinstance(n, ast.Assign) else [n.target]
                    for t in tgts:
                        if isinstance(t, ast.Name) and t.id in params and "event" in t.id and "name" in t.id:
                            r.fail(m, n, norm(n), "the event-name parameter is rebound before being used as key")
            break

    # ---------------------------------------------------------------- R6
    r = ctx.rule("C12-R6", "GUARD", "get_listeners returns the cached list only after a cache miss was rebuilt; "
                 "dispatch hands exactly that list and the same event name to the dispatch loop", reference=4)
    gl = methods.get("get_listeners")
    dp = methods.get("dispatch")
    ctx.require(gl and dp, "get_listeners/dispatch missing")
    cfg = ctx.cfg(gl)
    for ret in q.returns(gl):
        v = ret.value
        if isinstance(v, ast.Subscript) and is_self_attr(v.value, CACHE):
            key_txt = norm(v.slice)
            rn = cfg.node_of(ret)
            good = set()
            for cn in cfg.nodes:
                if cn.kind in ("T", "F") and isinstance(cn.ast, ast.Compare) and len(cn.ast.ops) == 1 and \
                        is_self_attr(cn.ast.comparators[0], CACHE) and norm(cn.ast.left) == key_txt:
                    op = cn.ast.ops[0]
                    if (isinstance(op, ast.In) and cn.kind == "T") or (isinstance(op, ast.NotIn) and cn.kind == "F"):
                        good.add(cn.id)
                if cn.kind == "stmt" and any(
                        isinstance(c, ast.Call) and isinstance(c.func, ast.Attribute) and c.func.attr in ("_sort_listeners", SORTER)
                        and c.args and norm(c.args[0]) == key_txt for c in walk_no_nested(cn.ast)):
                    good.add(cn.id)
                if cn.kind == "stmt":
                    for c in walk_no_nested(cn.ast):
                        if isinstance(c, ast.Call) and isinstance(c.func, ast.Attribute) and isinstance(c.func.value, ast.Name) and c.func.value.id == "self" and c.args and norm(c.args[0]) == key_txt:
                            if any(t.name.startswith("_") and _helper_ensures(ctx, t) for t in ctx.cg.site_for(gl, c).targets):
                                good.add(cn.id)  # a helper that makes sure the entry is (re)built
            if good and all(cfg.all_paths_hit(cfg.entry.id, good, [rn.id])for _ in [0]):
                r.ok("%s: %s" % (gl.short, norm(ret)))
            else:
                r.fail(gl, ret, norm(ret), "the cached list can be returned without the cache entry having been (re)built")
        elif v is not None and is_self_attr(v, CACHE):
            # the whole cache is handed out: every event of the store that has no entry must have been rebuilt first
            rn = cfg.node_of(ret)
            loops = [n for n in cfg.nodes if n.kind == "for" and any(is_self_attr(x, STORE) for x in walk_no_nested(n.ast.iter))]
            ok_ = False
            why = "no loop over the listener store rebuilds the missing entries"
            for lp_ in loops:
                if not cfg.all_paths_hit(cfg.entry.id, {lp_.id}, [rn.id]):
                    why = "the loop that rebuilds missing entries can be skipped as a whole (it is under a test of the cache)"
                    continue
                lv = {x.id for x in walk_no_nested(lp_.ast.target) if isinstance(x, ast.Name)}
                def rebuilds(c):
                    if not (isinstance(c, ast.Call) and isinstance(c.func, ast.Attribute) and c.args and isinstance(c.args[0], ast.Name) and c.args[0].id in lv):
                        return False
                    if c.func.attr in ("_sort_listeners", SORTER):
                        return True
                    # a private helper that makes sure the entry of its parameter exists
                    return isinstance(c.func.value, ast.Name) and c.func.value.id == "self" and any(t.name.startswith("_") and _helper_ensures(ctx, t) for t in ctx.cg.site_for(gl, c).targets)
                sorts = [cn for cn in cfg.nodes if cn.kind == "stmt" and lp_.ast in list(_anc(cn.ast)) and any(rebuilds(c) for c in walk_no_nested(cn.ast))]
                if not sorts:
                    why = "the loop over the store does not rebuild entries"
                    continue
                # inside the loop the only admissible guard is "<loop var> not in cache"
                body_start = [x for x in cfg.succs(lp_.id) if cfg.nodes[x].kind == "loop_body"]
                hit_edges = {e.id for e in cfg.nodes if e.kind in ("T", "F") and isinstance(e.ast, ast.Compare) and len(e.ast.ops) == 1 and is_self_attr(e.ast.comparators[0], CACHE)
                             and isinstance(e.ast.left, ast.Name) and e.ast.left.id in lv
                             and ((isinstance(e.ast.ops[0], ast.In) and e.kind == "T") or (isinstance(e.ast.ops[0], ast.NotIn) and e.kind == "F"))}
                tgt = {x.id for x in sorts} | hit_edges
                if body_start and all(cfg.all_paths_hit(b, tgt, [lp_.id]) for b in body_start):
                    ok_ = True
                    break
                why = "an event without a cache entry can pass through the loop without being rebuilt"
            if ok_:
                r.ok("%s: %s after every missing entry was rebuilt" % (gl.short, norm(ret)))
            else:
                r.fail(gl, ret, norm(ret) + " (all events)", "get_listeners() hands out the whole cache although %s: events whose entry was dropped by a registration, or never built, "
                       "are missing from the result" % why)
    # dispatch: listeners = self.get_listeners(event_name); self._do_dispatch(listeners, event_name, event)
    ev_param = q.param_names(dp)[0] if q.param_names(dp) else None
    for c in q.method_calls(dp, "get_listeners"):
        if c.args and isinstance(c.args[0], ast.Name) and c.args[0].id == ev_param:
            r.ok("%s: %s" % (dp.short, norm(c)))
        else:
            r.fail(dp, c, norm(c), "dispatch looks up listeners with something other than its event name")
    for c in q.method_calls(dp, "_do_dispatch"):
        a1 = q.arg_for_param(c, disp, q.param_names(disp)[1]) if len(q.param_names(disp)) > 1 else None
        if a1 is not None and isinstance(a1, ast.Name) and a1.id == ev_param:
            r.ok("%s: %s" % (dp.short, norm(c)))
        else:
            r.fail(dp, c, norm(c), "dispatch loop is given a different event name")
    # ---------------------------------------------------------------- R7
    r = ctx.rule("C12-R7", "OWNER", "no event object is shared between dispatches: parameter defaults of the event "
                 "classes are constants (a default built once would carry 'propagation stopped' to later dispatches)", reference=5)
    for fi in [f for f in p.all_functions() if f.module.name.startswith("clikit.api.event")]:
        for prm, d in sorted(fi.defaults.items()):
            if isinstance(d, ast.Constant) or (isinstance(d, ast.Name) and d.id in ("None", "True", "False")):
                r.ok("%s(%s=%s)" % (fi.short, prm, norm(d)))
            else:
                r.fail(fi, d, "%s(%s=%s)" % (fi.name, prm, norm(d)), "the default of %s.%s is built once (%s) and shared by every call that omits it: state such as "
                       "'propagation stopped' survives from one dispatch to the next" % (fi.short, prm, norm(d)))

    # ---------------------------------------------------------------- R8
    r = ctx.rule("C12-R8", "TAINT", "every registration facade forwards event name, listener and priority unchanged "
                 "to the dispatcher", reference=1)
    n_fac = 0
    for fi in p.all_functions():
        if fi.cls is ed:
            continue
        for cs in cg.sites_in(fi):
            if add not in cs.targets:
                continue
            n_fac += 1
            own = set(q.param_names(fi))
            missing = []
            for prm in q.param_names(add):
                a = q.arg_for_param(cs.node, add, prm)
                if prm in own and not (isinstance(a, ast.Name) and a.id == prm):
                    missing.append(prm)
            if missing:
                r.fail(fi, cs.node, norm(cs.node), "%s has the parameter(s) %s but does not forward them to add_listener: every listener registered through it "
                       "gets the default instead" % (fi.short, ", ".join(missing)))
            else:
                r.ok("%s forwards %s" % (fi.short, ", ".join(x for x in q.param_names(add) if x in own)))
    if n_fac == 0:
        r.vacuous_ok = True

    # ---------------------------------------------------------------- R9
    r = ctx.rule("C12-R9", "INVALID", "whether an event has listeners is asked when it is dispatched, never remembered: outside the dispatcher no "
                 "object state is written from, or under a test of, has_listeners() - a listener registered later must take part in the next dispatch", reference=3)
    n_q = 0
    for fi in p.all_functions():
        if fi.cls is disp.cls:
            continue
        hl = [c for c in q.calls(fi) if isinstance(c.func, ast.Attribute) and c.func.attr == "has_listeners"]
        if not hl:
            continue
        cfg = ctx.cfg(fi)
        for c in hl:
            n_q += 1
            bad = None
            par = getattr(c, "_parent", None)
            # stored directly
            stmt = c
            while stmt is not None and not isinstance(stmt, ast.stmt):
                stmt = getattr(stmt, "_parent", None)
            if isinstance(stmt, ast.Assign) and any(isinstance(t, ast.Attribute) for t in stmt.targets):
                bad = stmt
            # object state written under a test of it
            if bad is None:
                for cn in cfg.nodes_of(c):
                    if cn.kind != "cond":
                        continue
                    for edge in (cfg.true_of(cn), cfg.false_of(cn)):
                        if edge is None:
                            continue
                        for w in cfg.nodes:
                            if w.kind == "stmt" and isinstance(w.ast, (ast.Assign, ast.AugAssign)) and cfg.dominates(edge.id, w.id):
                                tg = w.ast.targets if isinstance(w.ast, ast.Assign) else [w.ast.target]
                                if any(is_self_attr(t) for t in tg):
                                    bad = w.ast
            if bad is not None:
                r.fail(fi, bad, norm(bad) + " depends on has_listeners()", "%s writes object state (%s) that depends on whether listeners were registered at that moment: "
                       "a listener added afterwards is never dispatched to by this object" % (fi.short, norm(bad)))
            else:
                r.ok("%s: %s asked at dispatch time, not stored" % (fi.short, norm(c)[:60]))
    if n_q == 0:
        r.vacuous_ok = True

    # ---------------------------------------------------------------- R11
    r = ctx.rule("C12-R11", "SIBLING", "'stops after the first listener that stops propagation' has one meaning for every event: no event class overrides the "
                 "propagation test or its setter (marking an event handled is not stopping it)", reference=3)
    evb = ctx.cls("clikit.api.event.event.Event")
    prop_methods = [nm for nm in evb.methods if "propagation" in nm]
    ctx.require(prop_methods, "Event has no propagation methods any more")
    for c in sorted(p.subclasses(evb, strict=True), key=lambda k: k.qualname):
        over = [nm for nm in prop_methods if nm in c.methods]
        if over:
            m_ = c.methods[over[0]]
            r.fail(m_, m_.node, "%s overrides %s" % (c.name, ", ".join(over)), "%s re-defines %s: for this event the dispatch loop stops (or goes on) for another reason than a listener calling "
                   "stop_propagation() - later listeners of the event are cut off" % (c.name, ", ".join(over)))
        else:
            r.ok("%s inherits %s" % (c.name, ", ".join(sorted(prop_methods))))

    # ---------------------------------------------------------------- R12
    r = ctx.rule("C12-R12", "READONLY", "queries answer from what was registered and leave no trace: the listener store is a plain dict (reading a missing key cannot create it) and "
                 "get_listener_priority returns a priority only on a path where the listener was found in that bucket", reference=2)
    init_ = methods["__init__"]
    store_init = [n.value for n in walk_no_nested(init_.node) if isinstance(n, ast.Assign) and any(is_self_attr(t, STORE) for t in n.targets)]
    plain = store_init and all(isinstance(v, ast.Dict) or (isinstance(v, ast.Call) and isinstance(v.func, ast.Name) and v.func.id in ("dict", "OrderedDict") and not v.args) for v in store_init)
    if plain:
        r.ok("EventDispatcher.%s is a plain dict" % STORE)
    else:
        r.fail(init_, init_.node, "store is %s" % (norm(store_init[0]) if store_init else "?"), "the listener store is created as `%s`: merely asking has_listeners(x) / get_listener_priority(x, ..) for an "
               "event nobody registered creates an entry for it, which get_listeners() then reports" % (norm(store_init[0]) if store_init else "?"))
    glp = methods.get("get_listener_priority")
    if glp is not None:
        gcfg_ = ctx.cfg(glp)
        lprm = [a for a in glp.params if "listener" in a] or glp.params[-1:]
        for ret in q.returns(glp):
            if ret.value is None or (isinstance(ret.value, ast.Constant) and ret.value.value is None):
                continue
            found = None
            for rn in gcfg_.nodes_of(ret):
                found = guarded_by(gcfg_, rn, lambda e: any(isinstance(c_, ast.Compare) and len(c_.ops) == 1 and isinstance(c_.ops[0], (ast.Eq, ast.Is, ast.In)) and any(isinstance(x, ast.Name) and x.id in lprm for x in ast.walk(c_))
                                                            for c_ in ast.walk(e)) and not (isinstance(e, ast.UnaryOp) and isinstance(e.op, ast.Not)), polarity=True, kill_names=lambda e: set())
            if found is not None:
                r.ok("%s: %s only when the listener was found" % (glp.short, norm(ret)))
            else:
                r.fail(glp, ret, norm(ret) + " without a match", "%s can return a priority on a path where the listener was not found (the loop ran out): a callable that is not registered for the "
                       "event gets the priority of the last bucket instead of None" % glp.short)

    # ---------------------------------------------------------------- R10
    r = ctx.rule("C12-R10", "NULL", "every event object can answer the dispatch loop's propagation test: each event class initialises, on every path of "
                 "its constructor chain, the fields that the base class's propagation methods read (a constructor that does not chain to "
                 "Event.__init__ makes the first is_propagation_stopped() raise AttributeError - no listener of that event is ever called)", reference=4)
    ev_base = ctx.cls("clikit.api.event.event.Event")
    need = sorted({n.attr for name_, m_ in ev_base.methods.items() if name_ != "__init__" for n in walk_no_nested(m_.node) if is_self_attr(n) and isinstance(n.ctx, ast.Load)})
    ctx.require(need, "Event's methods read no field any more")

    def must_assign(cls_, init, depth=0):
        """fields assigned on every normal path through ``init`` (following super().__init__ / Base.__init__(self))"""
        cfg_ = ctx.cfg(init)
        out = set()
        for n_ in cfg_.nodes:
            if n_.kind != "stmt" or n_.ast is None:
                continue
            if not cfg_.post_dominated_by(cfg_.entry.id, {n_.id}):
                continue
            if isinstance(n_.ast, ast.Assign):
                out |= {t.attr for t in n_.ast.targets if is_self_attr(t)}
            for c in walk_no_nested(n_.ast):
                if isinstance(c, ast.Call) and isinstance(c.func, ast.Attribute) and c.func.attr == "__init__" and depth < 5:
                    for t in ctx.cg.site_for(init, c).targets:
                        if t.name == "__init__" and t.cls is not None and t.cls is not cls_:
                            out |= must_assign(t.cls, t, depth + 1)
        return out

    for c in [ev_base] + sorted(p.subclasses(ev_base, strict=True), key=lambda k: k.qualname):
        init = next((k.methods["__init__"] for k in c.mro if isinstance(k, ClassInfo) and "__init__" in k.methods), None)
        if init is None:
            r.fail(list(c.methods.values())[0] if c.methods else ev_base.methods["__init__"], c.node, "%s has no constructor" % c.name, "%s is constructed without initialising %s" % (c.name, need))
            continue
        got = must_assign(init.cls, init)
        missing = [f for f in need if f not in got]
        if missing:
            r.fail(init, init.node, "%s() leaves %s unset" % (c.name, ", ".join("self." + f for f in missing)), "%s.__init__ does not initialise %s on every path (it does not chain to the base constructor): "
                   "dispatching a %s raises AttributeError at the first propagation test, before any listener is called" % (init.cls.name, ", ".join("self." + f for f in missing), c.name))
        else:
            r.ok("%s(): %s initialised on every path" % (c.name, ", ".join(need)))
    # ---------------------------------------------------------------- R13
    r = ctx.rule("C12-R13", "ORDER", "'listeners registered for an event are called': the dispatcher the application keeps is the one the configuration has AFTER the CONFIG listeners "
                 "ran (a CONFIG listener may install another) - no value read from the configuration before the CONFIG dispatch is used after it", reference=1)
    capp = ctx.cls("clikit.console_application.ConsoleApplication")
    ci = capp.methods.get("__init__")
    ctx.require(ci is not None, "ConsoleApplication.__init__ missing")
    icfg = ctx.cfg(ci)
    dnodes = [x for c in q.calls(ci) if isinstance(c.func, ast.Attribute) and c.func.attr == "dispatch" and c.args and norm(c.args[0]).endswith("CONFIG") for x in icfg.nodes_of(c)]
    if not dnodes:
        r.vacuous_ok = True
        r.note("the constructor dispatches no CONFIG event")
    else:
        cfg_param = [a for a in ci.params if a != "self"][0]
        early = [w for w in icfg.nodes if w.kind == "stmt" and isinstance(w.ast, ast.Assign) and isinstance(w.ast.value, ast.Attribute) and isinstance(w.ast.value.value, ast.Name) and w.ast.value.value.id == cfg_param
                 and any(isinstance(t, ast.Name) for t in w.ast.targets) and any(d.id in icfg.reach_strict(w.id) for d in dnodes)]
        bad = None
        for w in early:
            var = next(t.id for t in w.ast.targets if isinstance(t, ast.Name))
            others = [x.id for x in icfg.writes(lambda t, v=var: t == v) if x.id != w.id]
            for d in dnodes:
                after = icfg.reach_strict(d.id, blocked=others)
                for n in icfg.nodes:
                    if n.id in after and n.ast is not None and n.kind in ("stmt", "return", "cond") and n.id != d.id and w.id not in (n.id,) \
                            and any(isinstance(x, ast.Name) and x.id == var and isinstance(x.ctx, ast.Load) for x in walk_no_nested(n.ast)) and d.id in icfg.reach_strict(w.id):
                        bad = (w, n, var)
        if bad:
            w, n, var = bad
            r.fail(ci, n.ast, "`%s` read before the CONFIG event is used after it" % var, "%s keeps `%s` (%s), read before the CONFIG event was dispatched, and uses it afterwards (%s): when a CONFIG "
                   "listener replaces that part of the configuration the application goes on with the old one - listeners registered on the new dispatcher for later events are never called" %
                   (ci.short, var, norm(w.ast), norm(n.ast)[:60]))
        else:
            r.ok("%s: nothing read from the configuration before the CONFIG event is used after it (%d early reads)" % (ci.short, len(early)))

    # ---------------------------------------------------------------- R14
    r = ctx.rule("C12-R14", "SENTINEL", "an event name is a key like any other (0, '' and an enum member equal to 0 are names): the optional event-name parameter of the dispatcher's "
                 "queries is tested against its sentinel (`is None` / `is not None`), never for truthiness, identically in every query", reference=3)
    n14 = 0
    for name, m in sorted(ed.methods.items()):
        opt = [a for a in m.params if a in m.defaults and isinstance(m.defaults[a], ast.Constant) and m.defaults[a].value is None]
        if not opt:
            continue
        mcfg = ctx.cfg(m)
        for a in opt:
            for c in mcfg.conds():
                e = c.ast
                if isinstance(e, ast.UnaryOp) and isinstance(e.op, ast.Not):
                    e = e.operand
                if isinstance(e, ast.Name) and e.id == a:
                    n14 += 1
                    r.fail(m, c.ast, "truthiness test of %s" % a, "%s.%s decides 'no event name given' by the truthiness of `%s`: a falsy event name (0, '', an IntEnum member 0) is treated as "
                           "'all events' - has_listeners reports other events' listeners while get_listeners says there are none" % (ed.name, name, a))
                elif isinstance(e, ast.Compare) and isinstance(e.left, ast.Name) and e.left.id == a and len(e.ops) == 1 and isinstance(e.ops[0], (ast.Is, ast.IsNot)) \
                        and isinstance(e.comparators[0], ast.Constant) and e.comparators[0].value is None:
                    n14 += 1
                    r.ok("%s.%s: `%s` tested against None" % (ed.name, name, a))
    ctx.require(n14 >= 1, "the optional event-name parameters of the dispatcher's queries were not found")

    ctx.borrow("c17", "C17-R6", "C12-R15", "'listeners registered on a dispatcher': the listener store and its sorted cache belong to one dispatcher object - no class-level container of the event classes is mutated")
    return ctx.results


def _is_stop_test(expr):
    for n in walk_no_nested(expr):
        if isinstance(n, ast.Call) and isinstance(n.func, ast.Attribute) and n.func.attr == "is_propagation_stopped":
            return True
        if isinstance(n, ast.Attribute) and n.attr == "_propagation_stopped":
            return True
    return False


def _local_fresh(fi, expr):
    """expr is a local name whose every definition in fi is a fresh container."""
    if not isinstance(expr, ast.Name):
        return False
    defs = []
    for n in walk_no_nested(fi.node):
        if isinstance(n, ast.Assign):
            for t in n.targets:
                if isinstance(t, ast.Name) and t.id == expr.id:
                    defs.append(n.value)
    return bool(defs) and all(q.is_fresh_expr(d) for d in defs)


def _sort_polarity(call):
    """'desc0' if the sort is 'descending in element 0 only'; other strings name
    what was found; None if the key cannot be classified."""
    key = q.kwarg(call, "key")
    rev = q.kwarg(call, "reverse")
    rev_val = False
    if rev is not None:
        if isinstance(rev, ast.Constant):
            rev_val = bool(rev.value)
        else:
            return None
    if key is None:
        # sorting (priority, listeners) tuples: ties between equal priorities cannot occur
        # for dict items (unique keys), so element 0 decides
        return "desc0" if rev_val else "ascending"
    if isinstance(key, ast.Lambda):
        arg = key.args.args[0].arg if key.args.args else None
        body = key.body
        neg = False
        if isinstance(body, ast.UnaryOp) and isinstance(body.op, ast.USub):
            neg = True
            body = body.operand
        if isinstance(body, ast.Subscript) and isinstance(body.value, ast.Name) and body.value.id == arg and \
                isinstance(body.slice, ast.Constant) and body.slice.value == 0:
            desc = neg != rev_val
            return "desc0" if desc else "ascending"
        return None
    if isinstance(key, ast.Call) and isinstance(key.func, (ast.Name, ast.Attribute)):
        nm = key.func.id if isinstance(key.func, ast.Name) else key.func.attr
        if nm == "itemgetter" and len(key.args) == 1 and isinstance(key.args[0], ast.Constant) and key.args[0].value == 0:
            return "desc0" if rev_val else "ascending"
    return None


def _anc(n):
    p = getattr(n, "_parent", None)
    while p is not None:
        yield p
        p = getattr(p, "_parent", None)
