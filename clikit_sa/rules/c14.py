"""C14 - tables: rendering does not modify the table (the only clause decided)."""
import ast

from ..loader import is_self_attr, walk_no_nested, norm
from ..effects import root, is_fresh, show, path_fields
from .. import q
from ..cfg import guarded_by


def run(ctx):
    p, cg, eff = ctx.p, ctx.cg, ctx.effects
    table = ctx.cls("clikit.ui.components.table.Table")
    render = table.methods.get("render")
    ctx.require(render is not None, "Table.render missing")

    r = ctx.rule("C14-R1", "READONLY", "Table.render and everything reachable from it never mutate the table's rows, "
                 "header row, their elements, or the style (any alias depth)", reference=4)
    # the table's data fields = attributes assigned in __init__
    init = table.methods.get("__init__")
    fields = sorted({t.attr for n in walk_no_nested(init.node) if isinstance(n, ast.Assign) for t in n.targets
                     if isinstance(t, ast.Attribute) and isinstance(t.value, ast.Name) and t.value.id == "self"})
    ctx.require("_rows" in fields and "_header_row" in fields, "Table._rows/_header_row not initialised in __init__")
    bad = {}
    for ev in eff.events_in(render):
        t = ev.token
        if root(t) != ("p", "self") or is_fresh(t):
            continue
        flds = path_fields(t)
        top = flds[-1] if flds else ev.kind.rsplit(":", 1)[-1]
        bad.setdefault(top, []).append(ev)
    for f in fields:
        if f not in bad:
            r.ok("Table.render: self.%s untouched (deep)" % f)
            continue
        for ev in bad[f]:
            o = ev.origin_event()
            r.fail(o.fi, o.node, "self.%s via %s" % (f, norm(o.node)),
                   "rendering modifies the table: %s is changed in place (%s)" % (show(ev.token), ev.chain()), chain=ev.chain())
    for f in sorted(set(bad) - set(fields)):
        for ev in bad[f]:
            o = ev.origin_event()
            r.fail(o.fi, o.node, "self.%s via %s" % (f, norm(o.node)), "rendering writes table state self.%s" % f, chain=ev.chain())

    r = ctx.rule("C14-R2", "OWNER", "the row lists that the border drawer splits and consumes in place are fresh "
                 "lists built by the cell wrapper for this render", reference=13)
    draw_row = ctx.func("BorderUtil.draw_row")
    s = eff.summary(draw_row)
    consumed = [t for t in s.mutations if root(t) == ("p", "row")]
    if not consumed:
        r.vacuous_ok = True
        r.note("draw_row no longer consumes its row argument in place")
    else:
        # every caller must hand a list rooted at an object created under render
        for cs in cg.callers.get(draw_row.qualname, []):
            caller = cs.caller
            evs = [ev for ev in eff.events_in(caller) if ev.via and ev.via[0] is draw_row and ev.node is cs.node]
            for ev in evs:
                rt = root(ev.token)
                if rt[0] == "new" or is_fresh(ev.token):
                    r.ok("%s: %s consumes %s" % (caller.short, norm(cs.node.func), show(ev.token)))
                elif rt[0] == "p" and rt[1] != "self":
                    # parameter of the caller: followed up at *its* callers by the events of render (R1)
                    r.ok("%s: row comes from parameter %s (checked at Table.render)" % (caller.short, rt[1]))
                else:
                    r.fail(caller, cs.node, norm(cs.node.func) + " <- " + show(ev.token),
                           "draw_row splits and pops its row argument in place, and here that argument is %s" % show(ev.token))
        # at Table.render the consumed rows must be rooted at a fresh CellWrapper
        tops = [ev for ev in eff.events_in(render) if ev.via and "draw_row" in ev.chain()]
        for ev in tops:
            if root(ev.token)[0] == "new":
                r.ok("Table.render: drawer consumes %s" % show(ev.token))

    # ---------------------------------------------------------------- R3
    r = ctx.rule("C14-R3", "SIBLING", "the border characters whose width is budgeted are the ones that are drawn "
                 "between the cells, and every width that pads a cell is measured format-aware", reference=2)
    gcw = table.methods.get("_get_cell_wrapper")
    ctx.require(gcw is not None, "Table._get_cell_wrapper missing")
    # the budget may be computed in private helpers of the table that _get_cell_wrapper calls on self
    budget_fns = [gcw] + [t for cs in cg.sites_in(gcw) for t in cs.targets if t.cls is table and t.name.startswith("_") and t is not gcw
                          and isinstance(cs.node.func, ast.Attribute) and isinstance(cs.node.func.value, ast.Name) and cs.node.func.value.id == "self"]
    measured = sorted({n.attr for f_ in budget_fns for n in walk_no_nested(f_.node) if isinstance(n, ast.Attribute) and n.attr.endswith("_char")})
    drawn = sorted({n.attr for n in walk_no_nested(draw_row.node) if isinstance(n, ast.Attribute) and n.attr.endswith("_char") and n.attr != "padding_char"})
    if measured == drawn and measured:
        r.ok("budgeted %s == drawn %s" % (measured, drawn))
    else:
        r.fail(gcw, gcw.node, "budget %s vs drawn %s" % (measured, drawn), "the width budget counts the characters %s but the rows are drawn with %s: with a style where they "
               "differ in width the table is wider than the terminal" % (measured, drawn))
    for c in q.calls(draw_row):
        if isinstance(c.func, ast.Name) and c.func.id == "get_string_length":
            second = c.args[1] if len(c.args) > 1 else q.kwarg(c, "formatter")
            first = c.args[0] if c.args else None
            formatted_first = isinstance(first, ast.Call) and isinstance(first.func, ast.Attribute) and first.func.attr == "format"
            if second is not None and not formatted_first:
                r.ok("draw_row: %s measured with the formatter" % norm(first))
            else:
                r.fail(draw_row, c, norm(c), "the pad width of a cell is measured on %s: style tags / escape codes count as visible characters and rows come out ragged" %
                       ("the formatted text" if formatted_first else "the raw text without a formatter"))

    # ---------------------------------------------------------------- R4
    r = ctx.rule("C14-R4", "RANGE", "a column is as wide as its widest cell in EVERY row: each running maximum kept inside a loop over the rows / cells "
                 "of the wrapper is updated on every path of its iteration (not only for the cells that were re-wrapped)", reference=2)
    cw = ctx.cls("clikit.ui.components.cell_wrapper.CellWrapper")
    for name, m in sorted(cw.methods.items()):
        cfg = ctx.cfg(m)
        for loop in [n for n in walk_no_nested(m.node) if isinstance(n, ast.For)]:
            over_rows = any(isinstance(x, ast.Attribute) and isinstance(x.value, ast.Name) and x.value.id == "self" and x.attr in ("_wrapped_rows", "_cells", "_cell_lengths") for x in walk_no_nested(loop.iter))
            if not over_rows:
                continue
            head = cfg.node_of(loop)
            for n in walk_no_nested(loop):
                if not (isinstance(n, ast.Assign) and len(n.targets) == 1 and isinstance(n.value, ast.Call) and isinstance(n.value.func, ast.Name) and n.value.func.id == "max"):
                    continue
                tgt = norm(n.targets[0])
                if not any(norm(a) == tgt for a in n.value.args):
                    continue
                inner = next((a for a in _anc(n) if isinstance(a, (ast.For, ast.While))), None)
                if inner is not loop:
                    continue
                body_start = [x for x in cfg.succs(head.id) if cfg.nodes[x].kind == "loop_body"]
                ids = {x.id for x in cfg.nodes_of(n)}
                if body_start and all(cfg.all_paths_hit(b, ids, [head.id]) for b in body_start):
                    r.ok("%s: %s = max(...) over every row" % (m.short, tgt))
                else:
                    r.fail(m, n, "%s = max(...) conditional" % tgt, "%s keeps the running maximum `%s` only for some rows of the column (the update is under a condition): a cell that was not "
                           "re-wrapped but is longer than every wrapped line is wider than its column - the drawer drops it together with its border" % (m.short, tgt))

    # ---------------------------------------------------------------- R5
    r = ctx.rule("C14-R5", "ORDER", "whether a border line is drawn is decided on the text that would be written: a truthiness test that guards a write sees the "
                 "value after trailing blanks were stripped, not before (an undrawn border is no line at all, not a blank line)", reference=1)
    bu = ctx.cls("clikit.ui.components.border_util.BorderUtil")
    for name, m in sorted(bu.methods.items()):
        cfg = ctx.cfg(m)
        for c in q.calls(m):
            if not (isinstance(c.func, ast.Attribute) and c.func.attr in ("write", "write_line")):
                continue
            for cn in cfg.nodes_of(c):
                g = guarded_by(cfg, cn, lambda e: isinstance(e, ast.Name), polarity=True)
                if g is None:
                    continue
                x = g.ast.id
                late = [k for k in ast.walk(c) if isinstance(k, ast.Call) and isinstance(k.func, ast.Attribute) and k.func.attr in ("rstrip", "strip") and isinstance(k.func.value, ast.Name) and k.func.value.id == x]
                if late:
                    r.fail(m, c, "%s tested before %s" % (x, norm(late[0])), "%s tests `%s` for emptiness and then writes `%s`: a line of blanks only (an undrawn border under indentation) "
                           "passes the test and comes out as an empty line of width 0 between the rows" % (m.short, x, norm(late[0])))
                else:
                    r.ok("%s: write guarded by the value it writes (%s)" % (m.short, x))
    if r.n == 0:
        r.vacuous_ok = True
    # ---------------------------------------------------------------- R7
    r = ctx.rule("C14-R7", "SIBLING", "the width that decides whether cells must be wrapped is the width of the table: the total is the sum of the per-column maxima (columns take their "
                 "widest cell from different rows), wherever it is computed", reference=2)
    col_field = None
    for m in cw.methods.values():
        for n in walk_no_nested(m.node):
            if isinstance(n, ast.Assign) and isinstance(n.value, ast.Call) and isinstance(n.value.func, ast.Name) and n.value.func.id == "max" and any(isinstance(t, ast.Subscript) and is_self_attr(t.value) for t in n.targets):
                col_field = [t.value.attr for t in n.targets if isinstance(t, ast.Subscript) and is_self_attr(t.value)][0]
    tot_writes = [(m, n) for m in cw.methods.values() for n in walk_no_nested(m.node) if isinstance(n, ast.Assign) and any(is_self_attr(t) and "total" in t.attr and "max" not in t.attr for t in n.targets)]
    if col_field is None or not tot_writes:
        r.note("per-column maxima / total width fields not recognised")
        r.vacuous_ok = True
    else:
        for m, n in tot_writes:
            v = n.value
            if isinstance(v, ast.Constant) or (isinstance(v, ast.Name) and v.id in m.params):
                continue
            ok_ = isinstance(v, ast.Call) and isinstance(v.func, ast.Name) and v.func.id == "sum" and v.args and (is_self_attr(v.args[0], col_field) or (isinstance(v.args[0], ast.Name) and any(
                isinstance(a, ast.Assign) and any(isinstance(t, ast.Name) and t.id == v.args[0].id for t in a.targets) and is_self_attr(a.value, col_field) for a in walk_no_nested(m.node))))
            if ok_:
                r.ok("%s: %s" % (m.short, norm(n)))
            else:
                r.fail(m, n, norm(n), "%s computes the total width as `%s`, not as the sum of the column widths (self.%s): when the longest cells of different columns sit on different rows the table "
                       "is taken to fit, wrapping is skipped and the rows overflow the terminal" % (m.short, norm(v), col_field))

    # ---------------------------------------------------------------- R8
    r = ctx.rule("C14-R8", "SENTINEL", "None marks a column that needs no wrapping; 0 is a width (an all-empty column): a loop variable drawn from a list in which None is stored as a marker "
                 "is compared with None, never tested for truthiness", reference=3)
    n8 = 0
    for name_, m in sorted(cw.methods.items()):
        marked = {t.value.id for n in walk_no_nested(m.node) if isinstance(n, ast.Assign) and isinstance(n.value, ast.Constant) and n.value.value is None
                  for t in n.targets if isinstance(t, ast.Subscript) and isinstance(t.value, ast.Name)}
        if not marked:
            continue
        for loop in [n for n in walk_no_nested(m.node) if isinstance(n, ast.For)]:
            it = loop.iter
            src = it.args[0] if isinstance(it, ast.Call) and isinstance(it.func, ast.Name) and it.func.id == "enumerate" and it.args else it
            if not (isinstance(src, ast.Name) and src.id in marked):
                continue
            tg = loop.target.elts[-1] if isinstance(loop.target, ast.Tuple) else loop.target
            if not isinstance(tg, ast.Name):
                continue
            v = tg.id
            for node in walk_no_nested(loop):
                tests = []
                if isinstance(node, (ast.If, ast.While, ast.IfExp)):
                    tests = [node.test]
                for t in tests:
                    parts = t.values if isinstance(t, ast.BoolOp) else [t]
                    for part in parts:
                        core = part.operand if isinstance(part, ast.UnaryOp) and isinstance(part.op, ast.Not) else part
                        if isinstance(core, ast.Name) and core.id == v:
                            n8 += 1
                            r.fail(m, t, "truthiness of `%s` (None-marked list %s)" % (v, src.id), "%s tests `%s` for truthiness although %s holds None as a marker and 0 as a legitimate width: "
                                   "an all-empty column is treated like a wrapped one, receives the rounding correction and textwrap raises 'invalid width'" % (m.short, v, src.id))
                        elif isinstance(core, ast.Compare) and isinstance(core.left, ast.Name) and core.left.id == v and isinstance(core.ops[0], (ast.Is, ast.IsNot)):
                            n8 += 1
                            r.ok("%s: `%s`" % (m.short, norm(core)))
    if n8 == 0:
        r.vacuous_ok = True

    # ---------------------------------------------------------------- R9
    r = ctx.rule("C14-R9", "OWNER", "'any border style and cell format': a table keeps its style object, not numbers derived from it - the constructor reads no attribute of the style "
                 "(widths taken from the formats at construction go stale when the style is customised afterwards)", reference=1)
    tinit = table.methods.get("__init__")
    sprm = [a for a in tinit.params if a != "self"]
    derived = [n for n in walk_no_nested(tinit.node) if isinstance(n, ast.Attribute) and ((isinstance(n.value, ast.Name) and n.value.id in sprm) or is_self_attr(n.value, "_style"))
               and not isinstance(getattr(n, "_parent", None), ast.Call)]
    derived = [n for n in derived if not (isinstance(getattr(n, "_parent", None), ast.Call) and getattr(n, "_parent").func is n)]
    if derived:
        r.fail(tinit, derived[0], "constructor reads %s" % norm(derived[0]), "Table.__init__ computes something from `%s` once: if the style's formats are changed after the table was created, "
               "borders and rows are laid out with different widths" % norm(derived[0]))
    else:
        r.ok("Table.__init__ stores the style and derives nothing from it")

    ctx.borrow("c17", "C17-R1", "C14-R6", "any border style: customising one table's style never changes another table - the object handed out by a memoising factory "
               "(BorderStyle.none/ascii/solid) is copied, never mutated or handed on as a style's own")
    # ---------------------------------------------------------------- R10
    r = ctx.rule("C14-R10", "KEY", "'no line is wider than the terminal': a cell is wrapped to the width of its column - what textwrap receives as width is the column length that "
                 "the width distribution computed, unmodified (markup is removed before measuring, it is not added back to the budget)", reference=1)
    cw = ctx.cls("clikit.ui.components.cell_wrapper.CellWrapper")
    n10 = 0
    for name, m in sorted(cw.methods.items()):
        for c in q.calls(m):
            fn_ = c.func.attr if isinstance(c.func, ast.Attribute) else (c.func.id if isinstance(c.func, ast.Name) else None)
            if fn_ not in ("wrap", "fill") or not (isinstance(c.func, ast.Name) or norm(c.func.value) == "textwrap"):
                continue
            n10 += 1
            w = c.args[1] if len(c.args) > 1 else next((k.value for k in c.keywords if k.arg == "width"), None)
            if isinstance(w, ast.Name) and w.id in m.params:
                r.ok("%s: %s wraps to the column length parameter `%s`" % (m.short, norm(c.func), w.id))
            elif isinstance(w, ast.Subscript) and is_self_attr(w.value) and "length" in w.value.attr:
                r.ok("%s: %s wraps to %s" % (m.short, norm(c.func), norm(w)))
            else:
                r.fail(m, c, "wrap width %s" % (norm(w)[:50] if w is not None else "default"), "%s wraps a cell to `%s` instead of the column's length: the cell's lines come out wider than the column the width "
                       "distribution gave it - the table exceeds the terminal width (or a later column's width goes negative and textwrap raises)" % (m.short, norm(w)[:60] if w is not None else "textwrap's default of 70"))
    if n10 == 0:
        # wrapping through a wrapper object: its width is configured elsewhere - the object rule below (R11) and the width budget (R3) still apply
        ctx.require(any(isinstance(c.func, ast.Attribute) and c.func.attr in ("wrap", "fill") for m in cw.methods.values() for c in q.calls(m)), "CellWrapper no longer wraps its cells")
        r.vacuous_ok = True
        r.note("cells are wrapped through a wrapper object, not by textwrap.wrap(text, width)")

    # ---------------------------------------------------------------- R12
    r = ctx.rule("C14-R12", "RANGE", "'rendering succeeds' after any sequence of style settings: the alignment list is extended exactly when the column lies beyond its end - the guard "
                 "of the extension is `col >= len(list)` (written `col > len(list) - 1`), neither weaker nor stronger", reference=1)
    ts = ctx.cls("clikit.ui.style.table_style.TableStyle")
    n12 = 0
    for name, m in sorted(ts.methods.items()):
        prm = [a for a in m.params if a != "self"]
        for node in walk_no_nested(m.node):
            if not (isinstance(node, ast.If) and isinstance(node.test, ast.Compare) and len(node.test.ops) == 1 and isinstance(node.test.left, ast.Name) and node.test.left.id in prm):
                continue
            if not any(isinstance(x, ast.AugAssign) and isinstance(x.op, ast.Add) for st in node.body for x in ast.walk(st)):
                continue
            rhs = node.test.comparators[0]
            c = 0
            if isinstance(rhs, ast.BinOp) and isinstance(rhs.op, (ast.Sub, ast.Add)) and isinstance(rhs.right, ast.Constant) and isinstance(rhs.right.value, int):
                c = rhs.right.value if isinstance(rhs.op, ast.Sub) else -rhs.right.value
                rhs = rhs.left
            if not (isinstance(rhs, ast.Call) and isinstance(rhs.func, ast.Name) and rhs.func.id == "len"):
                continue
            n12 += 1
            op = node.test.ops[0]
            t = (1 - c) if isinstance(op, ast.Gt) else (-c if isinstance(op, ast.GtE) else None)
            if t == 0:
                r.ok("%s: the list is extended exactly when %s >= len" % (m.short, node.test.left.id))
            else:
                r.fail(m, node.test, "extension guard `%s`" % norm(node.test), "%s extends the alignment list under `%s`, which is not `%s >= len(list)`: %s" % (m.short, norm(node.test), node.test.left.id,
                       "setting the last configured column again grows the list by one more entry each time - get_column_alignments then indexes past the columns of the table and render raises IndexError"
                       if (t is not None and t < 0) else "a column just beyond the end is stored without extending the list - IndexError"))
    if n12 == 0:
        r.vacuous_ok = True

    from .c17 import memo_key_rule
    r = ctx.rule("C14-R13", "CACHEKEY", "'no line is wider than the terminal': a wrapped cell that is kept for reuse is kept under everything it was computed from - the text AND the width it was "
                 "wrapped to (the same text in two columns of different width is two results)", reference=0)
    memo_key_rule(ctx, r, only_module="clikit.ui.components.cell_wrapper", instance_level=True)

    from .c17 import module_objects_rule
    r = ctx.rule("C14-R11", "OWNER", "'rendering twice gives the same lines': a render works with objects of its own - a module-level instance in the table modules (a shared "
                 "TextWrapper, say) is never configured per call (same rule as C17-R13)", reference=0)
    module_objects_rule(ctx, r, mod_pred=lambda mn: mn.startswith(("clikit.ui", "clikit.utils")))

    # ---------------------------------------------------------------- R14
    r = ctx.rule("C14-R14", "TABLE", "'every cell's text is kept': a cell is cut into lines at '\\n' only - `split('\\n')` gives one (empty) line for an empty cell, `splitlines()` "
                 "gives none, and a row whose cells are all empty would not be drawn at all (every later row is then read back from the wrong row)", reference=1)
    n14 = 0
    for mn_ in ("clikit.ui.components.border_util", "clikit.ui.components.table", "clikit.ui.components.cell_wrapper"):
        mod_ = p.modules.get(mn_)
        if mod_ is None:
            continue
        for f_ in [x for x in p.all_functions() if x.module is mod_]:
            for c in q.calls(f_):
                if isinstance(c.func, ast.Attribute) and c.func.attr == "splitlines":
                    n14 += 1
                    r.fail(f_, c, norm(c)[:50], "%s cuts a cell with splitlines(): an empty cell has no line at all, so a row of empty cells (or an empty cell in a one-column table) is not drawn" % f_.short)
                elif isinstance(c.func, ast.Attribute) and c.func.attr == "split" and c.args and isinstance(c.args[0], ast.Constant) and c.args[0].value == "\n":
                    n14 += 1
                    r.ok("%s: %s" % (f_.short, norm(c)[:50]))
    if n14 == 0:
        r.vacuous_ok = True

    return ctx.results


def _anc(n):
    p = getattr(n, "_parent", None)
    while p is not None:
        yield p
        p = getattr(p, "_parent", None)
