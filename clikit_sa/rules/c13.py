"""C13 - help pages are complete, respect hiding, and never fail on missing descriptions."""
import ast

from ..loader import walk_no_nested, norm, is_self_attr, ClassInfo
from ..cfg import guarded_by
from .. import q

STDLIB_DEREF = {("textwrap", "wrap"): 0, ("re", "sub"): 2, ("re", "split"): 1, ("re", "match"): 1}


def _is_optional_ann(expr):
    if expr is None:
        return False
    txt = norm(expr)
    return txt.startswith("Optional[") or txt == "None"


class Nullness(object):
    """Flow-sensitive 'may be None' analysis for locals, with summaries:
    dangerous parameters (dereferenced un-narrowed) and dangerous fields."""

    def __init__(self, ctx, scope):
        self.ctx = ctx
        self.scope = scope  # list of FuncInfo
        self.danger_params = {}  # qualname -> {param: (node, why)}
        self.danger_fields = {}  # (class qualname, field) -> (fi, node, why)
        self._fix()

    # ---- sources ---------------------------------------------------------
    def nullable_attr(self, e, fi):
        """X.attr where attr is a property declared Optional on the (clikit) type of X."""
        if not isinstance(e, ast.Attribute):
            return False
        t = self.ctx.typer.expr_type(e.value, fi)
        for c in t.classes:
            m = self.ctx.p.lookup_method(c, e.attr)
            if m is not None and m.is_property and _is_optional_ann(m.ret_type):
                return True
        return False

    def nullable(self, e, fi, state):
        if isinstance(e, ast.Name):
            return e.id in state
        if isinstance(e, ast.Attribute):
            if is_self_attr(e):
                return ("self." + e.attr) in state
            return self.nullable_attr(e, fi)
        if isinstance(e, ast.IfExp):
            return self.nullable(e.body, fi, state) or self.nullable(e.orelse, fi, state)
        if isinstance(e, ast.BoolOp) and isinstance(e.op, ast.Or):
            return self.nullable(e.values[-1], fi, state)  # `x or ""` is not nullable; `x or y` is as nullable as y
        if isinstance(e, ast.Constant):
            return e.value is None
        return False

    # ---- dereferences ----------------------------------------------------
    def derefs(self, node_ast, fi, state):
        """yield (expr, why) for dereferences of nullable values inside a statement / condition."""
        for n in walk_no_nested(node_ast):
            if isinstance(n, ast.BinOp) and isinstance(n.op, (ast.Add, ast.Mod)):
                for side in (n.left, n.right):
                    if self.nullable(side, fi, state):
                        yield side, "operand of %s" % ("+" if isinstance(n.op, ast.Add) else "%")
            elif isinstance(n, ast.AugAssign) and isinstance(n.op, ast.Add):
                if self.nullable(n.target, fi, state):
                    yield n.target, "target of +="
                if self.nullable(n.value, fi, state):
                    yield n.value, "operand of +="
            elif isinstance(n, ast.Call):
                f = n.func
                if isinstance(f, ast.Attribute) and self.nullable(f.value, fi, state) and not isinstance(f.value, ast.Attribute):
                    yield f.value, "receiver of .%s()" % f.attr
                if isinstance(f, ast.Attribute) and isinstance(f.value, ast.Name) and (f.value.id, f.attr) in STDLIB_DEREF:
                    i = STDLIB_DEREF[(f.value.id, f.attr)]
                    if i < len(n.args) and self.nullable(n.args[i], fi, state):
                        yield n.args[i], "argument of %s.%s" % (f.value.id, f.attr)
                if isinstance(f, ast.Name) and f.id == "len" and n.args and self.nullable(n.args[0], fi, state):
                    yield n.args[0], "argument of len()"
                # package callees with dangerous parameters
                cs = self.ctx.cg.site_for(fi, n)
                for t in cs.targets:
                    dp = self.danger_params.get(t.qualname, {})
                    if not dp:
                        continue
                    for prm, (dn, why) in dp.items():
                        a = q.arg_for_param(n, t, prm, bound=(cs.kind != "unbound"))
                        if a is not None and self.nullable(a, fi, state):
                            yield a, "passed to %s(%s), which uses it as %s" % (t.short, prm, why)
            elif isinstance(n, ast.Subscript) and self.nullable(n.value, fi, state):
                yield n.value, "subscripted"

    # ---- one function ----------------------------------------------------
    def analyse(self, fi, init_state=()):
        """returns list of (node, expr, why) dereferences, and the set of fields stored from nullable values"""
        ctx = self.ctx
        cfg = ctx.cfg(fi)
        states = {cfg.entry.id: frozenset(init_state)}
        work = [cfg.entry.id]
        while work:
            nid = work.pop()
            st = set(states[nid])
            node = cfg.nodes[nid]
            a = node.ast
            if node.kind in ("T", "F") and a is not None:
                nm = None
                if isinstance(a, ast.Name):
                    nm, edge = a.id, "T"
                elif is_self_attr(a):
                    nm, edge = "self." + a.attr, "T"
                elif isinstance(a, ast.Compare) and len(a.ops) == 1 and isinstance(a.comparators[0], ast.Constant) and a.comparators[0].value is None:
                    left = a.left.id if isinstance(a.left, ast.Name) else ("self." + a.left.attr if is_self_attr(a.left) else None)
                    if left:
                        nm, edge = left, ("T" if isinstance(a.ops[0], ast.IsNot) else "F" if isinstance(a.ops[0], ast.Is) else None)
                if nm is not None and edge == node.kind:
                    st.discard(nm)
            elif node.kind == "stmt" and isinstance(a, ast.Assign):
                nul = self.nullable(a.value, fi, st)
                for t in a.targets:
                    key = t.id if isinstance(t, ast.Name) else ("self." + t.attr if is_self_attr(t) else None)
                    if key:
                        (st.add if nul else st.discard)(key)
            elif node.kind == "for" and a is not None:
                for t in walk_no_nested(a.target):
                    if isinstance(t, ast.Name):
                        st.discard(t.id)
            fs = frozenset(st)
            for s in cfg.succs(nid):
                old = states.get(s)
                new = fs if old is None else (old | fs)
                if new != old:
                    states[s] = new
                    if s not in work:
                        work.append(s)
        out = []
        stores = []
        for nid, st in states.items():
            node = cfg.nodes[nid]
            a = node.ast
            if a is None or node.kind in ("T", "F", "loop", "loop_body", "loop_exit", "finally", "with_exit", "except", "def", "entry", "exit", "raise_exit"):
                continue
            part = a.iter if node.kind == "for" else a
            if node.kind == "with_enter":
                continue
            for expr, why in self.derefs(part, fi, set(st)):
                out.append((a, expr, why))
            if node.kind == "stmt" and isinstance(a, ast.Assign):
                for t in a.targets:
                    if is_self_attr(t) and self.nullable(a.value, fi, set(st)):
                        stores.append((t.attr, a))
        return out, stores

    def _fix(self):
        ctx = self.ctx
        funcs = self.scope
        # field danger: a method dereferences self.F with no narrowing, F considered nullable
        for _ in range(4):
            changed = False
            for fi in funcs:
                if fi.cls is None:
                    continue
                fields = {n.attr for n in walk_no_nested(fi.node) if is_self_attr(n) and isinstance(n.ctx, ast.Load)}
                for fld in fields:
                    key = (fi.cls.qualname, fld)
                    if key in self.danger_fields:
                        continue
                    d, _ = self.analyse(fi, init_state=["self." + fld])
                    hit = [x for x in d if norm(x[1]) == "self." + fld]
                    if hit:
                        self.danger_fields[key] = (fi, hit[0][0], hit[0][2])
                        changed = True
            for fi in funcs:
                for prm in q.param_names(fi):
                    cur = self.danger_params.setdefault(fi.qualname, {})
                    if prm in cur:
                        continue
                    d, stores = self.analyse(fi, init_state=[prm])
                    hit = [x for x in d if isinstance(x[1], ast.Name) and x[1].id == prm]
                    why = None
                    if hit:
                        why = hit[0][2]
                        node = hit[0][0]
                    else:
                        for fld, node_ in stores:
                            if fi.cls is not None:
                                for c in fi.cls.mro:
                                    if isinstance(c, ClassInfo) and (c.qualname, fld) in self.danger_fields:
                                        dfi, dn, dwhy = self.danger_fields[(c.qualname, fld)]
                                        why = "self.%s, which %s uses as %s" % (fld, dfi.short, dwhy)
                                        node = node_
                    if why:
                        cur[prm] = (node, why)
                        changed = True
            if not changed:
                break


def run(ctx):
    p, cg = ctx.p, ctx.cg
    help_mods = ("clikit.ui.help", "clikit.ui.components.labeled_paragraph", "clikit.ui.components.paragraph", "clikit.ui.components.name_version",
                 "clikit.ui.layout", "clikit.ui.alignment", "clikit.handler.help")
    scope = [f for f in p.all_functions() if f.module.name.startswith(help_mods)]
    ctx.require(len(scope) > 20, "help renderer functions not found")

    # ---------------------------------------------------------------- R1
    r = ctx.rule("C13-R1", "NULL", "a description / help / name that may be missing (declared Optional) never reaches a "
                 "string operation un-narrowed, directly or through a component that stores it", reference=11)
    nn = Nullness(ctx, scope)
    n_sources = 0
    for fi in scope:
        d, _ = nn.analyse(fi)
        srcs = [n for n in walk_no_nested(fi.node) if isinstance(n, ast.Attribute) and nn.nullable_attr(n, fi)]
        n_sources += len(srcs)
        seen = set()
        for node, expr, why in d:
            key = "%s as %s" % (norm(expr), why)
            if key in seen:
                continue
            seen.add(key)
            r.fail(fi, node, key, "%s may be None here (its getter is declared Optional: the element was configured without it) and is used as %s: "
                   "rendering the help page raises" % (norm(expr), why))
        if srcs and not d:
            r.ok("%s: %d Optional value(s) handled" % (fi.short, len(srcs)))
    ctx.require(n_sources >= 4, "Optional getters not recognised in the help renderers (%d)" % n_sources)

    # ---------------------------------------------------------------- R2
    r = ctx.rule("C13-R2", "GUARD", "every loop that turns commands into page elements skips hidden commands", reference=4)
    coll = ctx.cls("clikit.api.command.command_collection.CommandCollection")
    layout_cls = ctx.cls("clikit.ui.layout.block_layout.BlockLayout")

    def adds_to_layout(f, _seen=None):
        return any(g.cls is layout_cls and g.name == "add" for g in cg.reachable([f]).values())

    def hidden_guard_in(f, param):
        """every layout effect in f is dominated by the false edge of <param...>.is_hidden()"""
        cfg = ctx.cfg(f)
        hid_f = [e for e in cfg.nodes if e.kind == "F" and isinstance(e.ast, ast.Call) and isinstance(e.ast.func, ast.Attribute) and e.ast.func.attr == "is_hidden"]
        if not hid_f:
            return False
        effects = []
        for cs in cg.sites_in(f):
            if any((t.cls is layout_cls and t.name == "add") or adds_to_layout(t) for t in cs.targets):
                effects.extend(cfg.nodes_of(cs.node))
        return bool(effects) and all(any(cfg.dominates(h.id, e.id) for h in hid_f) for e in effects)

    for fi in [f for f in scope if f.module.name.startswith("clikit.ui.help")]:
        cfg = ctx.cfg(fi)
        for loop in [n for n in walk_no_nested(fi.node) if isinstance(n, ast.For)]:
            it = loop.iter
            t = ctx.typer.expr_type(it, fi)
            inner = it.args[0] if isinstance(it, ast.Call) and isinstance(it.func, ast.Name) and it.func.id in ("sorted", "list", "reversed") and it.args else it
            t2 = ctx.typer.expr_type(inner, fi)
            if coll not in t.classes and coll not in t2.classes:
                continue
            var = loop.target.id if isinstance(loop.target, ast.Name) else None
            body_nodes = [n for n in cfg.nodes if n.kind in ("stmt",) and any(a is loop for a in _anc(n.ast))]
            effects = []
            for n in body_nodes:
                for c in walk_no_nested(n.ast):
                    if not isinstance(c, ast.Call):
                        continue
                    uses_var = any(isinstance(x, ast.Name) and x.id == var for a in list(c.args) + [k.value for k in c.keywords] for x in walk_no_nested(a))
                    cs = cg.site_for(fi, c)
                    if uses_var and isinstance(c.func, ast.Attribute) and c.func.attr in ("append", "add", "insert"):
                        effects.append((n, c, None))
                    elif uses_var and any(adds_to_layout(tg) for tg in cs.targets):
                        effects.append((n, c, cs.targets))
            if not effects:
                continue
            hid_f = [e for e in cfg.nodes if e.kind == "F" and isinstance(e.ast, ast.Call) and isinstance(e.ast.func, ast.Attribute) and e.ast.func.attr == "is_hidden"
                     and any(isinstance(x, ast.Name) and x.id == var for x in walk_no_nested(e.ast))]
            for n, c, targets in effects:
                desc = "%s: for %s in %s -> %s" % (fi.short, var, norm(it)[:40], norm(c)[:50])
                if any(cfg.dominates(h.id, n.id) for h in hid_f):
                    r.ok(desc + " [hidden test in the loop]")
                elif targets and all(hidden_guard_in(tg, var) for tg in targets):
                    r.ok(desc + " [hidden test in the callee]")
                else:
                    r.fail(fi, c, "for %s in %s: %s(...)" % (var, norm(it), norm(c.func)),
                           "commands of %s are turned into page elements without a hidden test: a hidden command is listed" % norm(it))

    # ---------------------------------------------------------------- R3
    r = ctx.rule("C13-R3", "TABLE", "arguments and options are enumerated own and inherited; both names of an option "
                 "are printed when it has both", reference=7)
    ch = ctx.func("CommandHelp._render_help")
    args_calls = [c for c in q.calls(ch) if isinstance(c.func, ast.Attribute) and c.func.attr == "get_arguments"]
    if args_calls and any(not c.args and not c.keywords for c in args_calls):
        r.ok("CommandHelp: arguments listed own and inherited (get_arguments())")
    else:
        r.fail(ch, ch.node, "arguments coverage", "the command help lists only the command's own arguments (inherited ones are missing)")
    opt_calls = [c for c in q.calls(ch) if isinstance(c.func, ast.Attribute) and c.func.attr == "get_options"]
    own = [c for c in opt_calls if c.args and isinstance(c.args[0], ast.Constant) and c.args[0].value is False and any(getattr(p_, "func", None) is not None and norm(p_.func).endswith("_render_options") for p_ in _anc(c) if isinstance(p_, ast.Call))]
    base = [c for c in opt_calls if "base_format" in norm(c.func.value) and any(isinstance(p_, ast.Call) and norm(p_.func).endswith("_render_global_options") for p_ in _anc(c))]
    allopts = [c for c in opt_calls if not c.args and "base_format" not in norm(c.func.value) and any(isinstance(p_, ast.Call) and "_render_" in norm(p_.func) for p_ in _anc(c))]
    if (own and base) or allopts:
        r.ok("CommandHelp: options listed own (OPTIONS) and inherited (GLOBAL OPTIONS)")
    else:
        r.fail(ch, ch.node, "options coverage", "the command help does not list both the command's own and the inherited options")
    # the guards that decide whether a section appears at all must cover the inherited elements too
    for c in q.calls(ch):
        if isinstance(c.func, ast.Attribute) and c.func.attr == "has_arguments":
            par = getattr(c, "_parent", None)
            if c.args and isinstance(c.args[0], ast.Constant) and c.args[0].value is False:
                r.fail(ch, c, norm(c), "the ARGUMENTS section is shown only when the command has arguments of its own: a sub-command that only inherits "
                       "arguments lists none")
            else:
                r.ok("CommandHelp: ARGUMENTS section guarded by has_arguments() incl. inherited")
    # the inherited options of a command page come from the command's own format chain (its base format), so that the options of
    # every ancestor command are listed, not only the application's
    inh = [c for c in q.calls(ch) if isinstance(c.func, ast.Attribute) and c.func.attr == "_render_global_options"]
    for c in inh:
        src = c.args[-1] if c.args else None
        locs = {t.id: n.value for n in walk_no_nested(ch.node) if isinstance(n, ast.Assign) for t in n.targets if isinstance(t, ast.Name)}
        expr = locs.get(src.id, src) if isinstance(src, ast.Name) else src
        via_local = expr is not None and any(isinstance(x, ast.Name) and x.id in locs and any(isinstance(y, ast.Attribute) and y.attr == "base_format" for y in ast.walk(locs[x.id])) for x in ast.walk(expr))
        if expr is not None and (via_local or any(isinstance(x, ast.Attribute) and x.attr == "base_format" for x in ast.walk(expr))):
            r.ok("CommandHelp: inherited options listed from the format's base chain")
        else:
            r.fail(ch, c, norm(c)[:70], "the inherited-options section of a command page is fed from `%s`, not from the command format's base format: options declared by a parent "
                   "command disappear from the pages of its sub-commands" % (norm(expr) if expr is not None else "?"))
    ah = ctx.func("ApplicationHelp._render_help")
    if any(isinstance(c.func, ast.Attribute) and c.func.attr == "get_options" and not c.args for c in q.calls(ah)) and \
            any(isinstance(c.func, ast.Attribute) and c.func.attr == "_render_commands" for c in q.calls(ah)):
        r.ok("ApplicationHelp: global options and the named commands are listed")
    else:
        r.fail(ah, ah.node, "application help coverage", "the application help does not list the global options / the named commands")
    ro = ctx.func("AbstractHelp._render_option")
    names = {n.attr for n in walk_no_nested(ro.node) if isinstance(n, ast.Attribute)}
    cfg = ctx.cfg(ro)
    alt_use = [n for n in cfg.nodes if n.kind == "stmt" and isinstance(n.ast, (ast.AugAssign, ast.Assign)) and any(isinstance(x, ast.Name) and "alternative" in x.id for x in walk_no_nested(n.ast.value))
               and not any(isinstance(t, ast.Name) and "alternative" in t.id for t in (n.ast.targets if isinstance(n.ast, ast.Assign) else [n.ast.target]))]
    if {"long_name", "short_name"} <= names and alt_use:
        r.ok("_render_option prints the preferred and the alternative name")
    else:
        r.fail(ro, ro.node, "both names", "an option with a long and a short name is listed under only one of them")
    sub_use = ctx.func("CommandHelp._render_help")
    if any(isinstance(c.func, ast.Attribute) and c.func.attr == "_render_sub_commands" for c in q.calls(sub_use)) and \
            any(isinstance(n, ast.Attribute) and n.attr == "named_sub_commands" for n in walk_no_nested(sub_use.node)):
        r.ok("CommandHelp lists the named sub-commands")
    else:
        r.fail(sub_use, sub_use.node, "sub-commands", "the command help does not list the named sub-commands")

    # ---------------------------------------------------------------- R5
    r = ctx.rule("C13-R5", "TABLE", "text is wrapped with long words broken (else one unbreakable word makes a line "
                 "wider than the terminal); the help command takes a whole command path", reference=3)
    for fi in [f for f in p.all_functions() if f.module.name.startswith("clikit.ui")]:
        for c in q.calls(fi):
            if isinstance(c.func, ast.Attribute) and isinstance(c.func.value, ast.Name) and c.func.value.id == "textwrap" and c.func.attr in ("wrap", "fill"):
                kw = {k.arg: k.value for k in c.keywords}
                off = [k for k in ("break_long_words",) if k in kw and isinstance(kw[k], ast.Constant) and kw[k].value is False]
                if off and fi.module.name.startswith(("clikit.ui.components.labeled_paragraph", "clikit.ui.components.paragraph")):
                    r.fail(fi, c, norm(c)[:80], "%s wraps without breaking long words: a token longer than the text column makes the line wider than the terminal" % fi.short)
                elif fi.module.name.startswith(("clikit.ui.components.labeled_paragraph", "clikit.ui.components.paragraph")):
                    r.ok("%s: %s" % (fi.short, norm(c)[:50]))
    dac = ctx.func("DefaultApplicationConfig.configure")
    found = False
    for c in q.calls(dac):
        if isinstance(c.func, ast.Attribute) and c.func.attr == "add_argument" and c.args and isinstance(c.args[0], ast.Constant) and c.args[0].value == "command":
            found = True
            flags = norm(c.args[1]) if len(c.args) > 1 else ""
            if "MULTI_VALUED" in flags and "OPTIONAL" in flags:
                r.ok("help command: argument 'command' is OPTIONAL | MULTI_VALUED")
            else:
                r.fail(dac, c, norm(c)[:80], "the help command's 'command' argument is declared as %s: 'help <a> <b>' (a path of two or more names) is rejected as too many arguments "
                       "while '<a> <b> --help' works" % (flags or "default"))
    if not found:
        r.note("the default configuration declares no 'command' argument for the help command")

    # ---------------------------------------------------------------- R4
    r = ctx.rule("C13-R4", "OWNER", "each render builds a fresh layout and does not keep it on the component", reference=1)
    ab = ctx.func("AbstractHelp.render")
    ctor = [n for n in walk_no_nested(ab.node) if isinstance(n, ast.Assign) and isinstance(n.value, ast.Call) and isinstance(n.value.func, ast.Name) and n.value.func.id == "BlockLayout"]
    stored = [n for f in scope for n in walk_no_nested(f.node) if isinstance(n, ast.Assign) and any(is_self_attr(t) for t in n.targets)
              and f.cls is not None and f.cls.name.endswith("Help") and (isinstance(n.value, ast.Call) and norm(n.value.func) == "BlockLayout" or (isinstance(n.value, ast.Name) and n.value.id == "layout"))]
    if ctor and all(isinstance(c.targets[0], ast.Name) for c in ctor) and not stored:
        r.ok("AbstractHelp.render: layout = BlockLayout() is a local")
    else:
        r.fail(ab, ab.node, "layout lifetime", "the help renderer keeps its layout between renders: a second render repeats or loses elements")

    # ---------------------------------------------------------------- R6
    r = ctx.rule("C13-R6", "RANGE", "the wrapping width pays for every prefix that is put in front of a wrapped line outside the wrapper: each "
                 "length n of a `' ' * n` prefix prepended to the first line (in the written string) or to the following lines (in the "
                 "re-indenting substitution) is subtracted in the width handed to textwrap (prefixes passed as initial_/subsequent_indent "
                 "are counted by textwrap itself)", reference=5)
    for fi in [f for f in p.all_functions() if f.module.name.startswith(("clikit.ui.components.labeled_paragraph", "clikit.ui.components.paragraph"))]:
        wraps = [c for c in q.calls(fi) if isinstance(c.func, ast.Attribute) and isinstance(c.func.value, ast.Name) and c.func.value.id == "textwrap" and c.func.attr in ("wrap", "fill")]
        if not wraps:
            continue
        defs = {}
        for n in walk_no_nested(fi.node):
            if isinstance(n, ast.Assign) and len(n.targets) == 1 and isinstance(n.targets[0], ast.Name):
                defs.setdefault(n.targets[0].id, []).append(n.value)

        def linear(e, depth=0):
            """{var: coeff} or None"""
            if isinstance(e, ast.Constant) and isinstance(e.value, int):
                return {"1": e.value}
            if isinstance(e, ast.Name):
                d = defs.get(e.id, [])
                if len(d) == 1 and depth < 6:
                    sub = linear(d[0], depth + 1)
                    if sub is not None:
                        return sub
                return {e.id: 1}
            if isinstance(e, ast.Attribute):
                return {"W" if e.attr == "width" else norm(e): 1}
            if isinstance(e, ast.BinOp) and isinstance(e.op, (ast.Add, ast.Sub)):
                a, b = linear(e.left, depth), linear(e.right, depth)
                if a is None or b is None:
                    return None
                out = dict(a)
                sg = 1 if isinstance(e.op, ast.Add) else -1
                for k, v in b.items():
                    out[k] = out.get(k, 0) + sg * v
                return out
            return None

        def prefix_len(name):
            d = defs.get(name, [])
            if len(d) == 1 and isinstance(d[0], ast.BinOp) and isinstance(d[0].op, ast.Mult):
                for a_, b_ in ((d[0].left, d[0].right), (d[0].right, d[0].left)):
                    if isinstance(a_, ast.Constant) and a_.value == " " and isinstance(b_, ast.Name):
                        return b_.id
            return None

        for w in wraps:
            warg = w.args[1] if len(w.args) > 1 else next((k.value for k in w.keywords if k.arg == "width"), None)
            if warg is None:
                r.fail(fi, w, norm(w)[:60] + " default width", "%s wraps at textwrap's default width, not at the terminal's" % fi.short)
                continue
            lin = linear(warg)
            if lin is None or "W" not in lin:
                r.note("%s: width %s is not a linear form of the terminal width - not evaluated" % (fi.short, norm(warg)))
                continue
            inside = {prefix_len(k.value.id) for k in w.keywords if k.arg in ("initial_indent", "subsequent_indent") and isinstance(k.value, ast.Name)}
            init_in = {prefix_len(k.value.id) for k in w.keywords if k.arg == "initial_indent" and isinstance(k.value, ast.Name)}
            subs_in = {prefix_len(k.value.id) for k in w.keywords if k.arg == "subsequent_indent" and isinstance(k.value, ast.Name)}
            # outside prefixes
            first_out, next_out = set(), set()
            for c in q.calls(fi):
                if isinstance(c.func, ast.Attribute) and c.func.attr in ("write", "write_line") :
                    for x in ast.walk(c):
                        if isinstance(x, ast.Name) and prefix_len(x.id):
                            first_out.add(prefix_len(x.id))
                if isinstance(c.func, ast.Attribute) and c.func.attr == "sub" and len(c.args) >= 2:
                    for x in ast.walk(c.args[1]):
                        if isinstance(x, ast.Name) and prefix_len(x.id):
                            next_out.add(prefix_len(x.id))
            for which, outs, ins in (("first line", first_out, init_in), ("following lines", next_out, subs_in)):
                for v in sorted(outs):
                    if lin.get(v, 0) <= -1:
                        r.ok("%s: %s prefix ' ' * %s paid for in width %s" % (fi.short, which, v, norm(warg)))
                    elif v in ins and lin.get(v, 0) == 0:
                        r.fail(fi, w, "%s prefixed twice by ' ' * %s" % (which, v), "%s: the %s get the prefix of length %s from textwrap and again outside it" % (fi.short, which, v))
                    else:
                        r.fail(fi, w, "%s prefix ' ' * %s not paid for in the width" % (which, v), "%s puts a prefix of %s blanks in front of the %s outside the wrapper, but the wrapping width `%s` "
                               "does not subtract %s: with indentation the line can be wider than the terminal" % (fi.short, v, which, norm(warg), v))

    # ---------------------------------------------------------------- R7
    from .c17 import render_readonly_rule

    r = ctx.rule("C13-R7", "READONLY", "rendering a help page succeeds the second time too: render() leaves the help object's own state as it found it "
                 "(a builder kept on the object and extended per render raises 'option exists already' on the next render; same rule as C17-R5)", reference=1)
    render_readonly_rule(ctx, r, mod_pred=lambda m: m.startswith("clikit.ui.help"))
    if r.n == 0:
        r.fail(ab, ab.node, "no help component", "no help component with a render() found")
    # ---------------------------------------------------------------- R9
    r = ctx.rule("C13-R9", "OWNER", "'no rendered line is wider than the terminal': every component a help page is built from either wraps what it writes (textwrap), writes "
                 "constants only, or hands its text to a component that does - none writes configuration text (name, version, descriptions) to the I/O directly", reference=4)
    comp_base = ctx.cls("clikit.ui.component.Component")
    used = set()
    for f in scope:
        for c in q.calls(f):
            if isinstance(c.func, ast.Name):
                k = p.resolve_class_expr(f.module, c.func, f)
                if isinstance(k, ClassInfo) and comp_base in k.mro and k.module.name.startswith("clikit.ui.components"):
                    used.add(k)
    for k in sorted(used, key=lambda x: x.qualname):
        m = p.lookup_method(k, "render")
        if m is None:
            continue
        wraps = any(isinstance(c.func, ast.Attribute) and isinstance(c.func.value, ast.Name) and c.func.value.id == "textwrap" for c in q.calls(m))
        writes = [c for c in q.calls(m) if isinstance(c.func, ast.Attribute) and c.func.attr in ("write", "write_line", "error", "error_line") and isinstance(c.func.value, ast.Name) and c.func.value.id in m.params]
        raw = [c for c in writes if not all(isinstance(a, ast.Constant) for a in c.args)]
        if wraps or not raw:
            r.ok("%s.render: %s" % (k.name, "wraps its text" if wraps else ("writes constants only" if writes else "delegates to other components")))
        else:
            r.fail(m, raw[0], "%s.render writes %s unwrapped" % (k.name, norm(raw[0].args[0])[:50] if raw[0].args else "text"), "%s.render writes text that is not a constant straight to the I/O without wrapping it: "
                   "a long display name / version gives a line wider than the terminal on the application help" % k.name)

    # ---------------------------------------------------------------- R10
    r = ctx.rule("C13-R10", "NULL", "'rendering succeeds' for every declared default: a value of unknown element type (a parameter declared Any - the default of an option or argument) "
                 "is never handed to str.join, which raises TypeError for a list of numbers or booleans", reference=1)
    n10 = 0
    for f in scope:
        env = ctx.typer.env(f)
        for c in q.calls(f):
            if isinstance(c.func, ast.Attribute) and c.func.attr == "join" and isinstance(c.func.value, ast.Constant) and c.args and isinstance(c.args[0], ast.Name) and c.args[0].id in f.params:
                # declared type of the parameter (type comment / annotation): Any, or none at all
                declared = None
                tc = getattr(f.node, "type_comment", None)
                names_ = [a.arg for a in f.node.args.args if a.arg not in ("self", "cls")]
                if tc:
                    try:
                        ft = ast.parse(tc, mode="func_type")
                        if len(ft.argtypes) == len(names_) and c.args[0].id in names_:
                            declared = norm(ft.argtypes[names_.index(c.args[0].id)])
                    except SyntaxError:
                        pass
                for a in f.node.args.args:
                    if a.arg == c.args[0].id and a.annotation is not None:
                        declared = norm(a.annotation)
                unknown = declared is None or declared in ("Any", "object") or declared.startswith(("List[Any", "Union", "Optional[Any"))
                if unknown:
                    n10 += 1
                    r.fail(f, c, norm(c), "%s joins the elements of `%s`, whose element type is not known to be str (declared Any): a multi-valued default such as [1, 2] makes the help page raise TypeError" % (f.short, c.args[0].id))
    fv = [f for f in scope if f.name == "_format_value"]
    for f in fv:
        n10 += 1
        if not any(fd.key.startswith("C13-R10|" + f.qualname) for fd in r.findings):
            r.ok("%s: values are serialised as a whole (%s)" % (f.short, ", ".join(sorted({norm(c.func) for c in q.calls(f)}))[:60]))
    if n10 == 0:
        r.vacuous_ok = True
    # ---------------------------------------------------------------- R11
    r = ctx.rule("C13-R11", "ORDER", "help for a command is rendered whatever the rest of the line lacks: the lenient mode that the help resolver switches on applies to the parse whose "
                 "result it hands on - a resolve result memoises its parse, so the result passed on after the switch is one created after the switch, not the one that was "
                 "already parsed (strictly) while the command was being resolved", reference=1)
    rr_cls = ctx.cls("clikit.resolver.resolve_result.ResolveResult")
    memo = any(isinstance(n, ast.Assign) and any(is_self_attr(t) for t in n.targets) and isinstance(n.value, ast.Constant) and n.value.value is True for m_ in rr_cls.methods.values() for n in walk_no_nested(m_.node))
    n11 = 0
    for fi in p.all_functions():
        if fi.module.name.startswith(("clikit.api.config", "clikit.config")):
            continue
        sw = [c for c in q.method_calls(fi, "enable_lenient_args_parsing")]
        if not sw:
            continue
        fcfg = ctx.cfg(fi)
        sw_ids = {n.id for c in sw for n in fcfg.nodes_of(c)}
        for cs in ctx.cg.sites_in(fi):
            if cs.kind != "super" and not any(t.name == "create_resolved_command" for t in cs.targets):
                continue
            for a in cs.node.args:
                if not isinstance(a, ast.Name):
                    continue
                t = ctx.typer.expr_type(a, fi)
                if rr_cls not in t.classes and a.id not in fi.params:
                    continue
                n11 += 1
                defs = [w for w in fcfg.writes(lambda tx, nm=a.id: tx == nm)]
                fresh_after = [w for w in defs if isinstance(w.ast, ast.Assign) and isinstance(w.ast.value, ast.Call) and norm(w.ast.value.func).endswith("ResolveResult") and any(fcfg.dominates(x, w.id) for x in sw_ids)]
                use_nodes = fcfg.nodes_of(cs.node)
                ok_ = bool(fresh_after) and all(any(fcfg.dominates(w.id, u.id) for w in fresh_after) for u in use_nodes)
                # the parse is lazy: it happens inside the call that receives the result - which must still be inside the lenient window
                off_ids = [n.id for c in q.method_calls(fi, "disable_lenient_args_parsing") for n in fcfg.nodes_of(c)]
                closed = [u for u in use_nodes if any(u.id in fcfg.reach_strict(d) for d in off_ids)]
                if closed:
                    r.fail(fi, cs.node, "%s hands the result on after lenient mode was switched off" % fi.name, "%s switches lenient parsing off again before it hands `%s` to %s: a resolve result parses lazily, "
                           "so the parse runs strictly after all - `help <cmd>` and `<cmd> --help` fail with 'Not enough arguments' when the command has a required argument" % (fi.short, a.id, norm(cs.node.func)[:50]))
                elif ok_ or not memo:
                    r.ok("%s: the result handed on is parsed after the switch" % fi.short)
                else:
                    r.fail(fi, cs.node, "%s hands on a result parsed before the switch" % fi.name, "%s switches the command to lenient parsing and then hands on `%s`, a resolve result that was created - and already parsed, "
                           "strictly, by the 'first parsable default' search - before the switch; the memoised strict error is raised: `help <cmd>` and `<cmd> --help` fail with "
                           "'Not enough arguments' for a command whose default sub-command has a required argument" % (fi.short, a.id))
    if n11 == 0:
        r.vacuous_ok = True

    ctx.borrow("c17", "C17-R3", "C13-R8", "'help <path>' shows the page of <path>: the help resolver removes exactly the leading help token (position 0, put back on every exit) and no "
               "other occurrence - a sub-command that is itself called 'help' stays in the path")
    ctx.borrow("c03", "C03-R5", "C13-R12", "'never a disabled command': a disabled command is registered nowhere, at application and at sub-command level alike - the test looks at the configuration of the command being added")
    ctx.borrow("c11", "C11-R10", "C13-R13", "'no line is wider than the terminal': widths are measured on text stripped by the engine that renders it - a literal '<name>' in an argument label is text for both")
    ctx.borrow("c08", "C08-R3", "C13-R14", "'help <path> prints the page of <path>': the help resolver edits the token list the raw args hold - every kind of raw args hands out that list itself and derives its option tokens from it")
    return ctx.results


def _anc(n):
    p = getattr(n, "_parent", None)
    while p is not None:
        yield p
        p = getattr(p, "_parent", None)
