"""C10 - quiet and verbosity gate every write path identically."""
import ast

from ..loader import AnalysisError, walk_no_nested, norm, is_self_attr
from ..cfg import guarded_by
from .. import q

GATE = "_may_write"


def _is_gate_call(expr, arg_name=None):
    """self._may_write(X) (X == arg_name when given)."""
    if isinstance(expr, ast.Call) and isinstance(expr.func, ast.Attribute) and expr.func.attr == GATE \
            and isinstance(expr.func.value, ast.Name) and expr.func.value.id == "self" and expr.args:
        if arg_name is None:
            return True
        a = expr.args[0]
        return isinstance(a, ast.Name) and a.id == arg_name
    return False


def flags_param(fi):
    for prm in q.param_names(fi):
        if prm == "flags":
            return prm
    return None


def flags_is_callers(fi):
    """The name ``flags`` still denotes the caller's flags: every rebinding is a
    normalisation that mentions ``flags`` itself or assigns the neutral 0/None
    under a 'flags is None' test."""
    for n in walk_no_nested(fi.node):
        if isinstance(n, (ast.Assign, ast.AugAssign)):
            tg = n.targets if isinstance(n, ast.Assign) else [n.target]
            for t in tg:
                if isinstance(t, ast.Name) and t.id == "flags":
                    v = n.value
                    if "flags" in q.names_in(v):
                        continue
                    if isinstance(v, ast.Constant) and v.value in (0, None):
                        # accepted only under `flags is None`
                        st = n
                        ok = False
                        for anc in [x for x in _ancestors(n)]:
                            if isinstance(anc, ast.If) and "flags" in q.names_in(anc.test) and \
                                    any(isinstance(c, ast.Constant) and c.value is None for c in walk_no_nested(anc.test)):
                                ok = True
                        if ok:
                            continue
                    return n
    return None


def _ancestors(n):
    p = getattr(n, "_parent", None)
    while p is not None:
        yield p
        p = getattr(p, "_parent", None)


def gated(ctx, fi, site_node):
    """CFG node ``site_node`` of ``fi`` is dominated by the true edge of
    self._may_write(flags) (flags = the method's own parameter if it has one)."""
    cfg = ctx.cfg(fi)
    fp = flags_param(fi)
    return guarded_by(cfg, site_node, lambda e: _is_gate_call(e, fp), polarity=True,
                      kill_names=lambda e: {fp} if fp else set())


def run(ctx):
    p = ctx.p
    cg = ctx.cg
    out_cls = ctx.cls("clikit.api.io.output.Output")
    io_cls = ctx.cls("clikit.api.io.io.IO")
    stream_cls = ctx.cls("clikit.api.io.output_stream.OutputStream")
    out_classes = p.subclasses(out_cls)
    io_classes = p.subclasses(io_cls)
    stream_classes = p.subclasses(stream_cls)
    stream_writes = [c.methods["write"] for c in stream_classes if "write" in c.methods]
    ctx.require(stream_writes, "no OutputStream.write implementation found")
    sw = set(f.qualname for f in stream_writes)
    gate_fn = p.lookup_method(out_cls, GATE)
    ctx.require(gate_fn is not None, "Output._may_write missing")

    def reaches_stream(f):
        return any(qn in sw for qn in cg.reachable([f]))

    family = []
    for c in out_classes + io_classes:
        for name, m in sorted(c.methods.items()):
            if m.is_property or name in ("__init__", GATE):
                continue
            if reaches_stream(m):
                family.append(m)
    fam_q = set(f.qualname for f in family)

    # ---------------------------------------------------------------- R1
    r = ctx.rule("C10-R1", "GUARD", "every call of the underlying stream's write is dominated by the gate applied "
                 "to the caller's flags; nobody outside the Output classes writes to a stream", reference=3)
    for fi in p.all_functions():
        for cs in cg.sites_in(fi):
            if not any(t.qualname in sw for t in cs.targets):
                continue
            if not (isinstance(cs.node.func, ast.Attribute) and cs.node.func.attr == "write"):
                continue
            owner = fi.cls
            if owner is not None and owner in stream_classes:
                continue
            desc = "%s: %s" % (fi.short, norm(cs.node))
            if owner is None or owner not in out_classes:
                r.fail(fi, cs.node, norm(cs.node), "raw OutputStream.write outside the Output classes bypasses quiet/verbosity")
                continue
            cfg = ctx.cfg(fi)
            nodes = cfg.nodes_of(cs.node)
            bad_rebind = flags_is_callers(fi) if flags_param(fi) else None
            if all(gated(ctx, fi, n) is not None for n in nodes) and nodes and bad_rebind is None:
                r.ok(desc)
            elif bad_rebind is not None:
                r.fail(fi, bad_rebind, norm(bad_rebind), "the flags parameter is overwritten before the gate is consulted")
            else:
                r.fail(fi, cs.node, norm(cs.node), "stream write not dominated by self.%s(%s)" % (GATE, flags_param(fi) or "..."),
                       entry=fi.qualname)

    # ---------------------------------------------------------------- R2
    r = ctx.rule("C10-R2", "TAINT", "a writing method that hands its text on to another writing (or recording) "
                 "method forwards its flags, or is itself gated at that point", reference=12)
    consumers = {}
    for c in out_classes + io_classes:
        for name, m in c.methods.items():
            consumers[m.qualname] = m
    for F in family:
        fp = flags_param(F)
        if fp is None:
            continue
        params = q.param_names(F)
        text = params[0] if params and params[0] != fp else None
        if text is None:
            continue
        derived = {text}
        for _ in range(3):
            for n in walk_no_nested(F.node):
                if isinstance(n, ast.Assign) and q.names_in(n.value) & derived:
                    for t in n.targets:
                        if isinstance(t, ast.Name):
                            derived.add(t.id)
        cfg = ctx.cfg(F)
        rebind = flags_is_callers(F)
        for cs in cg.sites_in(F):
            tg = [t for t in cs.targets if t.qualname in consumers]
            if not tg:
                continue
            args = list(cs.node.args) + [k.value for k in cs.node.keywords]
            if not any(q.names_in(a) & derived for a in args):
                continue
            relevant = []
            for t in tg:
                if t.qualname in fam_q:
                    relevant.append(t)
                elif t.name not in ("format", "remove_format", GATE) and any(
                        ev.token and ev.token[0] in ("p", "f", "e") for ev in ctx.effects.events_in(t)
                        if ev.token[0] != "new" and _rooted_self(ev.token)):
                    relevant.append(t)  # records the text in the output's state
            if not relevant:
                continue
            desc = "%s: %s" % (F.short, norm(cs.node))
            nodes = cfg.nodes_of(cs.node)
            is_gated = bool(nodes) and all(gated(ctx, F, n) is not None for n in nodes)
            forwards = True
            for t in relevant:
                tfp = flags_param(t)
                if tfp is None:
                    forwards = False
                    continue
                a = q.arg_for_param(cs.node, t, tfp)
                if not (isinstance(a, ast.Name) and a.id == fp):
                    forwards = False
            if rebind is not None and not is_gated:
                r.fail(F, rebind, norm(rebind), "the flags parameter is overwritten before it is forwarded")
            elif forwards or is_gated:
                r.ok(desc + (" [forwarded]" if forwards else " [gated]"))
            else:
                r.fail(F, cs.node, norm(cs.node),
                       "%s passes its text on without its flags and without being gated by %s(%s): "
                       "a message flagged for a higher verbosity is written anyway" % (F.short, GATE, fp),
                       callee=", ".join(t.short for t in relevant))

    # ---------------------------------------------------------------- R3
    r = ctx.rule("C10-R3", "TABLE", "the gate refuses when quiet before anything else, then tests the levels in "
                 "ascending order, each against >= the same level, and falls through to True", reference=11)
    _gate_table(ctx, r, gate_fn)

    # ---------------------------------------------------------------- R4
    r = ctx.rule("C10-R4", "SIBLING", "no output class replaces the gate; the setters write the fields the gate reads",
                 reference=2)
    for c in out_classes:
        if c is not gate_fn.cls and GATE in c.methods:
            m = c.methods[GATE]
            calls_super = any(cs.kind == "super" and gate_fn in cs.targets for cs in cg.sites_in(m))
            if calls_super:
                r.ok("%s overrides %s but delegates to the base gate" % (c.name, GATE))
            else:
                r.fail(m, m.node, "def %s" % GATE, "%s replaces the gate without consulting Output.%s" % (c.name, GATE))
    read = set()
    for n in walk_no_nested(gate_fn.node):
        if is_self_attr(n) and isinstance(n.ctx, ast.Load) and n.attr != GATE and p.lookup_method(out_cls, n.attr) is None:
            read.add(n.attr)
    for fld in sorted(read):
        setters = []
        for c in [x for x in out_cls.mro if hasattr(x, "methods")]:
            for name, m in c.methods.items():
                if name == "__init__":
                    continue
                for node, kind, t in q.writes_to_self_attr(m, fld):
                    if kind == "rebind":
                        setters.append(m)
        pub = [m for m in setters if m.name.startswith("set_")]
        if pub:
            r.ok("gate field %s written by %s" % (fld, ", ".join(sorted(set(m.short for m in pub)))))
        else:
            r.fail(gate_fn, gate_fn.node, "field " + fld, "the gate reads self.%s but no setter of Output writes it" % fld)

    # ---------------------------------------------------------------- R5
    from .c09 import io_setters_rule

    r = ctx.rule("C10-R5", "SIBLING", "leaving quiet mode / raising the verbosity on an I/O reaches the standard AND the error output on every path "
                 "(no early return on the state of one of them; same rule as C09-R6)", reference=2)
    io_setters_rule(ctx, r, ("set_quiet", "set_verbosity"))

    # ---------------------------------------------------------------- R6
    r = ctx.rule("C10-R6", "TABLE", "the message-level flags are independent bits (the gate tests them with &): NORMAL is 0, VERBOSE / VERY_VERBOSE / DEBUG are distinct powers of two", reference=4)
    fmod = p.modules.get("clikit.api.io.flags")
    ctx.require(fmod is not None, "clikit.api.io.flags missing")
    vals = {}
    def const_int(e):
        """value of an integer constant expression (literals combined with << | + *), else None"""
        if isinstance(e, ast.Constant) and isinstance(e.value, int) and not isinstance(e.value, bool):
            return e.value
        if isinstance(e, ast.BinOp) and isinstance(e.op, (ast.LShift, ast.BitOr, ast.Add, ast.Mult, ast.Pow)):
            a, b = const_int(e.left), const_int(e.right)
            if a is None or b is None or b > 64:
                return None
            return {ast.LShift: lambda: a << b, ast.BitOr: lambda: a | b, ast.Add: lambda: a + b, ast.Mult: lambda: a * b, ast.Pow: lambda: a ** b}[type(e.op)]()
        return None
    for name_ in ("NORMAL", "VERBOSE", "VERY_VERBOSE", "DEBUG"):
        v = fmod.assigns.get(name_)
        cv = const_int(v) if v is not None else None
        if cv is None:
            r.fail(fmod, v, "flags.%s not an integer constant" % name_, "flags.%s is not an integer constant expression" % name_)
            continue
        vals[name_] = cv
    for name_, v in sorted(vals.items()):
        node = fmod.assigns[name_]
        if name_ == "NORMAL":
            (r.ok if v == 0 else (lambda d: r.fail(fmod, node, "flags.NORMAL = %d" % v, "NORMAL must be 0 (no level requested)")))("flags.NORMAL = 0")
        elif v <= 0 or v & (v - 1):
            r.fail(fmod, node, "flags.%s = %d" % (name_, v), "flags.%s = %d is not a single bit: a message flagged %s also passes the gate's `flags & <lower level>` tests and is shown below the level it asked for" % (name_, v, name_))
        elif any(o != name_ and vals[o] == v for o in vals):
            r.fail(fmod, node, "flags.%s = %d shared" % (name_, v), "two levels share the bit %d" % v)
        else:
            r.ok("flags.%s = %d" % (name_, v))

    # ---------------------------------------------------------------- R7
    r = ctx.rule("C10-R7", "OWNER", "quiet and verbosity change only when asked to: the fields the gate reads are written by the constructor and by their own setters only - no other "
                 "method of an output writes them, directly or by re-running the constructor (`raising the verbosity or leaving quiet mode never removes anything`)", reference=2)
    eff = ctx.effects
    for fld in sorted(read):
        own_setters = {m.name for c in [x for x in out_cls.mro if hasattr(x, "methods")] for m in c.methods.values()
                       if m.name != "__init__" and any(k == "rebind" and any(isinstance(a, ast.Name) and a.id in m.params for a in walk_no_nested(n_.value)) for n_, k, t in q.writes_to_self_attr(m, fld) if isinstance(n_, ast.Assign))}
        bad = None
        reinit = None
        for c in out_classes:
            for name_, m in sorted(c.methods.items()):
                if name_ == "__init__" or name_ in own_setters:
                    continue
                for ev in eff.events_in(m):
                    if _rooted_self(ev.token) and ev.token == ("p", "self") and ev.kind.endswith("attr-store:" + fld):
                        bad = (m, ev)
                # re-running a constructor on self writes everything the constructor writes
                for cs in cg.sites_in(m):
                    for t in cs.targets:
                        if t.name == "__init__" and t.cls is not None and cs.kind != "super" and isinstance(cs.node.func, ast.Attribute) and cs.node.func.attr == "__init__" \
                                and any(q.writes_to_self_attr(t, fld)) and (cs.node.args and isinstance(cs.node.args[0], ast.Name) and cs.node.args[0].id == "self"
                                                                           or isinstance(cs.node.func.value, ast.Name) and cs.node.func.value.id == "self"):
                            reinit = (m, cs)
        if reinit and not bad:
            m, cs = reinit
            r.fail(m, cs.node, "%s re-runs the constructor (resets self.%s)" % (m.name, fld), "%s calls %s on the live object: the constructor also resets self.%s, so e.g. replacing the formatter "
                   "silently takes an output out of quiet mode and back to normal verbosity" % (m.short, norm(cs.node.func), fld))
        elif bad:
            m, ev = bad
            r.fail(m, ev.node, "%s writes self.%s: %s" % (m.name, fld, norm(ev.origin_event().node)), "%s changes the gate field self.%s although it is not its setter (%s): e.g. replacing the formatter "
                   "silently takes an output out of quiet mode and back to normal verbosity" % (m.short, fld, ev.chain()), chain=ev.chain())
        else:
            r.ok("self.%s written only by the constructor and %s" % (fld, ", ".join(sorted(own_setters)) or "-"))

    # ---------------------------------------------------------------- R8
    r = ctx.rule("C10-R8", "GUARD", "the I/O facade adds no gate of its own: each writing method of IO reaches its delegation to the output on every path (a shortcut on "
                 "`self.is_quiet()` would judge the error output by the standard output's state)", reference=8)
    for c in io_classes:
        for name_, m in sorted(c.methods.items()):
            if not (name_.startswith("write") or name_.startswith("error")) or name_ in ("error_output",):
                continue
            cfg = ctx.cfg(m)
            dele = {n.id for x in q.calls(m) if isinstance(x.func, ast.Attribute) and is_self_attr(x.func.value) and x.func.attr.startswith("write") for n in cfg.nodes_of(x)}
            if not dele:
                continue
            if cfg.post_dominated_by(cfg.entry.id, dele):
                r.ok("%s: delegates on every path" % m.short)
            else:
                r.fail(m, m.node, "%s can return without delegating" % m.short, "%s has a path that returns before handing the text to its output: the facade decides by itself (on state that belongs "
                       "to one of the two outputs) whether text is shown" % m.short)

    # ---------------------------------------------------------------- R9
    r = ctx.rule("C10-R9", "ATOMIC", "a rejected verbosity is not the verbosity: in the setters of the gate fields no write of the field precedes a raise", reference=2)
    for c in [x for x in out_cls.mro if hasattr(x, "methods")]:
        for name_, m in sorted(c.methods.items()):
            if not name_.startswith("set_") or not any(q.writes_to_self_attr(m, f_) for f_ in read):
                continue
            cfg = ctx.cfg(m)
            ws = [n for n in cfg.nodes if n.kind == "stmt" and isinstance(n.ast, (ast.Assign, ast.AugAssign)) and any(is_self_attr(t) and t.attr in read for t in (n.ast.targets if isinstance(n.ast, ast.Assign) else [n.ast.target]))]
            rz = [n for n in cfg.nodes if n.kind == "raise"]
            bad = [(w, z) for w in ws for z in rz if z.id in cfg.reach([w.id])]
            if bad:
                r.fail(m, bad[0][0].ast, norm(bad[0][0].ast) + " before its check", "%s stores the value (%s) and validates afterwards: a rejected level is what the gate then compares against" % (m.short, norm(bad[0][0].ast)))
            else:
                r.ok("%s: %d check(s) precede the store" % (m.short, len(rz)))
    # ---------------------------------------------------------------- R10
    r = ctx.rule("C10-R10", "SIBLING", "'written with a verbosity flag' means the same for every kind of output: a method of an output / IO class that overrides a flagged write keeps the "
                 "overridden method's parameters in their positions (a flag word passed by position must not land in another parameter of the override)", reference=1)
    from ..loader import ClassInfo as _CI
    n10 = 0
    for c in sorted(p.classes.values(), key=lambda k: k.qualname):
        if not c.module.name.startswith(("clikit.api.io", "clikit.io")):
            continue
        for name, m in sorted(c.methods.items()):
            if name.startswith("__"):
                continue
            for b in c.mro[1:]:
                if isinstance(b, _CI) and name in b.methods:
                    bm = b.methods[name]
                    if "flags" not in bm.params:
                        break
                    n10 += 1
                    if m.params[:len(bm.params)] == bm.params:
                        r.ok("%s.%s keeps the parameter order of %s.%s" % (c.name, name, b.name, name))
                    else:
                        r.fail(m, m.node, "%s.%s%s vs %s.%s%s" % (c.name, name, tuple(m.params[1:]), b.name, name, tuple(bm.params[1:])), "%s.%s takes its parameters as %s, the method it overrides as %s: a call "
                               "written for an Output that passes the flag word by position (`out.write(text, VERBOSE)`) hands it to another parameter of a %s - the text is written at every verbosity" %
                               (c.name, name, tuple(m.params[1:]), tuple(bm.params[1:]), c.name))
                    break
    ctx.require(n10 >= 1, "no overriding flagged write method found in the I/O classes")

    return ctx.results


def _rooted_self(tok):
    t = tok
    while isinstance(t, tuple) and t and t[0] in ("f", "e", "c"):
        t = t[1]
    return t == ("p", "self")


def _level_const(ctx, fi, expr):
    """Integer value of a flag constant expression (Name resolved through imports)."""
    if isinstance(expr, ast.Constant) and isinstance(expr.value, int):
        return expr.value, str(expr.value)
    if isinstance(expr, ast.Name):
        r = ctx.p.resolve_in_func(fi, expr.id)
        if isinstance(r, tuple) and r[0] == "const" and isinstance(r[1], ast.Constant):
            return r[1].value, expr.id
    if isinstance(expr, ast.Attribute):
        return None, norm(expr)
    return None, norm(expr)


def _gate_table(ctx, r, gate):
    cfg = ctx.cfg(gate)
    prm = q.param_names(gate)
    ctx.require(prm, "gate has no flags parameter")
    fl = prm[0]
    def raw_rows(fn):
        c = ctx.cfg(fn)
        out = []
        for ret in q.returns(fn):
            rn = c.node_of(ret)
            try:
                paths = c.paths(c.entry.id, rn.id, limit=400)
            except OverflowError:
                raise AnalysisError("gate has too many paths to tabulate")
            for path in paths:
                conds = []
                last = {}
                for nid in path:
                    n = c.nodes[nid]
                    if n.kind in ("T", "F"):
                        conds.append((norm(n.ast), n.kind == "T", n.ast, n.cond.id))
                    elif n.kind == "stmt" and isinstance(n.ast, ast.Assign) and len(n.ast.targets) == 1 and isinstance(n.ast.targets[0], ast.Name) and n.ast.targets[0].id != fl:
                        last[n.ast.targets[0].id] = n.ast.value
                # a single `return <local>` at the end: the verdict of the path is what was last assigned to the local on it
                rv = ret.value
                if isinstance(rv, ast.Name) and rv.id in last and not (isinstance(last[rv.id], ast.Call)):
                    rv = last[rv.id]
                out.append((conds, rv, ret))
        return unroll(fn, out)

    def unroll(fn, rows_):
        """A loop `for v in (A, B, C): if <test(v)>: return <expr(v)>` is the if-chain over A, B, C: rows that mention the loop variable are
        expanded per element (with the earlier elements' tests false), the row that skips the loop gets all tests false."""
        import copy
        for lp in [n for n in walk_no_nested(fn.node) if isinstance(n, ast.For) and isinstance(n.target, ast.Name)]:
            it = lp.iter
            if isinstance(it, ast.Name):
                rr_ = ctx.p.resolve_in_func(fn, it.id)
                it = rr_[1] if isinstance(rr_, tuple) and rr_[0] == "const" else it
            if not (isinstance(it, (ast.Tuple, ast.List)) and it.elts and all(isinstance(e, (ast.Name, ast.Attribute, ast.Constant)) for e in it.elts)):
                continue
            v = lp.target.id

            def subst(e, el):
                e2 = copy.deepcopy(e)
                class T(ast.NodeTransformer):
                    def visit_Name(self, n):
                        return copy.deepcopy(el) if n.id == v else n
                return ast.fix_missing_locations(T().visit(e2))

            inside = [r_ for r_ in rows_ if any(v in q.names_in(c[2]) for c in r_[0]) or (r_[1] is not None and v in q.names_in(r_[1]))]
            if not inside:
                continue
            tests = [c for c in inside[0][0] if v in q.names_in(c[2])]
            new_rows = []
            for r_ in rows_:
                conds, rv, ret = r_
                if r_ in inside:
                    base = [c for c in conds if v not in q.names_in(c[2])]
                    mine = [c for c in conds if v in q.names_in(c[2])]
                    for i, el in enumerate(it.elts):
                        cs = list(base)
                        for j in range(i):
                            for c in tests:
                                e2 = subst(c[2], it.elts[j])
                                cs.append((norm(e2), not c[1], e2, c[3]))
                        for c in mine:
                            e2 = subst(c[2], el)
                            cs.append((norm(e2), c[1], e2, c[3]))
                        new_rows.append((cs, subst(rv, el) if rv is not None else None, ret))
                else:
                    # a row that passes the loop without entering it: every element's test was false - only for rows whose return lies after the loop
                    after = getattr(ret, "lineno", 0) > getattr(lp, "end_lineno", 0)
                    cs = list(conds)
                    if after:
                        for el in it.elts:
                            for c in tests:
                                e2 = subst(c[2], el)
                                cs.append((norm(e2), not c[1], e2, c[3]))
                    new_rows.append((cs, rv, ret))
            rows_ = new_rows
        return rows_

    rows4 = raw_rows(gate)
    ctx.require(rows4, "gate has no return paths")
    # one level of inlining: `v = <helper>(flags)` where the helper maps the flags to the level they ask for
    helper_vars = {}
    for n in walk_no_nested(gate.node):
        if isinstance(n, ast.Assign) and len(n.targets) == 1 and isinstance(n.targets[0], ast.Name) and isinstance(n.value, ast.Call) \
                and n.value.args and isinstance(n.value.args[0], ast.Name) and n.value.args[0].id == fl:
            cs = ctx.cg.site_for(gate, n.value)
            hs = [t for t in cs.targets if t.cls is not None and gate.cls in t.cls.mro or (t.cls is gate.cls)]
            if len(hs) == 1 and q.returns(hs[0]):
                helper_vars[n.targets[0].id] = (hs[0], n)
    rows = []
    for conds, retv, ret in rows4:
        used = [v for v in helper_vars if any(v in q.names_in(c[2]) for c in conds) or (retv is not None and v in q.names_in(retv))]
        if not used:
            rows.append(([(c[0], c[1], c[2]) for c in conds], retv, ret))
            continue
        v = used[0]
        h, assign = helper_vars[v]
        hp = (q.param_names(h) or [fl])[0]
        an = cfg.node_of(assign)
        for hconds, hret, _ in raw_rows(h):
            hnone = hret is None or (isinstance(hret, ast.Constant) and hret.value is None)
            feasible = True
            before, after = [], []
            for text, pol, expr, cid in conds:
                if v in q.names_in(expr):
                    if isinstance(expr, ast.Compare) and isinstance(expr.comparators[0], ast.Constant) and expr.comparators[0].value is None:
                        val = hnone if isinstance(expr.ops[0], ast.Is) else (not hnone)
                    elif isinstance(expr, ast.Name):
                        val = not hnone
                    else:
                        feasible = False
                        break
                    if val != pol:
                        feasible = False
                        break
                else:
                    (before if cfg.dominates(cid, an.id) else after).append((text, pol, expr))
            if not feasible:
                continue
            # rename the helper's parameter to the gate's
            def ren(e):
                e2 = ast.parse(norm(e), mode="eval").body
                for x in ast.walk(e2):
                    if isinstance(x, ast.Name) and x.id == hp:
                        x.id = fl
                return e2
            hc = [(norm(ren(c[2])), c[1], ren(c[2])) for c in hconds]
            new_ret = retv
            if retv is not None and v in q.names_in(retv) and hret is not None:
                src = norm(retv)
                import re as _re
                new_ret = ast.parse(_re.sub(r"\b%s\b" % v, "(" + norm(hret) + ")", src), mode="eval").body
                for x in ast.walk(new_ret):
                    for ch in ast.iter_child_nodes(x):
                        ch._parent = x
            rows.append((before + hc + after, new_ret, ret))
    ctx.require(rows, "gate has no feasible return paths")
    # fall off the end = returns None (falsy): a path to exit without return
    for pth in cfg.paths(cfg.entry.id, cfg.exit.id, limit=400):
        last = cfg.nodes[pth[-2]] if len(pth) > 1 else None
        if last is not None and last.kind != "return":
            r.fail(gate, gate.node, "implicit return", "the gate can fall off its end (returns None: refuses the write)")

    def is_quiet_test(e):
        return any(is_self_attr(n, "_quiet") or (isinstance(n, ast.Call) and isinstance(n.func, ast.Attribute) and n.func.attr == "is_quiet")
                   for n in walk_no_nested(e))

    def level_test(e):
        """flags & L  -> L expr"""
        if isinstance(e, ast.BinOp) and isinstance(e.op, ast.BitAnd):
            for a, b in ((e.left, e.right), (e.right, e.left)):
                if isinstance(a, ast.Name) and a.id == fl:
                    return b
        return None

    seen_quiet = False
    levels_seen = []
    for conds, retv, ret in rows:
        quiet_true = [c for c in conds if is_quiet_test(c[2]) and c[1]]
        lvl_true = [(c, level_test(c[2])) for c in conds if level_test(c[2]) is not None and c[1]]
        lvl_any = [(c, level_test(c[2])) for c in conds if level_test(c[2]) is not None]
        desc = "path [%s] -> %s" % ("; ".join(("" if pol else "not ") + t for t, pol, _ in conds), norm(retv) if retv is not None else "None")
        if quiet_true:
            seen_quiet = True
            # quiet decided before any level test on this path
            qi = conds.index(quiet_true[0])
            before = [c for c in conds[:qi] if level_test(c[2]) is not None]
            if before:
                r.fail(gate, ret, "quiet-after-level", "a verbosity test is evaluated before the quiet test")
            elif isinstance(retv, ast.Constant) and retv.value is False:
                r.ok(desc)
            else:
                r.fail(gate, ret, "quiet -> " + norm(retv), "when the output is quiet the gate must refuse (return False)")
            continue
        # non-quiet paths must have passed the quiet test (false edge)
        if not any(is_quiet_test(c[2]) for c in conds):
            r.fail(gate, ret, "no-quiet-test: " + desc, "a return of the gate is reachable without testing quiet")
            continue
        if lvl_true:
            (ctext, _, cexpr), lexpr = lvl_true[0]
            lv, lname = _level_const(ctx, gate, lexpr)
            # return must be self._verbosity >= same level
            okret = False
            if isinstance(retv, ast.Compare) and len(retv.ops) == 1:
                left, op, right = retv.left, retv.ops[0], retv.comparators[0]
                if isinstance(op, ast.LtE):
                    left, right, op = right, left, ast.GtE()
                if isinstance(op, ast.GtE) and is_self_attr(left, "_verbosity"):
                    rv, rname = _level_const(ctx, gate, right)
                    okret = (rv is not None and rv == lv) or (rv is None and rname == lname)
            if okret:
                r.ok(desc)
            else:
                r.fail(gate, ret, "level %s -> %s" % (lname, norm(retv)),
                       "a message flagged %s must be let through exactly when verbosity >= %s" % (lname, lname))
            # ascending order: every level tested (false) before this one must be lower
            earlier = [level_test(c[2]) for c in conds[: conds.index(lvl_true[0][0])] if level_test(c[2]) is not None]
            for e in earlier:
                ev, ename = _level_const(ctx, gate, e)
                if ev is not None and lv is not None and ev >= lv:
                    r.fail(gate, ret, "order %s before %s" % (ename, lname), "verbosity levels must be tested in ascending order "
                           "(the lowest requested level decides)")
            levels_seen.append(lname)
        else:
            # flags is None: no level requested at all -> True (the early-return form of the None normalisation)
            none_arm = any(isinstance(c[2], ast.Compare) and isinstance(c[2].left, ast.Name) and c[2].left.id == fl and isinstance(c[2].comparators[0], ast.Constant) and c[2].comparators[0].value is None
                           and ((isinstance(c[2].ops[0], (ast.Is, ast.Eq)) and c[1]) or (isinstance(c[2].ops[0], (ast.IsNot, ast.NotEq)) and not c[1])) for c in conds)
            if none_arm and isinstance(retv, ast.Constant) and retv.value is True:
                r.ok(desc + " [no flags: always shown unless quiet]")
                continue
            # all level tests false -> True
            if isinstance(retv, ast.Constant) and retv.value is True:
                if len(lvl_any) >= 3:
                    r.ok(desc)
                else:
                    r.fail(gate, ret, "fallthrough with %d level tests" % len(lvl_any),
                           "the gate lets a write through without having tested all three verbosity flags")
            else:
                r.fail(gate, ret, "fallthrough -> " + (norm(retv) if retv is not None else "None"), "an unflagged message must always be written when not quiet")
    if not seen_quiet:
        r.fail(gate, gate.node, "no-quiet-arm", "the gate never refuses on quiet")
    want = {"VERBOSE", "VERY_VERBOSE", "DEBUG"}
    if not want <= set(levels_seen):
        missing = sorted(want - set(levels_seen))
        r.fail(gate, gate.node, "missing levels " + ",".join(missing), "the gate does not decide the level(s) %s" % ", ".join(missing))
    # None is normalised before the first bit test
    first_bit = None
    for n in cfg.nodes:
        if n.kind == "cond" and level_test(n.ast) is not None:
            first_bit = n
            break
    if first_bit is not None:
        ok = guarded_by(cfg, first_bit, lambda e: isinstance(e, ast.Compare) and isinstance(e.left, ast.Name) and e.left.id == fl
                        and isinstance(e.ops[0], ast.IsNot), polarity=True) is not None \
            or guarded_by(cfg, first_bit, lambda e: isinstance(e, ast.Compare) and isinstance(e.left, ast.Name) and e.left.id == fl and isinstance(e.ops[0], ast.Is)
                          and isinstance(e.comparators[0], ast.Constant) and e.comparators[0].value is None, polarity=False) is not None
        if not ok:
            # accepted idiom: `if flags is None: flags = 0` before the tests
            norm_nodes = [w for w in cfg.writes(lambda t: t == fl)]
            none_conds = [c for c in cfg.conds() if isinstance(c.ast, ast.Compare) and isinstance(c.ast.left, ast.Name)
                          and c.ast.left.id == fl and isinstance(c.ast.ops[0], (ast.Is, ast.Eq))]
            ok = bool(norm_nodes) and bool(none_conds) and all(cfg.dominates(c.id, first_bit.id) for c in none_conds)
            if ok:
                # the None arm must assign
                for c in none_conds:
                    t = cfg.true_of(c)
                    if not any(w.id in cfg.reach([t.id], blocked=[first_bit.id]) for w in norm_nodes):
                        ok = False
        if not ok:
            # accepted idiom: `flags = 0 if flags is None else flags` / `flags = flags if flags is not None else 0` / `flags = flags or 0`
            for w in cfg.writes(lambda t: t == fl):
                v = w.ast.value if isinstance(w.ast, ast.Assign) else None
                good = False
                if isinstance(v, ast.IfExp) and isinstance(v.test, ast.Compare) and isinstance(v.test.left, ast.Name) and v.test.left.id == fl \
                        and isinstance(v.test.comparators[0], ast.Constant) and v.test.comparators[0].value is None:
                    none_arm = v.body if isinstance(v.test.ops[0], (ast.Is, ast.Eq)) else v.orelse
                    other = v.orelse if none_arm is v.body else v.body
                    good = isinstance(none_arm, ast.Constant) and isinstance(none_arm.value, int) and isinstance(other, ast.Name) and other.id == fl
                if isinstance(v, ast.BoolOp) and isinstance(v.op, ast.Or) and len(v.values) == 2 and isinstance(v.values[0], ast.Name) and v.values[0].id == fl \
                        and isinstance(v.values[1], ast.Constant) and v.values[1].value == 0:
                    good = True
                if good and cfg.dominates(w.id, first_bit.id):
                    ok = True
        if ok:
            r.ok("flags None normalised before the first bit test")
        else:
            r.fail(gate, first_bit.ast, "none-unnormalised", "flags=None reaches a bit test (TypeError) - the default flags of every write method is None")
