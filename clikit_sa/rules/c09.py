"""C09 - global switches act the same wherever they appear and whatever command runs."""
import ast

from ..loader import walk_no_nested, norm, is_self_attr
from ..cfg import guarded_by
from .. import q


def token_tests(expr, method):
    """[(literal, call)] for calls <recv>.<method>(X) inside expr: X a string literal, or the variable of a generator / comprehension
    that runs over a literal tuple / list (`any(args.has_option_token(t) for t in ("--quiet", "-q"))`)."""
    out = []
    in_comp = set()
    for n in ast.walk(expr):
        if isinstance(n, (ast.GeneratorExp, ast.ListComp, ast.SetComp)):
            comp_vars = {}
            for g in n.generators:
                if isinstance(g.target, ast.Name) and isinstance(g.iter, (ast.Tuple, ast.List, ast.Set)) and all(isinstance(x, ast.Constant) for x in g.iter.elts):
                    comp_vars[g.target.id] = [x.value for x in g.iter.elts]
            for c in ast.walk(n.elt):
                if isinstance(c, ast.Call) and isinstance(c.func, ast.Attribute) and c.func.attr == method and c.args and isinstance(c.args[0], ast.Name) and c.args[0].id in comp_vars:
                    in_comp.add(id(c))
                    out.extend((v, c) for v in comp_vars[c.args[0].id])
    for n in ast.walk(expr):
        if isinstance(n, ast.Call) and isinstance(n.func, ast.Attribute) and n.func.attr == method and n.args and id(n) not in in_comp:
            a = n.args[0]
            if isinstance(a, ast.Constant):
                out.append((a.value, n))
    return out


def _lits_in_cond(expr, method):
    """string literals X of calls <recv>.<method>(X) inside expr"""
    return [v for v, _ in token_tests(expr, method)]


def guards_of(cfg, node, method):
    """literals of <method>("...") tests whose *true* edge dominates node"""
    out = set()
    for e in cfg.nodes:
        if e.kind == "T" and cfg.dominates(e.id, node.id):
            out.update(_lits_in_cond(e.ast, method))
    return out


def guards_any(cfg, node, method):
    """Literals of the tests <method>("...") in a minimal set of true edges that
    cuts ``node`` off from the entry (an or-chain of tests guarding the node;
    other disjuncts, e.g. a config flag, may be part of the cut)."""
    ts = [e for e in cfg.nodes if e.kind == "T" and node.id in cfg.reach([e.id])]
    if not ts:
        return set()
    cut = [e.id for e in ts]
    if node.id in cfg.reach([cfg.entry.id], blocked=cut):
        return set()
    # greedy minimisation, dropping the edges farthest from the node first
    for e in list(cut):
        trial = [x for x in cut if x != e]
        if node.id not in cfg.reach([cfg.entry.id], blocked=trial):
            cut = trial
    out = set()
    for e in cut:
        out.update(_lits_in_cond(cfg.nodes[e].ast, method))
    return out


def _anc_nodes(n):
    p = getattr(n, "_parent", None)
    while p is not None:
        yield p
        p = getattr(p, "_parent", None)


def io_setters_rule(ctx, r, names):
    """SIBLING rule shared with C10: IO.set_X forwards its argument to both outputs, on every path."""
    io_cls = ctx.cls("clikit.api.io.io.IO")
    for name in names:
        m = io_cls.methods.get(name)
        if m is None:
            r.fail(io_cls.methods["__init__"], io_cls.node, "no IO." + name, "IO.%s missing" % name)
            continue
        prm = q.param_names(m)
        cfg = ctx.cfg(m)
        recvs = {}
        for c in q.method_calls(m, name):
            if is_self_attr(c.func.value) and c.args and isinstance(c.args[0], ast.Name) and c.args[0].id == prm[0]:
                recvs.setdefault(c.func.value.attr, set()).update(n.id for n in cfg.nodes_of(c))
        # loop form: for o in (self._output, self._error_output) / in a helper that returns that tuple:  o.set_X(value)
        for loop in [n for n in walk_no_nested(m.node) if isinstance(n, ast.For) and isinstance(n.target, ast.Name)]:
            it = loop.iter
            if isinstance(it, ast.Call) and isinstance(it.func, ast.Attribute) and isinstance(it.func.value, ast.Name) and it.func.value.id == "self" and it.func.attr in io_cls.methods and not it.args:
                rets = q.returns(io_cls.methods[it.func.attr])
                it = rets[0].value if len(rets) == 1 else None
            if not (isinstance(it, (ast.Tuple, ast.List)) and it.elts and all(is_self_attr(e) for e in it.elts)):
                continue
            head = cfg.node_of(loop)
            body_start = [x for x in cfg.succs(head.id) if cfg.nodes[x].kind == "loop_body"]
            for c in q.method_calls(m, name):
                if isinstance(c.func.value, ast.Name) and c.func.value.id == loop.target.id and c.args and isinstance(c.args[0], ast.Name) and c.args[0].id == prm[0] and loop in list(_anc_nodes(c)):
                    ids = {n.id for n in cfg.nodes_of(c)}
                    if body_start and all(cfg.all_paths_hit(b, ids, [head.id]) for b in body_start):
                        for e in it.elts:
                            recvs.setdefault(e.attr, set()).add(head.id)
        if not {"_output", "_error_output"} <= set(recvs):
            r.fail(m, m.node, "IO.%s -> %s" % (name, sorted(recvs)), "IO.%s reaches only %s: the other stream ignores the switch" % (name, sorted(recvs) or "nothing"))
            continue
        skipped = [a for a in ("_output", "_error_output") if not cfg.post_dominated_by(cfg.entry.id, recvs[a])]
        if skipped:
            r.fail(m, m.node, "IO.%s can return without reaching %s" % (name, ", ".join(skipped)), "IO.%s has a path that returns without forwarding to %s (an early return on a test "
                   "of one output's state, say): once the two outputs differ the switch no longer brings them together, so one stream stays quiet / stays loud" % (name, ", ".join(skipped)))
        else:
            r.ok("IO.%s forwards to both outputs on every path" % name)


def run(ctx):
    p, cg = ctx.p, ctx.cg
    dac = ctx.cls("clikit.config.default_application_config.DefaultApplicationConfig")
    raw = ctx.cls("clikit.api.args.raw_args.RawArgs")
    configure = dac.methods.get("configure")
    create_io = dac.methods.get("create_io")
    ctx.require(configure and create_io, "DefaultApplicationConfig.configure/create_io missing")

    # ---------------------------------------------------------------- R1
    r = ctx.rule("C09-R1", "OWNER", "the application configuration looks at the raw command line only through the "
                 "option tokens (so nothing after '--' counts)", reference=11)
    for fi in [f for f in p.all_functions() if f.module.name.startswith("clikit.config")]:
        for n in walk_no_nested(fi.node):
            if isinstance(n, ast.Attribute) and n.attr in ("has_token", "tokens", "to_string", "_tokens", "has_option_token", "option_tokens"):
                t = ctx.typer.expr_type(n.value, fi)
                if not any(raw in c.mro for c in t.classes):
                    continue
                if n.attr in ("has_option_token", "option_tokens"):
                    r.ok("%s: %s" % (fi.short, norm(getattr(n, "_parent", n))[:60]))
                else:
                    r.fail(fi, n, norm(getattr(n, "_parent", n)), "the configuration inspects all raw tokens (%s), including those after '--'" % n.attr)

    # ---------------------------------------------------------------- R2
    r = ctx.rule("C09-R2", "TABLE", "every spelling of every value-less global option declared by the default "
                 "configuration is tested (as option token, or through the parsed args), and nothing else is", reference=21)
    declared = {}
    for c in q.method_calls(configure, "add_option", recv=lambda e: isinstance(e, ast.Name) and e.id == "self"):
        if not c.args or not isinstance(c.args[0], ast.Constant):
            continue
        long_ = c.args[0].value
        short = c.args[1].value if len(c.args) > 1 and isinstance(c.args[1], ast.Constant) else None
        flags = norm(c.args[2]) if len(c.args) > 2 else ""
        declared[long_] = (short, flags, c)
    ctx.require(len(declared) >= 5, "global options not found in DefaultApplicationConfig.configure")
    tested_tokens = {}
    tested_parsed = {}
    for fi in dac.methods.values():
        for v, c in token_tests(fi.node, "has_option_token"):
            if isinstance(v, str):
                tested_tokens.setdefault(v, (fi, c))
        for meth in ("is_option_set", "option"):
            for v, c in token_tests(fi.node, meth):
                if isinstance(v, str):
                    tested_parsed.setdefault(v, (fi, c))
    for long_, (short, flags, call) in sorted(declared.items()):
        if "NO_VALUE" not in flags:
            continue
        spellings = ["--" + long_] + (["-" + short] if short else [])
        for sp in spellings:
            if sp in tested_tokens or long_ in tested_parsed or (short and short in tested_parsed):
                r.ok("option %s: spelling %s acted upon" % (long_, sp))
            else:
                r.fail(configure, call, "spelling %s of --%s untested" % (sp, long_),
                       "the global switch %s is declared but the spelling %s is never tested: it has no effect" % ("--" + long_, sp))
    known_spellings = set()
    for long_, (short, flags, call) in declared.items():
        known_spellings.add("--" + long_)
        if short:
            known_spellings.add("-" + short)
            if "OPTIONAL_VALUE" in flags or "REQUIRED_VALUE" in flags:
                known_spellings.update({"-" + short * 2, "-" + short * 3})
    for tok, (fi, c) in sorted(tested_tokens.items()):
        if tok in known_spellings:
            r.ok("%s: tested token %s is a declared switch" % (fi.short, tok))
        else:
            r.fail(fi, c, norm(c), "the token %s is acted upon but is not a spelling of any declared global option" % tok)

    # ---------------------------------------------------------------- R3
    r = ctx.rule("C09-R3", "TABLE", "'-v', '-vv', '-vvv' select VERBOSE, VERY_VERBOSE, DEBUG; quiet, no-interaction "
                 "and the (no-)ANSI switches drive the matching setter / formatter", reference=8)
    cfg = ctx.cfg(create_io)
    want_v = {"-v": "VERBOSE", "-vv": "VERY_VERBOSE", "-vvv": "DEBUG"}
    seen_v = {}
    for c in q.method_calls(create_io, "set_verbosity"):
        cn = cfg.node_of(c)
        lits = guards_any(cfg, cn, "has_option_token")
        for l in lits:
            seen_v[l] = (norm(c.args[0]) if c.args else None, c)
        # the level may be computed by a private helper from the command line: v = self._h(args); if v is not None: io.set_verbosity(v)
        if c.args and isinstance(c.args[0], ast.Name):
            defs_ = [n for n in walk_no_nested(create_io.node) if isinstance(n, ast.Assign) and any(isinstance(t, ast.Name) and t.id == c.args[0].id for t in n.targets)]
            if len(defs_) == 1 and isinstance(defs_[0].value, ast.Call) and isinstance(defs_[0].value.func, ast.Attribute) and isinstance(defs_[0].value.func.value, ast.Name) and defs_[0].value.func.value.id == "self":
                h = p.lookup_method(dac, defs_[0].value.func.attr)
                if h is not None:
                    hcfg = ctx.cfg(h)
                    for rn in [x for x in hcfg.nodes if x.kind == "return" and x.ast.value is not None and not (isinstance(x.ast.value, ast.Constant) and x.ast.value.value is None)]:
                        for l in guards_any(hcfg, rn, "has_option_token"):
                            seen_v.setdefault(l, (norm(rn.ast.value), c))
    for tok, level in want_v.items():
        got = seen_v.get(tok)
        if got is None:
            r.fail(create_io, create_io.node, "no verbosity for " + tok, "the switch %s does not set a verbosity" % tok)
        elif got[0] == level:
            r.ok("%s -> set_verbosity(%s)" % (tok, level))
        else:
            r.fail(create_io, got[1], "%s -> %s" % (tok, got[0]), "the switch %s selects %s instead of %s" % (tok, got[0], level))
    for setter, arg, toks in (("set_quiet", "True", {"--quiet", "-q"}), ("set_interactive", "False", {"--no-interaction", "-n"})):
        calls = q.method_calls(create_io, setter)
        if not calls:
            r.fail(create_io, create_io.node, "no " + setter, "create_io never calls %s" % setter)
        for c in calls:
            lits = guards_any(cfg, cfg.node_of(c), "has_option_token")
            a = norm(c.args[0]) if c.args else None
            if lits == toks and a == arg:
                r.ok("%s -> %s(%s)" % ("/".join(sorted(toks)), setter, arg))
            else:
                r.fail(create_io, c, norm(c), "%s(%s) is driven by %s, expected %s(%s) under %s" % (setter, a, sorted(lits), setter, arg, sorted(toks)))
    # formatter choice (in create_io or in a private helper it calls)
    fmt_fn = create_io
    for cs in cg.sites_in(create_io):
        for t in cs.targets:
            if t.cls is not None and dac in t.cls.mro and t.name.startswith("_") and "--no-ansi" in [x.value for x in q.literal_strings(t.node)]:
                fmt_fn = t
    cfg_io = cfg
    cfg = ctx.cfg(fmt_fn)
    for tok, cls_name, forced in (("--no-ansi", "PlainFormatter", None), ("--ansi", "AnsiFormatter", True)):
        ok_assign = False
        for n in cfg.nodes:
            if n.kind == "stmt" and isinstance(n.ast, ast.Assign) and isinstance(n.ast.value, ast.Call) and isinstance(n.ast.value.func, ast.Name):
                names = {t.id for t in n.ast.targets if isinstance(t, ast.Name)}
                if {"output_formatter", "error_formatter"} <= names and tok in guards_of(cfg, n, "has_option_token"):
                    v = n.ast.value
                    f_ok = v.func.id == cls_name
                    if forced:
                        fa = q.kwarg(v, "forced", pos=1)
                        f_ok = f_ok and isinstance(fa, ast.Constant) and fa.value is True
                    if f_ok:
                        ok_assign = True
                    else:
                        r.fail(fmt_fn, n.ast, norm(n.ast), "under %s both outputs must get %s%s" % (tok, cls_name, " (forced)" if forced else ""))
        if ok_assign:
            r.ok("%s -> %s for both outputs%s" % (tok, cls_name, " (forced)" if forced else ""))
        elif not any(f.key.endswith(tok) for f in r.findings):
            r.fail(fmt_fn, fmt_fn.node, "no formatter arm for " + tok, "the switch %s does not select the %s for both outputs" % (tok, cls_name))
    # --no-ansi has priority and is tested before --ansi
    no_t = [e for e in cfg.nodes if e.kind == "F" and "--no-ansi" in _lits_in_cond(e.ast, "has_option_token")]
    ansi_c = [e for e in cfg.nodes if e.kind == "cond" and "--ansi" in _lits_in_cond(e.ast, "has_option_token")]
    if no_t and ansi_c and all(any(cfg.dominates(f.id, c.id) for f in no_t) for c in ansi_c):
        r.ok("--no-ansi decided before --ansi")
    cfg = cfg_io

    # ---------------------------------------------------------------- R4
    r = ctx.rule("C09-R4", "GUARD", "the help switch is handled before resolution: the pre-resolve listener sets the "
                 "resolved command and stops propagation, and resolve_command returns it before the resolver runs", reference=4)
    helpl = dac.methods.get("resolve_help_command")
    ctx.require(helpl is not None, "resolve_help_command missing")
    regs = {}
    for c in q.method_calls(configure, "add_event_listener"):
        if len(c.args) >= 2 and isinstance(c.args[1], ast.Attribute):
            regs[c.args[1].attr] = norm(c.args[0])
    if regs.get("resolve_help_command") == "PRE_RESOLVE":
        r.ok("help listener registered for PRE_RESOLVE")
    else:
        r.fail(configure, configure.node, "help listener registration", "resolve_help_command is not registered as a PRE_RESOLVE listener (got %s)" % regs.get("resolve_help_command"))
    cfg = ctx.cfg(helpl)
    for meth in ("set_resolved_command", "stop_propagation"):
        calls = q.method_calls(helpl, meth)
        if not calls:
            r.fail(helpl, helpl.node, "no " + meth, "the help listener never calls event.%s()" % meth)
            continue
        for c in calls:
            lits = guards_any(cfg, cfg.node_of(c), "has_option_token")
            if lits == {"-h", "--help"}:
                r.ok("%s: %s under -h/--help" % (helpl.short, meth))
            else:
                r.fail(helpl, c, norm(c), "event.%s() is driven by %s instead of exactly -h/--help" % (meth, sorted(lits)))
    rc = ctx.func("ConsoleApplication.resolve_command")
    cfg = ctx.cfg(rc)
    resolver_calls = [cfg.node_of(c) for c in q.method_calls(rc, "resolve")]
    pre = [n for n in cfg.nodes if n.kind == "T" and ((isinstance(n.ast, ast.Name) and "resolved" in n.ast.id) or (isinstance(n.ast, ast.Attribute) and "resolved" in n.ast.attr))]
    pre += [n for n in cfg.nodes if n.kind == "F" and isinstance(n.ast, ast.UnaryOp) and isinstance(n.ast.op, ast.Not) and ((isinstance(n.ast.operand, ast.Name) and "resolved" in n.ast.operand.id)
                                                                                                                       or (isinstance(n.ast.operand, ast.Attribute) and "resolved" in n.ast.operand.attr))]
    ctx.require(resolver_calls, "resolver call not found in resolve_command")
    if pre and not any(rn.id in cfg.reach([t.id]) for rn in resolver_calls for t in pre):
        r.ok("%s: a command set by a listener is returned before the resolver runs" % rc.short)
    else:
        r.fail(rc, rc.node, "pre-resolved command not returned", "resolve_command runs the resolver even when a pre-resolve listener already resolved a command")

    # ---------------------------------------------------------------- R5
    r = ctx.rule("C09-R5", "GUARD", "the version switch is handled before the handler: the pre-handle listener prints "
                 "name/version and marks the event handled; the event's default status is 0", reference=4)
    ver = dac.methods.get("print_version")
    ctx.require(ver is not None, "print_version missing")
    if regs.get("print_version") == "PRE_HANDLE":
        r.ok("version listener registered for PRE_HANDLE")
    else:
        r.fail(configure, configure.node, "version listener registration", "print_version is not registered as a PRE_HANDLE listener (got %s)" % regs.get("print_version"))
    cfg = ctx.cfg(ver)
    hcalls = q.method_calls(ver, "handled")
    if not hcalls:
        r.fail(ver, ver.node, "no handled()", "the version listener never marks the event handled: the command's handler runs too")
    for c in hcalls:
        lits = guards_any(cfg, cfg.node_of(c), "is_option_set")
        a = norm(c.args[0]) if c.args else None
        if lits == {"version"} and a == "True":
            r.ok("%s: event.handled(True) under is_option_set('version')" % ver.short)
        else:
            r.fail(ver, c, norm(c), "event.handled(%s) under %s; expected handled(True) under is_option_set('version')" % (a, sorted(lits)))
    rcalls = [c for c in q.method_calls(ver, "render")]
    if rcalls and all("version" in guards_any(cfg, cfg.node_of(c), "is_option_set") for c in rcalls):
        r.ok("%s: name/version rendered under the version test" % ver.short)
    else:
        r.fail(ver, ver.node, "render", "name and version are not rendered (only) when the version switch is given")
    phe = ctx.cls("clikit.api.event.pre_handle_event.PreHandleEvent")
    init = phe.methods.get("__init__")
    # the field behind the status_code getter
    sc = phe.methods.get("status_code")
    sfield = None
    if sc is not None:
        for ret in q.returns(sc):
            if ret.value is not None and is_self_attr(ret.value):
                sfield = ret.value.attr
    st = [n for n in walk_no_nested(init.node) if isinstance(n, ast.Assign) and sfield and any(is_self_attr(t, sfield) for t in n.targets)]
    if st and isinstance(st[0].value, ast.Constant) and st[0].value.value == 0:
        r.ok("PreHandleEvent default status 0")
    else:
        r.fail(init, init.node, "default status", "a handled pre-handle event does not default to status 0")

    # ---------------------------------------------------------------- R6
    r = ctx.rule("C09-R6", "SIBLING", "IO.set_quiet / set_verbosity / set_formatter reach both outputs; "
                 "set_interactive reaches the field that read_line and is_interactive test", reference=7)
    io_cls = ctx.cls("clikit.api.io.io.IO")
    io_setters_rule(ctx, r, ("set_quiet", "set_verbosity", "set_formatter"))
    inp = ctx.cls("clikit.api.io.input.Input")
    setter = inp.methods.get("set_interactive")
    wr = {t.attr for n in walk_no_nested(setter.node) if isinstance(n, ast.Assign) for t in n.targets if is_self_attr(t)} if setter else set()
    for name in ("is_interactive", "read_line", "read"):
        m = inp.methods.get(name)
        if m is None:
            continue
        rd = {n.attr for n in walk_no_nested(m.node) if is_self_attr(n)}
        if wr and wr & rd:
            r.ok("Input.%s consults the field set_interactive writes (%s)" % (name, ", ".join(sorted(wr & rd))))
        else:
            r.fail(m, m.node, "Input." + name, "Input.%s does not consult the interactive flag written by set_interactive" % name)
    si = io_cls.methods.get("set_interactive")
    if si and any(is_self_attr(c.func.value, "_input") for c in q.method_calls(si, "set_interactive")):
        r.ok("IO.set_interactive forwards to the input")
    elif si:
        r.fail(si, si.node, "IO.set_interactive", "IO.set_interactive does not reach the input")

    # ---------------------------------------------------------------- R7 / R8 (shared rules, decided here for the switches' sake)
    from .c10 import _gate_table, GATE
    from .c18 import interactive_rule

    r = ctx.rule("C09-R7", "TABLE", "what the quiet and verbosity switches set is what the write gate decides on: "
                 "quiet refuses first, then the levels in ascending order (same table as C10-R3)", reference=11)
    out_cls = ctx.cls("clikit.api.io.output.Output")
    gate_fn = p.lookup_method(out_cls, GATE)
    ctx.require(gate_fn is not None, "Output._may_write missing")
    _gate_table(ctx, r, gate_fn)
    interactive_rule(ctx, "C09-R8", reference=3)

    # ---------------------------------------------------------------- R9
    r = ctx.rule("C09-R9", "ORDER", "the switches govern the whole run, error reports of a failed resolution included: in run() the I/O built by the "
                 "configured factory from the command line is in place before the command is resolved", reference=1)
    app = ctx.cls("clikit.console_application.ConsoleApplication")
    run_fn = app.methods.get("run")
    ctx.require(run_fn is not None, "ConsoleApplication.run missing")
    rcfg = ctx.cfg(run_fn)
    # the local that the error report is rendered to
    # the local I/O of the run: what is handed to the command's handle() (and what the error report is rendered to)
    io_names = {c.args[-1].id for c in q.calls(run_fn) if isinstance(c.func, ast.Attribute) and c.func.attr == "handle" and len(c.args) >= 2 and isinstance(c.args[-1], ast.Name)}
    io_names |= {a.id for c in q.calls(run_fn) if isinstance(c.func, ast.Attribute) and c.func.attr == "render" for a in c.args if isinstance(a, ast.Name)}
    ctx.require(io_names, "run() hands no local I/O to the command's handle()")
    built = [n for n in rcfg.nodes if n.kind == "stmt" and isinstance(n.ast, ast.Assign) and isinstance(n.ast.value, ast.Call)
             and any(isinstance(t, ast.Name) and t.id in io_names for t in n.ast.targets)]
    resolves = [n for c in q.calls(run_fn) if isinstance(c.func, ast.Attribute) and c.func.attr == "resolve_command" for n in rcfg.nodes_of(c)]
    ctx.require(resolves, "run() no longer resolves the command")
    if not built:
        r.fail(run_fn, run_fn.node, "no I/O built from the command line", "run() never replaces the preliminary I/O by one built from the command line")
    else:
        for rn in resolves:
            if any(rcfg.dominates(b.id, rn.id) for b in built):
                r.ok("%s: %s precedes %s" % (run_fn.short, norm(built[0].ast)[:40], norm(rn.ast)[:50]))
            else:
                r.fail(run_fn, rn.ast, norm(rn.ast) + " before the I/O is built", "run() resolves the command before the I/O for this command line exists: an undefined command or an unknown option "
                       "is reported on the preliminary I/O, which ignores --quiet, --no-ansi and the streams passed to run()")

    # ---------------------------------------------------------------- R10
    r = ctx.rule("C09-R10", "TABLE", "whether an Output decorates is the documented function of (stream supports ANSI, formatter disables ANSI, formatter forces "
                 "ANSI): forced -> yes on any stream; disabled and not forced -> no, whatever the stream; otherwise what the stream supports "
                 "(decided where the default configuration hands the formatter over: the constructor)", reference=8)
    init = out_cls.methods.get("__init__")
    ctx.require(init is not None, "Output.__init__ missing")
    ATOMS = ("supports_ansi", "disable_ansi", "force_ansi")
    icfg = ctx.cfg(init)
    field = None
    sa = ctx.cls("clikit.api.io.output.Output").methods.get("supports_ansi")
    if sa is not None:
        for ret in q.returns(sa):
            if ret.value is not None and is_self_attr(ret.value):
                field = ret.value.attr
    ctx.require(field is not None, "Output.supports_ansi no longer returns a field")

    def atom(e):
        return e.func.attr if isinstance(e, ast.Call) and isinstance(e.func, ast.Attribute) and e.func.attr in ATOMS else None

    def ev(e, env):
        a = atom(e)
        if a:
            return env[a]
        if isinstance(e, ast.Name) and ("local:" + e.id) in env:
            return env["local:" + e.id]
        if isinstance(e, ast.BoolOp):
            vals = [ev(v, env) for v in e.values]
            if any(v is None for v in vals):
                return None
            return all(vals) if isinstance(e.op, ast.And) else any(vals)
        if isinstance(e, ast.UnaryOp) and isinstance(e.op, ast.Not):
            v = ev(e.operand, env)
            return None if v is None else (not v)
        if isinstance(e, ast.Constant) and isinstance(e.value, bool):
            return e.value
        if isinstance(e, ast.IfExp):
            t = ev(e.test, env)
            return None if t is None else ev(e.body if t else e.orelse, env)
        return None

    def simulate(env):
        """set of values the field can hold at the normal exit"""
        out = set()
        stack = [(icfg.entry.id, "unset", frozenset())]
        seen = set()
        while stack:
            nid, val, loc = stack.pop()
            if (nid, val, loc) in seen:
                continue
            seen.add((nid, val, loc))
            nd = icfg.nodes[nid]
            if nid == icfg.exit.id:
                out.add(val)
                continue
            env2 = dict(env)
            env2.update(dict(loc))
            if nd.kind == "stmt" and isinstance(nd.ast, ast.Assign) and any(is_self_attr(t, field) for t in nd.ast.targets):
                val = ev(nd.ast.value, env2)
            elif nd.kind == "stmt" and isinstance(nd.ast, ast.Assign) and len(nd.ast.targets) == 1 and isinstance(nd.ast.targets[0], ast.Name):
                # a boolean local that carries (part of) the decision
                lv = ev(nd.ast.value, env2)
                d_ = dict(loc)
                if lv is None:
                    d_.pop("local:" + nd.ast.targets[0].id, None)
                else:
                    d_["local:" + nd.ast.targets[0].id] = lv
                loc = frozenset(d_.items())
            succs = icfg.succs(nid)
            if nd.kind == "cond":
                v = ev(nd.ast, env2)
                if v is not None:
                    t_, f_ = icfg.true_of(nd), icfg.false_of(nd)
                    succs = [(t_ if v else f_).id] if (t_ if v else f_) is not None else succs
            for s_ in succs:
                stack.append((s_, val, loc))
        return out

    import itertools
    for sup, dis, frc in itertools.product((False, True), repeat=3):
        env = {"supports_ansi": sup, "disable_ansi": dis, "force_ansi": frc}
        want = True if frc else (False if dis else sup)
        got = simulate(env)
        desc = "supports=%s disable=%s force=%s" % (sup, dis, frc)
        if got == {want}:
            r.ok("Output(): %s -> %s" % (desc, want))
        else:
            shown = sorted("?" if g is None else str(g) for g in got)
            r.fail(init, init.node, "decorate(%s) = %s" % (desc, "/".join(shown)), "Output() decides self.%s = %s for %s, expected %s: %s" % (
                field, "/".join(shown), desc, want,
                "under --no-ansi on a capable terminal the output still claims ANSI support, so sections and progress bars emit cursor-movement sequences" if dis and not frc
                else "--ansi does not force decoration on this stream" if frc else "the stream's own capability is not honoured"))

    # ---------------------------------------------------------------- R11 / R12
    from .c01 import pushback_rule
    from .c02 import lenient_total_rule

    r = ctx.rule("C09-R11", "POLARITY", "a switch placed before '--' keeps its place: when the parser looks ahead for an option value and finds '--' or another "
                 "option, the token goes back to the front of the pending tokens - otherwise '-v -- -V' moves the separator to the end and '-V' after it "
                 "prints the version (same rule as the lookahead clause of C01-R4)", reference=3)
    pushback_rule(ctx, r, ctx.cls("clikit.args.default_args_parser.DefaultArgsParser"))
    r = ctx.rule("C09-R12", "EXC", "the help switch is honoured wherever it stands before '--': the lenient parse that looks for it never raises a parse error, "
                 "whatever else is wrong with the line (same rule as C02-R2)", reference=20)
    lenient_total_rule(ctx, r)
    ctx.borrow("c05", "C05-R2", "C09-R13", "the switches act the same on every run of the same argv list: wrapping an argv list does not pop the program name off the caller's own list "
               "(the second run would lose its command name and ignore where the switches stand)")
    ctx.borrow("c10", "C10-R2", "C09-R14", "the verbosity switches govern every writing method of the I/O facade: each forwards the caller's flags to the output it delegates to")
    from .c11 import formatter_style_set_rule

    r = ctx.rule("C09-R15", "SIBLING", "--ansi / --no-ansi change the decoration and nothing else: on every arm of the I/O factory the formatter gets the application's "
                 "style set, so an application-defined style tag is interpreted the same way whichever switch is given (same rule as C11-R9)", reference=6)
    formatter_style_set_rule(ctx, r)
    ctx.borrow("c04", "C04-R15", "C09-R16", "the version switch acts 'without invoking the command's handler' - and without building it: the configured handler (possibly a factory) is "
               "looked up only after the pre-handle listeners had their say")
    ctx.borrow("c13", "C13-R11", "C09-R17", "the help switch 'prints that command's help ... with status 0' whatever else the line lacks: the lenient mode switched on for the help request governs the parse "
               "that is handed on (a result parsed strictly during resolution is not reused)")
    # ---------------------------------------------------------------- R18
    r = ctx.rule("C09-R18", "GUARD", "'any subset of the global switches': what one switch does is not conditional on another switch being absent - in create_io each effect (quiet, "
                 "non-interactive, verbosity, formatter) is governed by the spellings of one switch family only", reference=5)

    def family(tok):
        t = tok.lstrip("-")
        if t in ("q", "quiet"):
            return "quiet"
        if t in ("n", "no-interaction"):
            return "interaction"
        if t in ("ansi", "no-ansi"):
            return "ansi"
        if t == "verbose" or (t and set(t) == {"v"}):
            return "verbosity"
        return t

    cio = dac.methods.get("create_io")
    ctx.require(cio is not None, "DefaultApplicationConfig.create_io missing")
    ms18 = [cio] + [h for h in dac.methods.values() if h is not cio and any(isinstance(c.func, ast.Attribute) and c.func.attr == h.name for c in q.calls(cio))]
    n18 = 0
    for m in ms18:
        cfg = ctx.cfg(m)
        for c in q.calls(m):
            if not (isinstance(c.func, ast.Attribute) and c.func.attr in ("set_quiet", "set_interactive", "set_verbosity")):
                continue
            fams = {}
            for cn in cfg.nodes_of(c):
                for e in cfg.nodes:
                    if e.kind in ("T", "F") and e.ast is not None and cfg.dominates(e.id, cn.id):
                        for x in walk_no_nested(e.ast):
                            if isinstance(x, ast.Call) and isinstance(x.func, ast.Attribute) and x.func.attr == "has_option_token" and x.args and isinstance(x.args[0], ast.Constant):
                                fams.setdefault(family(x.args[0].value), []).append((e, x))
            n18 += 1
            own = {"set_quiet": "quiet", "set_interactive": "interaction", "set_verbosity": "verbosity"}[c.func.attr]
            other = sorted(f for f in fams if f != own)
            if not other:
                r.ok("%s: %s governed by the %s switch only" % (m.short, norm(c)[:40], own))
            else:
                e, x = fams[other[0]][0]
                r.fail(m, c, "%s depends on the %s switch" % (norm(c)[:40], other[0]), "%s reaches %s only when %s is %s: with both switches on the line (in any order or spelling) the %s switch "
                       "is ignored" % (m.short, norm(c), norm(x), "given" if e.kind == "T" else "absent", own))
    ctx.require(n18 >= 2, "create_io no longer applies the quiet / no-interaction / verbosity switches")

    # ---------------------------------------------------------------- R19
    r = ctx.rule("C09-R19", "TABLE", "'-v / -vv / -vvv': the level predicates of an output are thresholds - is_<level>() is `verbosity >= <LEVEL>` for every level below the highest "
                 "(what is written at -vv is also written at -vvv, and the handler is told so)", reference=3)
    out18 = ctx.cls("clikit.api.io.output.Output")
    lv = {}
    for nm_, v_ in out18.module.assigns.items():
        pass
    flags_mod = p.modules.get("clikit.api.io.flags")
    levels = {}
    if flags_mod is not None:
        for nm_, v_ in flags_mod.assigns.items():
            if nm_ in ("NORMAL", "VERBOSE", "VERY_VERBOSE", "DEBUG") and q.const_int(v_) is not None:
                levels[nm_] = q.const_int(v_)
    ctx.require(len(levels) >= 3, "verbosity level constants not found in clikit.api.io.flags")
    top = max(levels, key=lambda k: levels[k])
    for nm_, m in sorted(out18.methods.items()):
        if not nm_.startswith("is_") or nm_[3:].upper() not in levels:
            continue
        want = nm_[3:].upper()
        rets = q.returns(m)
        ok_ = False
        got = None
        MIRROR = {ast.LtE: ast.GtE, ast.Lt: ast.Gt, ast.GtE: ast.LtE, ast.Gt: ast.Lt, ast.Eq: ast.Eq, ast.NotEq: ast.NotEq}
        for ret in rets:
            v = ret.value
            if isinstance(v, ast.Compare) and len(v.ops) == 1:
                lhs, op, rhs = v.left, type(v.ops[0]), v.comparators[0]
                if isinstance(lhs, ast.Name) and is_self_attr(rhs):
                    lhs, rhs, op = rhs, lhs, MIRROR.get(op, op)  # LEVEL <= self._verbosity
                if not (is_self_attr(lhs) and isinstance(rhs, ast.Name)):
                    continue
                got = (op.__name__, rhs.id)
                if rhs.id == want and (op is ast.GtE or (op is ast.Eq and want == top)):
                    ok_ = True
                elif op is ast.Gt and rhs.id in levels and sorted(levels.values()).index(levels[rhs.id]) + 1 == sorted(levels.values()).index(levels[want]):
                    ok_ = True  # `> <the level just below>`
        if ok_:
            r.ok("Output.%s: threshold at %s" % (nm_, want))
        else:
            r.fail(m, m.node, "Output.%s is %s" % (nm_, got), "Output.%s is not the threshold `verbosity >= %s` (%s): at a higher level the handler and the components are told the output is not %s "
                   "while text flagged %s is still written" % (nm_, want, got, nm_[3:].replace("_", " "), want))

    # ---------------------------------------------------------------- R20
    r = ctx.rule("C09-R20", "OWNER", "'--version on any command': every command object is wired to the application it belongs to (that is where its dispatcher, and with it the "
                 "version / help listeners, come from) - each construction of a Command inside the package passes the application on", reference=2)
    cmd18 = ctx.cls("clikit.api.command.command.Command")
    cinit = cmd18.methods.get("__init__")
    ctx.require(cinit is not None and "application" in cinit.params, "Command.__init__ has no application parameter")
    pos = [a for a in cinit.params if a != "self"].index("application")
    n20 = 0
    for fn in p.all_functions():
        for c in q.calls(fn):
            is_ctor = (isinstance(c.func, ast.Name) and c.func.id == "Command" and fn.module.imports.get("Command", (None,))[0] is not None) or \
                      (isinstance(c.func, ast.Name) and c.func.id == "Command" and fn.module is cmd18.module) or \
                      (isinstance(c.func, ast.Attribute) and c.func.attr == "__class__" and isinstance(c.func.value, ast.Name) and c.func.value.id == "self" and fn.cls is cmd18)
            if not is_ctor:
                continue
            n20 += 1
            a = c.args[pos] if pos < len(c.args) else next((k.value for k in c.keywords if k.arg == "application"), None)
            if a is not None and not (isinstance(a, ast.Constant) and a.value is None):
                r.ok("%s: %s receives the application" % (fn.short, norm(c)[:50]))
            else:
                r.fail(fn, c, "%s without the application" % norm(c)[:60], "%s builds a command without handing it the application: the command has no dispatcher of its own, so the listeners that print the "
                       "version / the help page are not consulted for it - '-V' on that command runs its handler" % fn.short)
    ctx.require(n20 >= 1, "no construction of a Command found in the package")

    ctx.borrow("c08", "C08-R3", "C09-R21", "'switches act the same wherever they appear' and 'after -- they are ignored': whether a switch is on the line is asked of the option tokens, which every kind of raw args derives as the tokens before the first '--' (from the token list, not from the text of the line)")
    return ctx.results
