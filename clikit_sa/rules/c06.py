"""C06 - an args format can never be built into an inconsistent state."""
import ast

from ..loader import walk_no_nested, norm, is_self_attr
from ..cfg import guarded_by
from ..effects import root, show
from .. import q

BASE = "_base_format"


def query_summary(ctx, m):
    """Abstract summary of a has_*/get_* query method."""
    reads = sorted({n.attr for n in walk_no_nested(m.node) if is_self_attr(n) and isinstance(n.ctx, ast.Load) and n.attr != BASE
                    and not isinstance(getattr(n, "_parent", None), ast.Call) or (is_self_attr(n) and isinstance(n.ctx, ast.Load) and n.attr.startswith("_") and n.attr != BASE
                    and not (isinstance(getattr(n, "_parent", None), ast.Call) and getattr(n, "_parent").func is n))})
    base_calls = sorted({c.func.attr for c in q.calls(m) if isinstance(c.func, ast.Attribute) and is_self_attr(c.func.value, BASE)})
    self_calls = sorted({c.func.attr for c in q.calls(m) if isinstance(c.func, ast.Attribute) and isinstance(c.func.value, ast.Name) and c.func.value.id == "self"})
    # every call on the base format lies behind the `include_base` test (any spelling: conjunct, nested if, negated guard clause)
    cfg_ = ctx.cfg(m)
    inc_edges = [e.id for e in cfg_.nodes if (e.kind == "T" and isinstance(e.ast, ast.Name) and e.ast.id == "include_base")
                 or (e.kind == "F" and isinstance(e.ast, ast.UnaryOp) and isinstance(e.ast.op, ast.Not) and isinstance(e.ast.operand, ast.Name) and e.ast.operand.id == "include_base")]
    bcalls = [n for c in q.calls(m) if isinstance(c.func, ast.Attribute) and is_self_attr(c.func.value, BASE) for n in cfg_.nodes_of(c)]
    gated = (not base_calls) or (bool(inc_edges) and all(any(cfg_.dominates(e, b.id) for e in inc_edges) for b in bcalls))
    order = merge_order(m)
    alias = any(r.value is not None and is_self_attr(r.value) for r in q.returns(m))
    raises = sorted({norm(r.exc.func if isinstance(r.exc, ast.Call) else r.exc) for r in q.raises(m) if r.exc is not None})
    return {"reads": reads, "base_calls": base_calls, "self_calls": self_calls, "gated": gated, "order": order, "raises": raises}


def merge_order(m):
    """'base-first' / 'own-first' / None for methods that merge own and base listings."""
    own_names, base_names = set(), set()
    for n in walk_no_nested(m.node):
        if isinstance(n, ast.Assign) and isinstance(n.targets[0], ast.Name):
            v = n.value
            txt = norm(v)
            if any(is_self_attr(x, BASE) for x in walk_no_nested(v)) and not any(is_self_attr(x) and x.attr != BASE for x in walk_no_nested(v)):
                base_names.add(n.targets[0].id)
            elif any(is_self_attr(x) and x.attr != BASE for x in walk_no_nested(v)) and not any(is_self_attr(x, BASE) for x in walk_no_nested(v)):
                own_names.add(n.targets[0].id)

    def side(e):
        if isinstance(e, ast.Name):
            if e.id in base_names and e.id not in own_names:
                return "base"
            if e.id in own_names:
                return "own"
        if any(is_self_attr(x, BASE) for x in walk_no_nested(e)):
            return "base"
        if any(is_self_attr(x) for x in walk_no_nested(e)):
            return "own"
        return None
    for n in walk_no_nested(m.node):
        if isinstance(n, ast.Call) and isinstance(n.func, ast.Attribute) and n.func.attr in ("update", "extend") and n.args:
            a, b = side(n.func.value), side(n.args[0])
            if a and b and a != b:
                return a + "-first"
        if isinstance(n, ast.BinOp) and isinstance(n.op, ast.Add):
            a, b = side(n.left), side(n.right)
            if a and b and a != b:
                return a + "-first"
        if isinstance(n, ast.AugAssign) and isinstance(n.op, ast.Add):
            a, b = side(n.target), side(n.value)
            if a and b and a != b:
                return a + "-first"
    return None


def base_recursion_rule(ctx, r):
    """SIBLING rule shared with C03: in format and builder, a query that falls through to the base format passes the fall-through on."""
    for cname in ("clikit.api.args.format.args_format.ArgsFormat", "clikit.api.args.format.args_format_builder.ArgsFormatBuilder"):
        c = ctx.cls(cname)
        for name, m in sorted(c.methods.items()):
            if "include_base" not in m.params:
                continue
            for call in q.calls(m):
                if isinstance(call.func, ast.Attribute) and is_self_attr(call.func.value, BASE):
                    kw = q.kwarg(call, "include_base")
                    pos = None
                    callee = ctx.p.lookup_method(ctx.cls("clikit.api.args.format.args_format.ArgsFormat"), call.func.attr)
                    if callee is not None and "include_base" in callee.params:
                        pos = q.arg_for_param(call, callee, "include_base")
                    val = kw if kw is not None else pos
                    if isinstance(val, ast.Constant) and val.value is False:
                        r.fail(m, call, norm(call), "%s.%s asks its base format with include_base=False: only one level of bases is consulted, elements declared two or more levels up are lost" % (c.name, name))
                    else:
                        r.ok("%s.%s: %s (recursive)" % (c.name, name, norm(call)[:60]))


def run(ctx):
    p, cg = ctx.p, ctx.cg
    fmt = ctx.cls("clikit.api.args.format.args_format.ArgsFormat")
    bld = ctx.cls("clikit.api.args.format.args_format_builder.ArgsFormatBuilder")

    # ---------------------------------------------------------------- R1
    r = ctx.rule("C06-R1", "ATOMIC", "a rejected addition leaves the builder unchanged: in every add_* no write of "
                 "builder state precedes a raise", reference=4)
    for name in ("add_option", "add_command_option", "add_argument", "add_command_name"):
        m = bld.methods.get(name)
        ctx.require(m is not None, "ArgsFormatBuilder.%s missing" % name)
        cfg = ctx.cfg(m)
        writes = []
        for n in cfg.nodes:
            if n.ast is None or n.kind not in ("stmt",):
                continue
            w = False
            for s in walk_no_nested(n.ast):
                if isinstance(s, (ast.Assign, ast.AugAssign)):
                    tg = s.targets if isinstance(s, ast.Assign) else [s.target]
                    if any(q.self_attr_root(t) is not None or is_self_attr(t) for t in tg):
                        w = True
                if isinstance(s, ast.Call) and isinstance(s.func, ast.Attribute) and s.func.attr in q.MUTATORS and q.self_attr_root(s.func.value):
                    w = True
            if w:
                writes.append(n)
        raises_ = [n for n in cfg.nodes if n.kind == "raise"]
        # calls of private helpers of the builder that can raise a rejection count as raise points too
        for n in cfg.nodes:
            if n.kind in ("stmt", "cond") and n.ast is not None:
                for c in walk_no_nested(n.ast):
                    if isinstance(c, ast.Call) and isinstance(c.func, ast.Attribute) and isinstance(c.func.value, ast.Name) and c.func.value.id == "self":
                        for t in cg.site_for(m, c).targets:
                            if t.cls is bld and t.name.startswith("_") and q.raises(t):
                                raises_.append(n)
        bad = None
        for w in writes:
            after = cfg.reach([w.id])
            for rz in raises_:
                if rz.id in after:
                    bad = (w, rz)
        if bad:
            r.fail(m, bad[0].ast, norm(bad[0].ast), "%s writes builder state (%s) and can still reject the element afterwards (%s): "
                   "a rejected addition leaves the builder changed" % (name, norm(bad[0].ast), norm(bad[1].ast)[:60]))
        else:
            r.ok("%s: %d checks precede %d writes" % (name, len(raises_), len(writes)))

    # ---------------------------------------------------------------- R2
    r = ctx.rule("C06-R2", "TAINT", "constructing a format from a list of elements validates them against the base "
                 "format it is given (the base reaches the validating builder)", reference=2)
    init = fmt.methods.get("__init__")
    cbe = fmt.methods.get("_create_builder_for_elements")
    ctx.require(init and cbe, "ArgsFormat.__init__/_create_builder_for_elements missing")
    for c in q.method_calls(init, "_create_builder_for_elements"):
        a = q.arg_for_param(c, cbe, "base_format")
        if isinstance(a, ast.Name) and a.id == "base_format":
            r.ok("ArgsFormat.__init__: base_format handed to the element builder")
        else:
            r.fail(init, c, norm(c), "the element list is validated by a builder that does not know the base format: an option named like "
                   "one of the base's, or a required argument after the base's optional one, is accepted")
    for c in q.calls(cbe):
        if isinstance(c.func, ast.Name) and c.func.id == "ArgsFormatBuilder":
            if c.args and isinstance(c.args[0], ast.Name) and c.args[0].id == "base_format":
                r.ok("_create_builder_for_elements: builder constructed on the base format")
            else:
                r.fail(cbe, c, norm(c), "the builder used for validating elements is not constructed on the base format")

    # ---------------------------------------------------------------- R3
    r = ctx.rule("C06-R3", "SIBLING", "builder and built format answer every query from the same indices, with the "
                 "same base fall-through and the same merge order; the format mirrors every builder field", reference=26)
    shared = sorted(n for n in fmt.methods if (n.startswith("has_") or n.startswith("get_")) and n in bld.methods)
    ctx.require(len(shared) >= 12, "too few shared query methods (%d)" % len(shared))
    # correspondence builder field -> format field: format.__init__ derives F = builder.Q(...); the builder's own
    # field behind Q is the counterpart of F (so the two classes may name their private fields differently)
    b2f = {}
    for n in walk_no_nested(init.node):
        if isinstance(n, ast.Assign) and len(n.targets) == 1 and is_self_attr(n.targets[0]) and isinstance(n.value, ast.Call) or \
                (isinstance(n, ast.Assign) and len(n.targets) == 1 and is_self_attr(n.targets[0]) and isinstance(n.value, ast.Call) is False and any(isinstance(x, ast.Call) for x in walk_no_nested(n.value))):
            calls_ = [x for x in walk_no_nested(n.value) if isinstance(x, ast.Call) and isinstance(x.func, ast.Attribute) and isinstance(x.func.value, ast.Name) and x.func.value.id == "builder"]
            for c in calls_:
                qm = bld.methods.get(c.func.attr)
                if qm is None:
                    continue
                own = [x for x in query_summary(ctx, qm)["reads"]]
                if len(own) == 1:
                    b2f[own[0]] = n.targets[0].attr

    def mapped(summary):
        out = dict(summary)
        out["reads"] = sorted(b2f.get(x, x) for x in summary["reads"])
        return out
    for name in shared:
        a, b = query_summary(ctx, fmt.methods[name]), mapped(query_summary(ctx, bld.methods[name]))
        diffs = [k for k in a if a[k] != b[k]]
        if not diffs:
            r.ok("%s: reads %s, base %s, order %s" % (name, ",".join(a["reads"]) or "-", ",".join(a["base_calls"]) or "-", a["order"]))
        else:
            d = diffs[0]
            r.fail(bld.methods[name], bld.methods[name].node, "%s: %s differs" % (name, d),
                   "ArgsFormat.%s and ArgsFormatBuilder.%s disagree on %s: format %s, builder %s - the finished format answers this query "
                   "differently from the builder that produced it" % (name, name, d, a[d], b[d]))
    binit = bld.methods.get("__init__")
    bf = {b2f.get(t.attr, t.attr) for n in walk_no_nested(binit.node) if isinstance(n, ast.Assign) for t in n.targets if is_self_attr(t)}
    ff = {t.attr for n in walk_no_nested(init.node) if isinstance(n, ast.Assign) for t in n.targets if is_self_attr(t)}
    for f in sorted(bf | ff):
        if f in bf and f in ff:
            r.ok("field %s mirrored" % f)
        else:
            r.fail(init, init.node, "field " + f, "field %s exists only in the %s: queries depending on it cannot agree" % (f, "builder" if f in bf else "format"))

    # ---------------------------------------------------------------- R8
    r = ctx.rule("C06-R8", "SIBLING", "the fall-through to the base format is recursive in every query of format and builder (no include_base=False on the call to the base): "
                 "elements of a base's base are found", reference=30)
    base_recursion_rule(ctx, r)

    # ---------------------------------------------------------------- R9
    r = ctx.rule("C06-R9", "RANGE", "lookup by position answers like lookup by name: a list built from the arguments is subscripted with the caller's position only behind "
                 "an upper-bound test on it (or inside a handler for IndexError) - a position past the end is 'no such argument' in format and builder alike", reference=2)
    for cls in (fmt, bld):
        m = cls.methods.get("get_argument")
        if m is None:
            continue
        cfg = ctx.cfg(m)
        prm0 = [a for a in m.params if a != "self"][0]
        lists = {t.id for n in walk_no_nested(m.node) if isinstance(n, ast.Assign) and isinstance(n.value, ast.Call) and isinstance(n.value.func, ast.Name) and n.value.func.id == "list" for t in n.targets if isinstance(t, ast.Name)}
        for sub in [n for n in walk_no_nested(m.node) if isinstance(n, ast.Subscript) and isinstance(n.ctx, ast.Load) and isinstance(n.value, ast.Name) and n.value.id in lists and isinstance(n.slice, ast.Name) and n.slice.id == prm0]:
            x = sub.value.id
            ok_ = True
            for sn in cfg.nodes_of(sub):
                # only paths on which the list form reaches the subscript matter
                ldefs = [w for w in cfg.writes(lambda t: t == x) if isinstance(w.ast, ast.Assign) and isinstance(w.ast.value, ast.Call) and isinstance(w.ast.value.func, ast.Name) and w.ast.value.func.id == "list"]
                if not any(sn.id in cfg.reach([w.id]) for w in ldefs):
                    continue
                def bound_edge(e):
                    if e.kind not in ("T", "F") or not (isinstance(e.ast, ast.Compare) and len(e.ast.ops) == 1 and prm0 in q.names_in(e.ast)
                                                       and any(isinstance(c, ast.Call) and isinstance(c.func, ast.Name) and c.func.id == "len" for c in walk_no_nested(e.ast))):
                        return False
                    op = e.ast.ops[0]
                    left_is_pos = prm0 in q.names_in(e.ast.left)
                    if left_is_pos:   # pos OP len
                        return (isinstance(op, (ast.GtE, ast.Gt)) and e.kind == "F") or (isinstance(op, (ast.Lt, ast.LtE)) and e.kind == "T")
                    return (isinstance(op, (ast.LtE, ast.Lt)) and e.kind == "F") or (isinstance(op, (ast.Gt, ast.GtE)) and e.kind == "T")   # len OP pos
                edges = {e.id for e in cfg.nodes if bound_edge(e)}
                bounded = bool(edges) and all(cfg.all_paths_hit(w.id, edges, [sn.id]) for w in ldefs if sn.id in cfg.reach([w.id]))
                handled = False
                for s_, k in cfg.succ[sn.id]:
                    hn = cfg.nodes[s_]
                    if k == "e" and hn.kind == "except":
                        nm = [] if hn.ast.type is None else [norm(t_) for t_ in (hn.ast.type.elts if isinstance(hn.ast.type, ast.Tuple) else [hn.ast.type])]
                        if hn.ast.type is None or any(t_ in ("IndexError", "LookupError", "Exception") for t_ in nm):
                            handled = True
                if not (bounded or handled):
                    ok_ = False
            if ok_:
                r.ok("%s.get_argument: %s bounded" % (cls.name, norm(sub)))
            else:
                r.fail(m, sub, norm(sub) + " unbounded", "%s.get_argument subscripts the argument list with the caller's position without an upper-bound test: a position past the end raises IndexError "
                       "where the sibling raises the no-such-argument error" % cls.name)

    # ---------------------------------------------------------------- R10
    r = ctx.rule("C06-R10", "GUARD", "every alias of a command option identifies it: the loops that index long and short aliases run for every command option, not only "
                 "for those that (also) have some other name", reference=2)
    def _name_guards(cfg, at, elem):
        """conditions on another attribute of `elem` that dominate node `at` (raising arms excluded)"""
        out = []
        for e in cfg.nodes:
            if e.kind not in ("T", "F") or e.ast is None or not cfg.dominates(e.id, at.id):
                continue
            if not any(isinstance(x, ast.Attribute) and isinstance(x.value, ast.Name) and x.value.id == elem for x in walk_no_nested(e.ast)):
                continue
            other = cfg.false_of(e.cond) if e.kind == "T" else cfg.true_of(e.cond)
            if other is not None and cfg.inevitably_raises(other.id):
                continue
            out.append(e)
        return out

    for cls in (fmt, bld):
        for mname, m in sorted(cls.methods.items()):
            loops = [n for n in walk_no_nested(m.node) if isinstance(n, ast.For) and isinstance(n.iter, ast.Attribute) and n.iter.attr in ("long_aliases", "short_aliases") and isinstance(n.iter.value, ast.Name)
                     and any(isinstance(x, ast.Assign) and isinstance(x.targets[0], ast.Subscript) and is_self_attr(x.targets[0].value) for x in ast.walk(n))]
            if not loops:
                continue
            cfg = ctx.cfg(m)
            for loop in loops:
                elem = loop.iter.value.id
                extra = [(m, e) for e in _name_guards(cfg, cfg.node_of(loop), elem)]
                if not extra and elem in m.params and mname.startswith("_") and not mname.startswith("__"):
                    # the loops live in a private helper: the gate may sit at its call sites
                    idx = [a for a in m.params if a != "self"].index(elem)
                    for o in cls.methods.values():
                        for c in q.method_calls(o, mname, recv=lambda e_: isinstance(e_, ast.Name) and e_.id == "self"):
                            if idx < len(c.args) and isinstance(c.args[idx], ast.Name):
                                ocfg = ctx.cfg(o)
                                extra += [(o, e) for n_ in ocfg.nodes_of(c) for e in _name_guards(ocfg, n_, c.args[idx].id)]
                if extra:
                    o, e = extra[0]
                    r.fail(m, loop, "loop over %s under `%s`" % (norm(loop.iter), norm(e.ast)), "%s.%s indexes the %s only when %s%s: a command option without that other name keeps aliases the format "
                           "does not know, so another option can take the same alias" % (cls.name, mname, loop.iter.attr.replace("_", " "), "" if e.kind == "T" else "not ", norm(e.ast)))
                else:
                    r.ok("%s.%s: every %s indexed" % (cls.name, mname, loop.iter.attr))

    # ---------------------------------------------------------------- R4
    r = ctx.rule("C06-R4", "SIBLING", "has_X(k) is true exactly when get_X(k) finds k: both consult the same indices", reference=6)
    for cls in (fmt, bld):
        for kind in ("option", "command_option", "argument"):
            h, g = cls.methods.get("has_" + kind), cls.methods.get("get_" + kind)
            if not h or not g:
                continue
            hs, gs = query_summary(ctx, h), query_summary(ctx, g)
            if hs["reads"] == gs["reads"] and hs["base_calls"] == [x.replace("get_", "has_") for x in gs["base_calls"]] and hs["self_calls"] == gs["self_calls"]:
                r.ok("%s.has_%s / get_%s consult %s" % (cls.name, kind, kind, ",".join(hs["reads"] + hs["self_calls"])))
            else:
                r.fail(h, h.node, "%s has/get %s" % (cls.name, kind), "%s.has_%s consults %s but get_%s consults %s" % (cls.name, kind, hs["reads"] + hs["self_calls"] + hs["base_calls"], kind, gs["reads"] + gs["self_calls"] + gs["base_calls"]))

    # ---------------------------------------------------------------- R5
    r = ctx.rule("C06-R5", "TABLE", "every name an element is inserted under was checked for a collision (with options "
                 "and command options, own and inherited) before insertion; the three argument-ordering checks are present", reference=12)
    for name in ("add_option", "add_command_option"):
        m = bld.methods[name]
        cfg = ctx.cfg(m)
        # alias loop variables stand for their collection
        inserted = []
        for n in walk_no_nested(m.node):
            if isinstance(n, ast.Assign) and isinstance(n.targets[0], ast.Subscript) and is_self_attr(n.targets[0].value):
                inserted.append((n, norm(n.targets[0].slice)))
        checked = {}
        # private helpers that reject a colliding name: h(name) raises when self.has_X(name)
        for c in q.calls(m):
            if isinstance(c.func, ast.Attribute) and isinstance(c.func.value, ast.Name) and c.func.value.id == "self" and c.args:
                for t in cg.site_for(m, c).targets:
                    if t.cls is bld and t.name.startswith("_") and q.param_names(t):
                        hp = q.param_names(t)[0]
                        hcfg = ctx.cfg(t)
                        for e in hcfg.nodes:
                            if e.kind == "T" and isinstance(e.ast, ast.Call) and isinstance(e.ast.func, ast.Attribute) and e.ast.func.attr in ("has_option", "has_command_option") \
                                    and e.ast.args and isinstance(e.ast.args[0], ast.Name) and e.ast.args[0].id == hp and hcfg.inevitably_raises(e.id):
                                # the helper call must precede every insertion
                                checked.setdefault(norm(c.args[0]), set()).add(e.ast.func.attr)
        for n in cfg.nodes:
            if n.kind == "raise":
                for e in cfg.nodes:
                    if e.kind == "T" and cfg.dominates(e.id, n.id) and isinstance(e.ast, ast.Call) and isinstance(e.ast.func, ast.Attribute) and e.ast.func.attr in ("has_option", "has_command_option") and e.ast.args:
                        checked.setdefault(norm(e.ast.args[0]), set()).add(e.ast.func.attr)
        # `a or b` conditions: a raise reachable from either true edge
        for e in cfg.nodes:
            if e.kind == "T" and isinstance(e.ast, ast.Call) and isinstance(e.ast.func, ast.Attribute) and e.ast.func.attr in ("has_option", "has_command_option") and e.ast.args:
                if any(x.kind == "raise" and x.id in cfg.reach([e.id]) for x in cfg.nodes) and cfg.inevitably_raises(e.id):
                    checked.setdefault(norm(e.ast.args[0]), set()).add(e.ast.func.attr)
        for n, key in inserted:
            got = checked.get(key, set())
            if {"has_option", "has_command_option"} <= got:
                r.ok("%s: key %s checked against options and command options" % (name, key))
            else:
                r.fail(m, n, "insert under %s" % key, "%s inserts the element under %s without having rejected a collision with %s" %
                       (name, key, " / ".join(sorted({"has_option", "has_command_option"} - got))))
    m = bld.methods["add_argument"]
    cfg = ctx.cfg(m)
    want = {"has_argument": "an argument of that name exists", "has_multi_valued_argument": "a multi-valued argument exists already",
            "has_optional_argument": "a required argument after an optional one"}
    # the checks may sit in a private helper that add_argument calls (with the argument) before it writes anything
    check_cfgs = [cfg]
    first_writes = [n for n in cfg.nodes if n.kind == "stmt" and n.ast is not None and any(
        isinstance(s_, (ast.Assign, ast.AugAssign)) and any(is_self_attr(t) or q.self_attr_root(t) is not None for t in (s_.targets if isinstance(s_, ast.Assign) else [s_.target]))
        for s_ in walk_no_nested(n.ast))]
    for c in q.calls(m):
        if isinstance(c.func, ast.Attribute) and isinstance(c.func.value, ast.Name) and c.func.value.id == "self" and c.func.attr.startswith("_") and c.func.attr in bld.methods:
            cn = cfg.node_of(c)
            if cn is not None and all(cfg.dominates(cn.id, w.id) for w in first_writes):
                check_cfgs.append(ctx.cfg(bld.methods[c.func.attr]))
    for pred, what in want.items():
        found = False
        for k in check_cfgs:
            ts = [e for e in k.nodes if e.kind == "T" and isinstance(e.ast, ast.Call) and isinstance(e.ast.func, ast.Attribute) and e.ast.func.attr == pred]
            if ts and all(k.inevitably_raises(t.id) for t in ts):
                found = True
        if found:
            r.ok("add_argument: %s rejects" % pred)
        else:
            r.fail(m, m.node, "add_argument: no %s check" % pred, "add_argument does not reject when %s" % what)
    # required-after-optional only for required arguments
    for k in check_cfgs:
        req = [e for e in k.nodes if e.kind == "T" and isinstance(e.ast, ast.Call) and isinstance(e.ast.func, ast.Attribute) and e.ast.func.attr == "is_required"]
        opt_t = [e for e in k.nodes if e.kind == "cond" and isinstance(e.ast, ast.Call) and isinstance(e.ast.func, ast.Attribute) and e.ast.func.attr == "has_optional_argument"]
        if req and opt_t and all(any(k.dominates(t.id, c.id) for t in req) for c in opt_t):
            r.ok("add_argument: optional-argument test applies to required arguments only")
    # the two markers are set from the element's own predicates
    for query, pred in (("has_multi_valued_argument", "is_multi_valued"), ("has_optional_argument", "is_optional")):
        # the marker = the builder's own field behind the query
        qm = bld.methods.get(query)
        own = query_summary(ctx, qm)["reads"] if qm is not None else []
        sets = [n for n in cfg.nodes if n.kind == "stmt" and isinstance(n.ast, ast.Assign) and any(is_self_attr(t) and t.attr in own for t in n.ast.targets)]
        # the predicate may have been read into a local first: flag = argument.is_x(); if flag: ...
        flag_locals = {t.id for n_ in walk_no_nested(m.node) if isinstance(n_, ast.Assign) and isinstance(n_.value, ast.Call) and isinstance(n_.value.func, ast.Attribute) and n_.value.func.attr == pred
                       for t in n_.targets if isinstance(t, ast.Name)}
        flag_locals = {x for x in flag_locals if len(cfg.writes(lambda t, x=x: t == x)) == 1}
        ok = sets and all(guarded_by(cfg, s, lambda e: (isinstance(e, ast.Call) and isinstance(e.func, ast.Attribute) and e.func.attr == pred) or (isinstance(e, ast.Name) and e.id in flag_locals), polarity=True) is not None for s in sets)
        extra = []
        if ok:
            # ... and under no further test of the element: an optional multi-valued argument sets both markers
            for s_ in sets:
                for e in cfg.nodes:
                    all_flag_locals = {t.id: n_.value.func.attr for n_ in walk_no_nested(m.node) if isinstance(n_, ast.Assign) and isinstance(n_.value, ast.Call) and isinstance(n_.value.func, ast.Attribute)
                                       and n_.value.func.attr.startswith("is_") for t in n_.targets if isinstance(t, ast.Name)}
                    if e.kind in ("T", "F") and isinstance(e.ast, ast.Name) and e.ast.id in all_flag_locals and not (e.kind == "T" and all_flag_locals[e.ast.id] == pred) and cfg.dominates(e.id, s_.id):
                        extra.append("%s%s()" % ("" if e.kind == "T" else "not ", all_flag_locals[e.ast.id]))
                        continue
                    if e.kind in ("T", "F") and isinstance(e.ast, ast.Call) and isinstance(e.ast.func, ast.Attribute) and e.ast.func.attr.startswith("is_") \
                            and not (e.kind == "T" and e.ast.func.attr == pred) and cfg.dominates(e.id, s_.id):
                        other = cfg.true_of(e.cond) if e.kind == "F" else cfg.false_of(e.cond)
                        if other is not None and cfg.inevitably_raises(other.id):
                            continue  # the other arm is a rejection: not a condition on the marker
                        extra.append("%s%s()" % ("" if e.kind == "T" else "not ", e.ast.func.attr))
        if ok and extra:
            r.fail(m, sets[0].ast, "marker of %s also under %s" % (query, ", ".join(sorted(set(extra)))), "add_argument records the marker that %s() reads only when additionally %s: "
                   "for an argument that is %s and also has the other trait the marker stays unset, so the query contradicts the listed arguments and a later ordering check cannot fire"
                   % (query, ", ".join(sorted(set(extra))), pred[3:]))
        elif ok:
            r.ok("add_argument: the marker behind %s() is set under %s()" % (query, pred))
        else:
            r.fail(m, m.node, "marker of " + query, "add_argument does not record the marker that %s() reads from argument.%s(): a later ordering check cannot fire" % (query, pred))

    # ---------------------------------------------------------------- R7
    r = ctx.rule("C06-R7", "RESET", "a replacement (set_*) starts from scratch: it resets every field its add_* "
                 "counterpart writes, before adding", reference=4)
    for kind in ("arguments", "options", "command_options", "command_names"):
        setter = bld.methods.get("set_" + kind)
        adder = bld.methods.get("add_" + kind[:-1])
        if setter is None or adder is None:
            continue
        written = set()
        for n in walk_no_nested(adder.node):
            if isinstance(n, (ast.Assign, ast.AugAssign)):
                for t in (n.targets if isinstance(n, ast.Assign) else [n.target]):
                    a = q.self_attr_root(t) or (t.attr if is_self_attr(t) else None)
                    if a:
                        written.add(a)
            if isinstance(n, ast.Call) and isinstance(n.func, ast.Attribute) and n.func.attr in q.MUTATORS:
                a = q.self_attr_root(n.func.value)
                if a:
                    written.add(a)
        cfg = ctx.cfg(setter)
        add_calls = [cfg.node_of(c) for c in q.calls(setter) if isinstance(c.func, ast.Attribute) and c.func.attr.startswith("add_")]
        reset = {}
        for n in cfg.nodes:
            if n.kind == "stmt" and isinstance(n.ast, ast.Assign) and q.is_fresh_expr(n.ast.value):
                for t in n.ast.targets:
                    if is_self_attr(t) and all(cfg.dominates(n.id, a.id) for a in add_calls if a is not None):
                        reset[t.attr] = n
        missing = sorted(written - set(reset))
        if not missing:
            r.ok("set_%s resets %s before adding" % (kind, sorted(written)))
        else:
            r.fail(setter, setter.node, "set_%s does not reset %s" % (kind, missing), "set_%s replaces the %s but keeps %s from before: ordering / collision checks of the "
                   "replacement are made against elements that are gone" % (kind, kind.replace("_", " "), ", ".join(missing)))

    # ---------------------------------------------------------------- R6
    r = ctx.rule("C06-R6", "OWNER", "the finished format does not share mutable containers with the builder (later "
                 "builder operations must not change a format already built)", reference=4)
    eff = ctx.effects
    s = eff.summary(init)
    shared_fields = []
    for base, field, val in s.stores:
        if base == ("p", "self") and root(val) == ("p", "elements") and val[0] == "f":
            shared_fields.append((field, val))
    list_fields = []
    for n in walk_no_nested(init.node):
        if isinstance(n, ast.Assign) and len(n.targets) == 1 and is_self_attr(n.targets[0]) and isinstance(n.value, ast.Call) and isinstance(n.value.func, ast.Attribute) and isinstance(n.value.func.value, ast.Name) and n.value.func.value.id == "builder":
            list_fields.append((n.targets[0].attr, n))
    for fld, node in list_fields:
        hit = [v for f, v in shared_fields if f == fld]
        tt = ctx.typer.attr_type(fmt, fld)
        is_container = bool(tt.prims & {"list", "dict", "set"})
        if hit and is_container:
            r.fail(init, node, norm(node), "the format keeps the builder's own container (%s) as its %s: adding to the builder afterwards changes the finished format" % (show(hit[0]), fld))
        else:
            r.ok("ArgsFormat.%s is a copy / immutable" % fld)
    ctx.borrow("c07", "C07-R12", "C06-R11", "'has / get answer by every alias': an alias is indexed under the spelling it is looked up by - what a command option files in its alias lists "
               "is the alias after the dash prefix was removed, the same value that was measured and validated (same rule as C07-R12)")
    return ctx.results
