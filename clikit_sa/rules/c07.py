"""C07 - option and argument flags are validated and normalised consistently."""
import ast
import itertools
import re

from ..loader import walk_no_nested, norm, is_self_attr, ClassInfo
from ..cfg import guarded_by
from .. import q


def consts_of(ctx, cls):
    """name -> int for class-level integer constants along the MRO."""
    out = {}
    for c in reversed([x for x in cls.mro if isinstance(x, ClassInfo)]):
        for k, v in c.attrs.items():
            if isinstance(v, ast.Constant) and isinstance(v.value, int) and not isinstance(v.value, bool) and k.isupper():
                out[k] = v.value
    return out


def bit_of(e, flagvar="flags"):
    """'A' for `flags & self.A` / `self.A & self._flags` / `bool(..)` / `(..) != 0` ; None otherwise"""
    if isinstance(e, ast.Call) and isinstance(e.func, ast.Name) and e.func.id == "bool" and e.args:
        e = e.args[0]
    if isinstance(e, ast.Compare) and len(e.ops) == 1 and isinstance(e.ops[0], (ast.NotEq, ast.Gt)) and isinstance(e.comparators[0], ast.Constant) and e.comparators[0].value == 0:
        e = e.left
    if isinstance(e, ast.BinOp) and isinstance(e.op, ast.BitAnd):
        for a, b in ((e.left, e.right), (e.right, e.left)):
            if isinstance(b, ast.Attribute) and isinstance(b.value, ast.Name) and b.value.id in ("self", "cls") and b.attr.isupper():
                if (isinstance(a, ast.Name)) or is_self_attr(a):
                    return b.attr
    return None


def mask_of(e, local_defs=None):
    """set of constant names in `flags & (self.A | self.B | ...)`; the mask may be held in a local defined once as such an or-expression"""
    if isinstance(e, ast.BinOp) and isinstance(e.op, ast.BitAnd):
        for a, b in ((e.left, e.right), (e.right, e.left)):
            if isinstance(b, ast.Name) and local_defs and b.id in local_defs:
                b = local_defs[b.id]
            if isinstance(a, ast.Name):
                names = [x.attr for x in walk_no_nested(b) if isinstance(x, ast.Attribute) and isinstance(x.value, ast.Name) and x.value.id == "self" and x.attr.isupper()]
                ors = all(isinstance(x, (ast.BinOp, ast.Attribute, ast.Name, ast.BitOr, ast.Load)) for x in walk_no_nested(b))
                if names and ors:
                    return set(names)
    return None


def forbidden_pairs(ctx, fns):
    """Pairs {A,B} rejected by the validators: a raise dominated by the true
    edges of `flags & A` and `flags & B`; further dominating *false* edges are
    accepted only for bits that themselves form a rejected pair with A and B
    (if/elif chains over one exclusive group)."""
    raw = []
    for fn in fns:
        cfg = ctx.cfg(fn)
        for rz in [n for n in cfg.nodes if n.kind == "raise"]:
            ts, fs, other = [], [], []
            for e in cfg.nodes:
                if e.kind in ("T", "F") and cfg.dominates(e.id, rz.id):
                    b = bit_of(e.ast)
                    if b is None:
                        other.append(e)
                    elif e.kind == "T":
                        ts.append(b)
                    else:
                        fs.append(b)
            raw.append((fn, rz, ts, fs, other))
    pairs = {}
    for fn, rz, ts, fs, other in raw:
        if len(ts) == 2 and not other:
            pairs[frozenset(ts)] = (fn, rz, fs)
    # table form: selected = [.. for .., bit in ((.., self.A), (.., self.B), ..) if flags & bit]; if len(selected) > 1: raise
    # rejects every pair of the table's constants
    for fn in fns:
        cfg = ctx.cfg(fn)
        ldefs = {}
        for n_ in walk_no_nested(fn.node):
            if isinstance(n_, ast.Assign) and len(n_.targets) == 1 and isinstance(n_.targets[0], ast.Name):
                ldefs.setdefault(n_.targets[0].id, []).append(n_.value)
        for name_, vals in ldefs.items():
            if len(vals) != 1 or not isinstance(vals[0], (ast.ListComp, ast.GeneratorExp)) or len(vals[0].generators) != 1:
                continue
            g = vals[0].generators[0]
            src = g.iter
            if isinstance(src, ast.Name) and len(ldefs.get(src.id, [])) == 1:
                src = ldefs[src.id][0]
            if not isinstance(src, (ast.Tuple, ast.List)) or len(g.ifs) != 1:
                continue
            tvars = [x.id for x in (g.target.elts if isinstance(g.target, ast.Tuple) else [g.target]) if isinstance(x, ast.Name)]
            test = g.ifs[0]
            if not (isinstance(test, ast.BinOp) and isinstance(test.op, ast.BitAnd) and any(isinstance(x, ast.Name) and x.id in tvars for x in (test.left, test.right))):
                continue
            bitvar = next(x.id for x in (test.left, test.right) if isinstance(x, ast.Name) and x.id in tvars)
            pos = tvars.index(bitvar) if isinstance(g.target, ast.Tuple) else None
            consts = []
            for el in src.elts:
                item = el.elts[pos] if (pos is not None and isinstance(el, ast.Tuple) and len(el.elts) > pos) else el
                if isinstance(item, ast.Attribute) and isinstance(item.value, ast.Name) and item.value.id in ("self", "cls") and item.attr.isupper():
                    consts.append(item.attr)
            if len(consts) < 2:
                continue
            # a raise under `len(<name_>) > 1` (or >= 2)
            for rz in [n for n in cfg.nodes if n.kind == "raise"]:
                for e in cfg.nodes:
                    if e.kind == "T" and cfg.dominates(e.id, rz.id) and isinstance(e.ast, ast.Compare) and isinstance(e.ast.left, ast.Call) and isinstance(e.ast.left.func, ast.Name) and e.ast.left.func.id == "len" \
                            and e.ast.left.args and isinstance(e.ast.left.args[0], ast.Name) and e.ast.left.args[0].id == name_ \
                            and ((isinstance(e.ast.ops[0], ast.Gt) and isinstance(e.ast.comparators[0], ast.Constant) and e.ast.comparators[0].value == 1)
                                 or (isinstance(e.ast.ops[0], ast.GtE) and isinstance(e.ast.comparators[0], ast.Constant) and e.ast.comparators[0].value == 2)):
                        for i_ in range(len(consts)):
                            for j_ in range(i_ + 1, len(consts)):
                                pairs[frozenset((consts[i_], consts[j_]))] = (fn, rz, [])
    # chain justification
    ok = {}
    for pr, (fn, rz, fs) in pairs.items():
        good = True
        for f in fs:
            # with f set as well, the combination is rejected by the earlier check {f, x}
            if not any(frozenset((f, x)) in pairs for x in pr):
                good = False
        if good:
            ok[pr] = (fn, rz)
    return ok, pairs


DOC_OPTION = [
    ("NO_VALUE", "REQUIRED_VALUE"), ("NO_VALUE", "OPTIONAL_VALUE"), ("NO_VALUE", "MULTI_VALUED"), ("OPTIONAL_VALUE", "MULTI_VALUED"),
    ("STRING", "BOOLEAN"), ("STRING", "INTEGER"), ("STRING", "FLOAT"), ("BOOLEAN", "INTEGER"), ("BOOLEAN", "FLOAT"), ("INTEGER", "FLOAT"),
    ("PREFER_SHORT_NAME", "PREFER_LONG_NAME"),
]
DOC_ARGUMENT = [
    ("REQUIRED", "OPTIONAL"),
    ("STRING", "BOOLEAN"), ("STRING", "INTEGER"), ("STRING", "FLOAT"), ("BOOLEAN", "INTEGER"), ("BOOLEAN", "FLOAT"), ("INTEGER", "FLOAT"),
]
PREDICATES = {
    "accepts_value": ("NO_VALUE", True), "is_value_required": ("REQUIRED_VALUE", False), "is_value_optional": ("OPTIONAL_VALUE", False),
    "is_multi_valued": ("MULTI_VALUED", False), "is_long_name_preferred": ("PREFER_LONG_NAME", False),
    "is_short_name_preferred": ("PREFER_SHORT_NAME", False), "is_required": ("REQUIRED", False), "is_optional": ("OPTIONAL", False),
}
DISPATCH = {"BOOLEAN": "parse_boolean", "INTEGER": "parse_int", "FLOAT": "parse_float", None: "parse_string"}


def run(ctx):
    p, cg = ctx.p, ctx.cg
    ao = ctx.cls("clikit.api.args.format.abstract_option.AbstractOption")
    opt = ctx.cls("clikit.api.args.format.option.Option")
    arg = ctx.cls("clikit.api.args.format.argument.Argument")
    copt = ctx.cls("clikit.api.args.format.command_option.CommandOption")

    # ---------------------------------------------------------------- R1
    r = ctx.rule("C07-R1", "TABLE", "the flag constants of each class hierarchy are distinct single bits", reference=19)
    for cls in (opt, arg):
        cs = consts_of(ctx, cls)
        ctx.require(len(cs) >= 8, "flag constants of %s not found" % cls.name)
        seen = {}
        for k, v in sorted(cs.items()):
            if v <= 0 or v & (v - 1):
                r.fail(cls.methods["__init__"], cls.node, "%s.%s = %d" % (cls.name, k, v), "%s.%s = %d is not a single bit: it overlaps other flags" % (cls.name, k, v))
            elif v in seen:
                r.fail(cls.methods["__init__"], cls.node, "%s.%s = %d" % (cls.name, k, v), "%s.%s and %s share the bit %d" % (cls.name, k, seen[v], v))
            else:
                seen[v] = k
                r.ok("%s.%s = %d" % (cls.name, k, v))

    # ---------------------------------------------------------------- R2
    r = ctx.rule("C07-R2", "TABLE", "the rejected flag combinations are exactly the documented contradictions", reference=29)
    tables = {}
    for cls, doc in ((opt, DOC_OPTION), (arg, DOC_ARGUMENT)):
        fns = [c.methods["_validate_flags"] for c in cls.mro if isinstance(c, ClassInfo) and "_validate_flags" in c.methods]
        ctx.require(fns, "%s._validate_flags missing" % cls.name)
        # the subclass validator must chain to its base (super()._validate_flags) or be called from __init__
        for f in fns[:-1] if len(fns) > 1 else []:
            if not any(cs.kind == "super" and cs.targets and cs.targets[0].name == "_validate_flags" for cs in cg.sites_in(f)):
                r.fail(f, f.node, "no super()._validate_flags", "%s does not chain to the base validator: base contradictions go unchecked" % f.short)
        # validators split into private helpers: every helper a validator calls on self, with the flags, on every path, is part of it
        chain = list(fns)
        seen_h = {f.qualname for f in chain}
        work_h = list(chain)
        while work_h:
            f = work_h.pop()
            fcfg = ctx.cfg(f)
            fprm = [a for a in f.params if a != "self"]
            for c in q.calls(f):
                if isinstance(c.func, ast.Attribute) and isinstance(c.func.value, ast.Name) and c.func.value.id == "self" and c.func.attr.startswith("_") \
                        and c.args and isinstance(c.args[0], ast.Name) and c.args[0].id in fprm:
                    nodes = fcfg.nodes_of(c)
                    if nodes and fcfg.post_dominated_by(fcfg.entry.id, {n.id for n in nodes}):
                        for t in cg.site_for(f, c).targets:
                            if t.qualname not in seen_h and t.cls is not None and t.name != "_validate_flags":
                                seen_h.add(t.qualname)
                                chain.append(t)
                                work_h.append(t)
        got, allpairs = forbidden_pairs(ctx, chain)
        tables[cls.name] = got
        want = set(frozenset(x) for x in doc)
        for pr in sorted(want, key=sorted):
            if pr in got:
                r.ok("%s rejects %s" % (cls.name, " + ".join(sorted(pr))))
            else:
                r.fail(fns[0], fns[0].node, "%s: %s not rejected" % (cls.name, " + ".join(sorted(pr))),
                       "constructing a %s with %s is documented as a contradiction but no unconditional check rejects it" % (cls.name, " and ".join(sorted(pr))))
        for pr in sorted(set(got) - want, key=sorted):
            fn, rz = got[pr]
            r.fail(fn, rz.ast, "%s: %s rejected" % (cls.name, " + ".join(sorted(pr))), "%s rejects the combination %s, which is not a documented contradiction" % (cls.name, " + ".join(sorted(pr))))
        # validators are actually called from the constructor before the flags are stored
        init = cls.methods.get("__init__")
        called = any(any(t.name == "_validate_flags" for t in cs.targets) for cs in cg.sites_in(init)) or \
            any(any(t.name == "_validate_flags" for t in cs.targets) for c in cls.mro if isinstance(c, ClassInfo) and "__init__" in c.methods for cs in cg.sites_in(c.methods["__init__"]))
        if called:
            r.ok("%s.__init__ runs the validator" % cls.name)
        else:
            r.fail(init, init.node, "%s.__init__ no validation" % cls.name, "%s is constructed without validating its flags" % cls.name)
    # short preference needs a short name
    vs = ao.methods.get("_validate_short_name")
    cfg = ctx.cfg(vs)
    ok = False
    for rz in [n for n in cfg.nodes if n.kind == "raise"]:
        ts = [e for e in cfg.nodes if e.kind == "T" and cfg.dominates(e.id, rz.id)]
        if any(bit_of(e.ast) == "PREFER_SHORT_NAME" for e in ts) and any(isinstance(e.ast, ast.Compare) and isinstance(e.ast.ops[0], ast.Is) for e in ts):
            ok = True
    (r.ok if ok else lambda d: r.fail(vs, vs.node, "short preference without short name", "PREFER_SHORT_NAME without a short name is not rejected"))("PREFER_SHORT_NAME without short name rejected")
    # defaults: required argument / value-less option refuse a default; multi-valued default must be a list
    for cls, pred, pol in ((arg, "is_required", True), (opt, "accepts_value", False)):
        sd = cls.methods.get("set_default")
        cfg = ctx.cfg(sd)
        edges = [e for e in cfg.nodes if e.kind == ("T" if pol else "F") and isinstance(e.ast, ast.Call) and isinstance(e.ast.func, ast.Attribute) and e.ast.func.attr == pred]
        if edges and all(cfg.inevitably_raises(e.id) for e in edges):
            r.ok("%s.set_default rejects when %s%s()" % (cls.name, "" if pol else "not ", pred))
        else:
            r.fail(sd, sd.node, "%s.set_default no %s check" % (cls.name, pred), "%s.set_default accepts a default although %s%s()" % (cls.name, "" if pol else "not ", pred))
        mv = [e for e in cfg.nodes if e.kind == "T" and isinstance(e.ast, ast.Call) and isinstance(e.ast.func, ast.Attribute) and e.ast.func.attr == "is_multi_valued"]
        lst = [e for e in cfg.nodes if e.kind == "F" and isinstance(e.ast, ast.Call) and isinstance(e.ast.func, ast.Name) and e.ast.func.id == "isinstance" and norm(e.ast.args[1]) == "list"]
        if mv and lst and all(cfg.inevitably_raises(e.id) for e in lst) and all(any(cfg.dominates(m.id, e.id) for m in mv) for e in lst):
            r.ok("%s.set_default: multi-valued default must be a list" % cls.name)
        else:
            r.fail(sd, sd.node, "%s.set_default list check" % cls.name, "%s.set_default accepts a non-list default for a multi-valued parameter" % cls.name)
        # the constructor routes a given default through set_default - whenever one is given (is not None),
        # not only when it is truthy
        init = cls.methods["__init__"]
        sds = q.method_calls(init, "set_default")
        if sds:
            r.ok("%s.__init__ routes the default through set_default" % cls.name)
            icfg = ctx.cfg(init)
            dparam = "default"
            truthy = [c for c in icfg.conds() if isinstance(c.ast, ast.Name) and c.ast.id == dparam]
            isnot = [c for c in icfg.conds() if isinstance(c.ast, ast.Compare) and isinstance(c.ast.left, ast.Name) and c.ast.left.id == dparam and isinstance(c.ast.ops[0], ast.IsNot)]
            if truthy and not isnot:
                r.fail(init, truthy[0].ast, "%s.__init__: default tested for truthiness" % cls.name, "%s.__init__ applies set_default only to truthy defaults: a falsy default "
                       "([], 0, False, '') skips the contradiction check (e.g. a required argument with a default is accepted)" % cls.name)
            elif isnot:
                r.ok("%s.__init__: a default counts as given when it is not None" % cls.name)
        else:
            r.fail(init, init.node, "%s.__init__ default" % cls.name, "%s.__init__ stores a default without set_default's checks" % cls.name)

    # ---------------------------------------------------------------- R3
    r = ctx.rule("C07-R3", "TABLE", "default-flag completion adds a member of every exclusive group that is empty, "
                 "and its masks are the validator's groups; multi-valued options get REQUIRED_VALUE", reference=6)
    for cls in (opt, arg):
        fns = [c.methods["_add_default_flags"] for c in cls.mro if isinstance(c, ClassInfo) and "_add_default_flags" in c.methods]
        ctx.require(fns, "%s._add_default_flags missing" % cls.name)
        got = tables[cls.name]
        # exclusive groups = connected components of the forbidden-pair graph restricted to pairwise-complete sets
        groups = _cliques(got)
        masks = []
        for f in fns:
            cfg = ctx.cfg(f)
            ldefs = {}
            for n_ in walk_no_nested(f.node):
                if isinstance(n_, ast.Assign) and len(n_.targets) == 1 and isinstance(n_.targets[0], ast.Name):
                    ldefs.setdefault(n_.targets[0].id, []).append(n_.value)
            ldefs = {k: v[0] for k, v in ldefs.items() if len(v) == 1 and k not in f.params}
            for e in cfg.nodes:
                if e.kind == "F":
                    m = mask_of(e.ast, ldefs)
                    if m and len(m) > 1:
                        # what is added on this edge
                        adds = set()
                        for n in cfg.nodes:
                            if n.kind == "stmt" and isinstance(n.ast, ast.AugAssign) and isinstance(n.ast.op, ast.BitOr) and cfg.dominates(e.id, n.id):
                                adds |= {x.attr for x in walk_no_nested(n.ast.value) if isinstance(x, ast.Attribute) and x.attr.isupper()}
                                # the added bit may be held in a local first
                                for x in walk_no_nested(n.ast.value):
                                    if isinstance(x, ast.Name) and x.id in ldefs:
                                        adds |= {y.attr for y in walk_no_nested(ldefs[x.id]) if isinstance(y, ast.Attribute) and y.attr.isupper()}
                            # `return flags | X` / `flags = flags | X`
                            if n.kind in ("stmt", "return") and cfg.dominates(e.id, n.id):
                                v = getattr(n.ast, "value", None)
                                if isinstance(v, ast.BinOp) and isinstance(v.op, ast.BitOr) and isinstance(n.ast, (ast.Return, ast.Assign)):
                                    adds |= {x.attr for x in walk_no_nested(v) if isinstance(x, ast.Attribute) and x.attr.isupper()}
                        masks.append((f, e, m, adds))
        for f, e, m, adds in masks:
            desc = "%s: empty {%s} -> add %s" % (f.short, ",".join(sorted(m)), ",".join(sorted(adds)))
            if not adds or not adds <= m:
                r.fail(f, e.ast, desc, "completion of the group {%s} adds %s, which is not a member of the group" % (",".join(sorted(m)), sorted(adds)))
            elif any(m == g or (m > g and all(frozenset((a, b)) in got or a == b or True for a in m for b in m)) for g in groups if g & m) or True:
                # mask must cover a whole validator group (or be the value-mode group incl. MULTI_VALUED)
                cover = [g for g in groups if g <= m or m <= g]
                if any(g == m for g in groups) or (cls is opt and m == {"NO_VALUE", "REQUIRED_VALUE", "OPTIONAL_VALUE", "MULTI_VALUED"}):
                    r.ok(desc)
                else:
                    r.fail(f, e.ast, desc, "the completion mask {%s} is not one of the validator's exclusive groups %s" % (",".join(sorted(m)), [sorted(g) for g in groups]))
        need = [g for g in groups]
        for g in need:
            if not any(m == g or (g <= m) for _, _, m, _ in masks):
                r.fail(fns[0], fns[0].node, "%s: group {%s} not completed" % (cls.name, ",".join(sorted(g))),
                       "no default is added when none of {%s} is given: the object reports no member of that group" % ",".join(sorted(g)))
    # MULTI_VALUED implies REQUIRED_VALUE
    f = opt.methods["_add_default_flags"]
    cfg = ctx.cfg(f)
    ok = False
    for n in cfg.nodes:
        if n.kind in ("stmt", "return") and isinstance(n.ast, (ast.AugAssign, ast.Assign, ast.Return)) and n.ast.value is not None and "REQUIRED_VALUE" in norm(n.ast.value) \
                and (isinstance(n.ast, ast.AugAssign) or isinstance(n.ast.value, ast.BinOp)):
            ts = [bit_of(e.ast) for e in cfg.nodes if e.kind == "T" and cfg.dominates(e.id, n.id)]
            if "MULTI_VALUED" in ts:
                ok = True
    (r.ok if ok else lambda d: r.fail(f, f.node, "multi-valued without required value", "a multi-valued option is not completed with REQUIRED_VALUE"))("Option: MULTI_VALUED -> REQUIRED_VALUE")

    # ---------------------------------------------------------------- R4
    r = ctx.rule("C07-R4", "TABLE", "every predicate tests its own bit", reference=9)
    for cls in (ao, opt, arg):
        for name, m in sorted(cls.methods.items()):
            if name not in PREDICATES:
                continue
            want, negated = PREDICATES[name]
            rets = q.returns(m)
            got = None
            neg = False
            for ret in rets:
                v = ret.value
                if isinstance(v, ast.UnaryOp) and isinstance(v.op, ast.Not):
                    neg = True
                    v = v.operand
                if isinstance(v, ast.Compare) and len(v.ops) == 1 and isinstance(v.ops[0], ast.Eq) and isinstance(v.comparators[0], ast.Constant) and v.comparators[0].value == 0:
                    neg = not neg
                    v = v.left
                got = bit_of(v)
            if got == want and neg == negated:
                r.ok("%s.%s tests %s%s" % (cls.name, name, "not " if neg else "", got))
            else:
                r.fail(m, m.node, "%s.%s tests %s%s" % (cls.name, name, "not " if neg else "", got), "%s.%s should test %s%s" % (cls.name, name, "not " if negated else "", want))

    # ---------------------------------------------------------------- R5
    r = ctx.rule("C07-R5", "TABLE", "the type flag selects the matching converter, identically for options and "
                 "arguments, with the NULLABLE bit as the nullable argument", reference=8)
    disp = {}
    for cls in (opt, arg):
        m = cls.methods.get("parse")
        ctx.require(m is not None, "%s.parse missing" % cls.name)
        # a table-driven dispatch (`for flag, parser in ((BOOLEAN, parse_boolean), ...)`) is read as the if-chain it stands for
        m = q.unroll_const_loops(m)
        cfg = ctx.cfg(m)
        table = {}
        for ret in q.returns(m):
            v = ret.value
            if not (isinstance(v, ast.Call) and isinstance(v.func, ast.Name)):
                continue
            ts = [bit_of(e.ast) for e in cfg.nodes if e.kind == "T" and cfg.dominates(e.id, cfg.node_of(ret).id) and bit_of(e.ast)]
            key = ts[-1] if ts else None
            table[key] = v.func.id
            # nullable argument
            a = v.args[1] if len(v.args) > 1 else None
            if not (isinstance(a, ast.Name) and _is_nullable_def(m, a.id)):
                r.fail(m, ret, norm(ret), "%s.parse does not pass the NULLABLE bit to %s" % (cls.name, v.func.id))
        disp[cls.name] = table
        for k, fn in DISPATCH.items():
            if table.get(k) == fn:
                r.ok("%s.parse: %s -> %s" % (cls.name, k or "default", fn))
            else:
                r.fail(m, m.node, "%s.parse: %s -> %s" % (cls.name, k or "default", table.get(k)), "%s values flagged %s are converted with %s instead of %s" % (cls.name, k or "STRING", table.get(k), fn))
    # ---------------------------------------------------------------- R6
    r = ctx.rule("C07-R6", "SIBLING", "the long-name / alias / argument-name patterns are one pattern, the short-name "
                 "/ short-alias patterns are one pattern; dash prefixes are stripped before validation", reference=9)
    pats = {}
    for cls in (ao, copt, arg):
        for name, m in cls.methods.items():
            for c in q.calls(m):
                pat_ = q.regex_match_pattern(m, c)
                if pat_ is not None:
                    pats["%s.%s" % (cls.name, name)] = (pat_, m, c)
    ctx.require(len(pats) >= 4, "name patterns not found")
    def kind(pat):
        return "short" if "{" not in pat and "+" not in pat and "*" not in pat else "long"
    ref = {}
    for site, (pat, m, c) in sorted(pats.items()):
        try:
            tree = repr(re._parser.parse(pat))
        except Exception:
            tree = pat
        k = kind(pat)
        if k not in ref:
            ref[k] = (site, tree, pat)
            r.ok("%s: %s pattern %s" % (site, k, pat))
        elif ref[k][1] == tree:
            r.ok("%s: same %s pattern as %s" % (site, k, ref[k][0]))
        else:
            r.fail(m, c, "%s pattern %s" % (site, pat), "%s accepts names by %s but %s uses %s: the same name is valid in one place and invalid in the other" % (site, pat, ref[k][0], ref[k][2]))
    # prefix stripping removes exactly one prefix
    # the strippers are found by what they do: a method that tests its parameter with startswith(<prefix>)
    strippers = {}
    for name_, m_ in ao.methods.items():
        for c in q.calls(m_):
            if isinstance(c.func, ast.Attribute) and c.func.attr in ("startswith", "removeprefix") and c.args and isinstance(c.args[0], ast.Constant) and c.args[0].value in ("--", "-") \
                    and isinstance(c.func.value, ast.Name) and c.func.value.id in m_.params and q.returns(m_):
                strippers.setdefault(c.args[0].value, name_)
    # ... or by where they stand: `<param> = self.h(<param>)` in the constructor, for the parameter later handed to the long / short name validator
    init0 = ao.methods["__init__"]
    for n_ in walk_no_nested(init0.node):
        if isinstance(n_, ast.Assign) and len(n_.targets) == 1 and isinstance(n_.targets[0], ast.Name) and n_.targets[0].id in init0.params and isinstance(n_.value, ast.Call) \
                and isinstance(n_.value.func, ast.Attribute) and isinstance(n_.value.func.value, ast.Name) and n_.value.func.value.id == "self" and n_.value.func.attr in ao.methods \
                and n_.value.args and isinstance(n_.value.args[0], ast.Name) and n_.value.args[0].id == n_.targets[0].id:
            prm_ = n_.targets[0].id
            for c in q.calls(init0):
                if isinstance(c.func, ast.Attribute) and c.func.attr in ("_validate_long_name", "_validate_short_name") and c.args and isinstance(c.args[0], ast.Name) and c.args[0].id == prm_:
                    strippers.setdefault("--" if "long" in c.func.attr else "-", n_.value.func.attr)
    ctx.require(set(strippers) == {"--", "-"}, "the dash-prefix strippers of AbstractOption were not found (methods testing startswith('--') / startswith('-'), or normalising a constructor parameter before its validator)")
    for strip, prefix in ((strippers["--"], "--"), (strippers["-"], "-")):
        m = ao.methods.get(strip)
        if m is None:
            continue
        bad = [c for c in q.calls(m) if isinstance(c.func, ast.Attribute) and c.func.attr in ("lstrip", "strip") and c.args and isinstance(c.args[0], ast.Constant) and "-" in str(c.args[0].value)]
        slices = [n for n in walk_no_nested(m.node) if isinstance(n, ast.Subscript) and isinstance(n.slice, ast.Slice) and isinstance(n.slice.lower, ast.Constant)]
        if bad:
            r.fail(m, bad[0], norm(bad[0]), "%s strips every leading dash instead of the one '%s' prefix: names with extra dashes are accepted" % (strip, prefix))
        elif slices and all(s_.slice.lower.value == len(prefix) for s_ in slices):
            r.ok("%s removes exactly the prefix '%s'" % (strip, prefix))
        elif any(isinstance(c.func, ast.Attribute) and c.func.attr == "removeprefix" for c in q.calls(m)):
            r.ok("%s uses removeprefix" % strip)
        else:
            r.fail(m, m.node, strip + " slice", "%s does not remove exactly %d character(s) after testing for '%s'" % (strip, len(prefix), prefix))
    init = ao.methods["__init__"]
    cfg = ctx.cfg(init)
    for strip, val in ((strippers["--"], "_validate_long_name"), (strippers["-"], "_validate_short_name")):
        s_nodes = [cfg.node_of(c) for c in q.method_calls(init, strip)]
        v_nodes = [cfg.node_of(c) for c in q.method_calls(init, val)]
        if s_nodes and v_nodes and all(any(cfg.dominates(s.id, v.id) for s in s_nodes) for v in v_nodes):
            r.ok("AbstractOption.__init__: %s before %s" % (strip, val))
        else:
            r.fail(init, init.node, "prefix stripping before %s" % val, "names are validated before their dash prefix is stripped")

    # ---------------------------------------------------------------- R7
    r = ctx.rule("C07-R7", "TABLE", "the boolean literal sets contain the text forms of True and False", reference=2)
    pb = ctx.func("clikit.utils.string.parse_boolean")
    cfg = ctx.cfg(pb)
    prm_b = pb.params[0]
    for lit, val in (("true", True), ("false", False)):
        ok = False
        for ret in q.returns(pb):
            rn = cfg.node_of(ret)
            if isinstance(ret.value, ast.Constant) and ret.value.value is val:
                # membership in a literal set that holds the text form leads to this return and to nothing else
                others = [x.id for x in cfg.nodes if x.kind in ("return", "raise") and x.id != rn.id] + [cfg.exit.id]
                for e in cfg.nodes:
                    if e.kind == "T" and isinstance(e.ast, ast.Compare) and len(e.ast.ops) == 1 and isinstance(e.ast.ops[0], ast.In) and rn.id in cfg.reach([e.id]) \
                            and cfg.all_paths_hit(e.id, {rn.id}, others):
                        st = e.ast.comparators[0]
                        if isinstance(st, (ast.Set, ast.List, ast.Tuple)) and any(isinstance(x, ast.Constant) and x.value == lit for x in st.elts):
                            ok = True
            else:
                # table form: `return TABLE[value]` under `value in TABLE`, TABLE a module-level dict of literals
                tb = _literal_table(pb, ret.value, prm_b)
                if tb is not None and tb.get(lit, None) is val and guarded_by(cfg, rn, lambda e: isinstance(e, ast.Compare) and len(e.ops) == 1 and isinstance(e.ops[0], ast.In)
                                                                              and norm(e.comparators[0]) == norm(ret.value.value), polarity=True) is not None:
                    ok = True
        if ok:
            r.ok("parse_boolean: '%s' -> %s" % (lit, val))
        else:
            r.fail(pb, pb.node, "'%s' -> %s" % (lit, val), "parse_boolean does not map the text form '%s' back to %s" % (lit, val))

    # ---------------------------------------------------------------- R8
    r = ctx.rule("C07-R8", "ORDER", "construction succeeds only after validation: on every normal path through the constructor chain of each "
                 "constructible class, every unconditional validator its hierarchy defines (flags, long name, short name) has been called", reference=7)

    def must_calls(cls, init, depth=0):
        """names of self-methods called on every normal path through ``init`` (following super().__init__)"""
        cfg = ctx.cfg(init)
        out = set()
        for c in q.calls(init):
            nodes = cfg.nodes_of(c)
            if not nodes:
                continue
            always = cfg.post_dominated_by(cfg.entry.id, {n.id for n in nodes})
            if not always:
                continue
            f = c.func
            if isinstance(f, ast.Attribute) and isinstance(f.value, ast.Name) and f.value.id == "self":
                out.add(f.attr)
                # what that method in turn always calls on self (a validator split into helpers)
                if depth < 4:
                    for t in cg.site_for(init, c).targets:
                        if t.cls is not None and t.name != "__init__":
                            out |= must_calls(t.cls, t, depth + 1)
            elif isinstance(f, ast.Attribute) and f.attr == "__init__" and isinstance(f.value, ast.Call) and isinstance(f.value.func, ast.Name) and f.value.func.id == "super" and depth < 4:
                for t in cg.site_for(init, c).targets:
                    if t.name == "__init__" and t.cls is not None:
                        out |= must_calls(t.cls, t, depth + 1)
        return out

    for cls in (opt, copt, arg):
        init = next((c.methods["__init__"] for c in cls.mro if isinstance(c, ClassInfo) and "__init__" in c.methods), None)
        ctx.require(init is not None, "%s has no constructor" % cls.name)
        called = must_calls(cls, init)
        validators = sorted({n for c in cls.mro if isinstance(c, ClassInfo) for n in c.methods if n.startswith("_validate_") and "alias" not in n})
        for v in validators:
            if v in called:
                r.ok("%s(): %s on every path" % (cls.name, v))
            else:
                r.fail(init, init.node, "%s() without %s" % (cls.name, v), "constructing a %s does not call %s on every path: a combination that the validator rejects "
                       "(contradictory flags, a malformed name) constructs successfully for this class" % (cls.name, v))

    # ---------------------------------------------------------------- R9
    r = ctx.rule("C07-R9", "ATOMIC", "a rejected set_default leaves the object as it was (value mode and default stay consistent): "
                 "no write of the object's state precedes a raise in the setter", reference=2)
    for cls in (opt, arg):
        m = next((c.methods["set_default"] for c in cls.mro if isinstance(c, ClassInfo) and "set_default" in c.methods), None)
        ctx.require(m is not None, "%s.set_default missing" % cls.name)
        cfg = ctx.cfg(m)
        writes = [n for n in cfg.nodes if n.kind == "stmt" and n.ast is not None and any(
            isinstance(s_, (ast.Assign, ast.AugAssign)) and any(is_self_attr(t) or q.self_attr_root(t) is not None for t in (s_.targets if isinstance(s_, ast.Assign) else [s_.target]))
            for s_ in walk_no_nested(n.ast))]
        raises_ = [n for n in cfg.nodes if n.kind == "raise"]
        bad = None
        for w in writes:
            after = cfg.reach([w.id])
            for rz in raises_:
                if rz.id in after:
                    bad = (w, rz)
        if bad:
            r.fail(m, bad[0].ast, norm(bad[0].ast), "%s.set_default stores (%s) before its last check (%s): a rejected default is kept - e.g. a multi-valued option "
                   "left with a non-list default" % (cls.name, norm(bad[0].ast), norm(bad[1].ast)[:50]))
        else:
            r.ok("%s.set_default: %d checks precede %d writes" % (cls.name, len(raises_), len(writes)))

    # ---------------------------------------------------------------- R10
    from .c02 import conversion_exc_rule

    r = ctx.rule("C07-R10", "EXC", "conversion by the declared type raises nothing but ValueError: every builtin conversion in utils.string sits in "
                 "a try that covers all classes it can raise (TypeError for None / a list, too) and re-raises ValueError (same rule as C02-R4)", reference=2)
    conversion_exc_rule(ctx, r)

    # ---------------------------------------------------------------- R11
    r = ctx.rule("C07-R11", "TABLE", "conversion returns a value of the declared type: every return of a converter is None (nullable arm), a literal of the type, "
                 "the builtin conversion's result, or the input itself under an isinstance test for exactly that type (bool is not int: 1 is not True)", reference=9)
    smod_ = p.modules["clikit.utils.string"]
    TYPES = {"parse_boolean": "bool", "parse_int": "int", "parse_float": "float"}
    def _judge_returns(top, fn, tname, bound, depth=0):
        """bound: {param of fn: builtin type name it is bound to on this call chain}"""
        cfg = ctx.cfg(fn)
        prm0 = fn.params[0] if fn.params else None
        for ret in q.returns(fn):
            v = ret.value
            where = fn.short if fn is top else "%s (for %s)" % (fn.short, top.short)
            if v is None:
                r.ok("%s: bare return (nullable)" % where)
                continue
            if isinstance(v, ast.Constant) and type(v.value).__name__ == tname:
                r.ok("%s: %s" % (where, norm(ret)))
                continue
            if isinstance(v, ast.Call) and isinstance(v.func, ast.Name) and (v.func.id == tname or bound.get(v.func.id) == tname):
                r.ok("%s: %s" % (where, norm(ret)))
                continue
            tb_ = _literal_table(fn, v, prm0)
            if tb_ is not None and tb_ and all(type(x).__name__ == tname for x in tb_.values()):
                r.ok("%s: %s - every entry of the table is a %s" % (where, norm(ret), tname))
                continue
            if isinstance(v, ast.Call) and isinstance(v.func, ast.Name) and v.func.id in smod_.functions and v.func.id != fn.name and depth < 3:
                # delegation to a helper of the module: its returns are judged with the parameters bound as at this call
                h = smod_.functions[v.func.id]
                b2 = {}
                for i, a in enumerate(v.args):
                    if i < len(h.params) and isinstance(a, ast.Name):
                        if a.id in ("int", "float", "bool"):
                            b2[h.params[i]] = a.id
                        elif a.id in bound:
                            b2[h.params[i]] = bound[a.id]
                for kw in v.keywords:
                    if kw.arg and isinstance(kw.value, ast.Name) and kw.value.id in ("int", "float", "bool"):
                        b2[kw.arg] = kw.value.id
                _judge_returns(top, h, tname, b2, depth + 1)
                continue
            if isinstance(v, ast.Name) and v.id == prm0:
                ok_ = False
                for rn in cfg.nodes_of(ret):
                    g = guarded_by(cfg, rn, lambda e: isinstance(e, ast.Call) and isinstance(e.func, ast.Name) and e.func.id == "isinstance" and len(e.args) == 2
                                   and isinstance(e.args[0], ast.Name) and e.args[0].id == prm0 and isinstance(e.args[1], ast.Name) and (e.args[1].id == tname or bound.get(e.args[1].id) == tname), polarity=True)
                    ok_ = g is not None
                if ok_:
                    r.ok("%s: input returned under isinstance(%s, %s)" % (where, prm0, tname))
                    continue
            r.fail(fn, ret, norm(ret) if fn is top else "%s for %s" % (norm(ret), top.name), "%s can return `%s`, which is not known to be a %s: a %s-typed option or argument hands the handler a value of another type" % (where, norm(v), tname, tname.upper() if tname != "bool" else "BOOLEAN"))

    for fname, tname in sorted(TYPES.items()):
        fn = smod_.functions.get(fname)
        ctx.require(fn is not None, "utils.string.%s missing" % fname)
        _judge_returns(fn, fn, tname, {})

    # ---------------------------------------------------------------- R13
    r = ctx.rule("C07-R13", "ORDER", "'maps ... every bool back to itself': in a converter the test for the more specific type comes first - no isinstance test for a type is "
                 "preceded, on a path that does not return, by a test for one of its base types whose arm rebinds the value (bool is an int: `isinstance(True, int)`)", reference=2)
    SUB = {"bool": ("int",), "int": (), "float": ()}
    n13 = 0
    from .c02 import converter_helpers
    conv_fns, _b = converter_helpers(p.modules["clikit.utils.string"])
    for fn in sorted(conv_fns, key=lambda f: f.name):
        cfg = ctx.cfg(fn)
        tests = []
        for c in cfg.conds():
            e = c.ast
            if isinstance(e, ast.Call) and isinstance(e.func, ast.Name) and e.func.id == "isinstance" and len(e.args) == 2 and isinstance(e.args[0], ast.Name):
                tys = [x.id for x in (e.args[1].elts if isinstance(e.args[1], ast.Tuple) else [e.args[1]]) if isinstance(x, ast.Name)]
                tests.append((c, e.args[0].id, tys))
        for c, var, tys in tests:
            for t in tys:
                for base in SUB.get(t, ()):
                    n13 += 1
                    # an earlier test for the base type whose true arm can reach this test (it did not return) after rebinding the value
                    bad = None
                    for c2, var2, tys2 in tests:
                        if c2 is c or var2 != var or base not in tys2 or t in tys2:
                            continue
                        te = cfg.true_of(c2)
                        if te is None or c.id not in cfg.reach([te.id]):
                            continue
                        rebinds = [w for w in cfg.writes(lambda x: x == var) if w.id in cfg.reach([te.id]) and c.id in cfg.reach([w.id]) and cfg.dominates(te.id, w.id)]
                        if rebinds:
                            bad = (c2, rebinds[0])
                    if bad is None:
                        r.ok("%s: isinstance(%s, %s) is not pre-empted by a test for %s" % (fn.short, var, t, base))
                    else:
                        r.fail(fn, c.ast, "isinstance(%s, %s) after the %s arm" % (var, t, base), "%s tests isinstance(%s, %s) only after the arm for %s has rebound %s (`%s`): a %s is a %s, so it never reaches "
                               "its own arm - True becomes the text 'True', which is no boolean literal, and the conversion raises" % (fn.short, var, t, base, var, norm(bad[1].ast), t, base))
    if n13 == 0:
        r.vacuous_ok = True

    # ---------------------------------------------------------------- R14
    r = ctx.rule("C07-R14", "EXC", "'maps the text form of every int / float back': what a number is, is decided by the builtin conversion alone - the numeric converters raise only from "
                 "the handler around it; no test of their own rejects a text before int() / float() has seen it (an own pattern knows fewer spellings than repr() produces: 1e-05, 1e+16, inf)", reference=2)
    for fn in sorted(conv_fns, key=lambda f: f.name):
        if fn.name == "parse_boolean" or fn.name == "parse_string":
            continue
        convs_ = [c for c in q.calls(fn) if isinstance(c.func, ast.Name) and (c.func.id in ("int", "float") or (fn.name, c.func.id) in _b)]
        if not convs_:
            continue
        early = [rz for rz in q.raises(fn) if not any(isinstance(a, ast.ExceptHandler) for a in _anc(rz))]
        if early:
            r.fail(fn, early[0], "own rejection before the builtin conversion", "%s rejects a value by a test of its own (%s) instead of leaving the decision to %s: texts the builtin accepts - and repr() "
                   "produces, such as '1e-05' or '1e+16' - no longer convert back" % (fn.short, norm(early[0])[:60], norm(convs_[0].func)))
        else:
            r.ok("%s: only the builtin conversion decides" % fn.short)

    # ---------------------------------------------------------------- R12
    r = ctx.rule("C07-R12", "KEY", "an alias is filed by what it is after its dash prefix was removed: the value whose length decides short / long is the value that is "
                 "validated and stored (with or without the dash prefix the same alias lands in the same list)", reference=1)
    n12 = 0
    for name_, m_ in sorted(copt.methods.items()):
        for node in walk_no_nested(m_.node):
            if isinstance(node, ast.If) and isinstance(node.test, ast.Compare) and isinstance(node.test.left, ast.Call) and isinstance(node.test.left.func, ast.Name) and node.test.left.func.id == "len" \
                    and node.test.left.args and isinstance(node.test.left.args[0], ast.Name):
                v = node.test.left.args[0].id
                used = {a.id for st in node.body + node.orelse for c in walk_no_nested(st) if isinstance(c, ast.Call) for a in c.args if isinstance(a, ast.Name)}
                if not used:
                    continue
                n12 += 1
                # the value before normalisation (`v = self.h(raw)`): it must not be what is filed
                raw_ = {a.id for n_ in walk_no_nested(m_.node) if isinstance(n_, ast.Assign) and any(isinstance(t, ast.Name) and t.id == v for t in n_.targets) and isinstance(n_.value, ast.Call)
                        for a in n_.value.args if isinstance(a, ast.Name) and a.id != v}
                if v in used and (raw_ & used):
                    r.fail(m_, node.test, "len(%s) decides but %s is also stored" % (v, ", ".join(sorted(raw_ & used))), "%s measures and validates `%s` but files `%s`, the spelling before the dash prefix was removed: "
                           "an alias given with its dash ('-a') is kept as '-a' - looking it up by 'a' fails and a second option may take the same alias" % (m_.short, v, ", ".join(sorted(raw_ & used))))
                elif v in used:
                    r.ok("%s: len(%s) decides, %s is validated and stored" % (m_.short, v, v))
                else:
                    r.fail(m_, node.test, "len(%s) decides but %s is stored" % (v, ", ".join(sorted(used))), "%s measures `%s` but validates and stores `%s`: an alias given with its dash ('-a') is filed as a "
                           "long alias of one character" % (m_.short, v, ", ".join(sorted(used))))
    if n12 == 0:
        r.vacuous_ok = True
    return ctx.results


def _anc(n):
    p_ = getattr(n, "_parent", None)
    while p_ is not None:
        yield p_
        p_ = getattr(p_, "_parent", None)


def _literal_table(fn, v, prm):
    """{key: value} when ``v`` is ``TABLE[<prm>]`` with TABLE a module-level dict literal of constants (bound once), else None"""
    if not (isinstance(v, ast.Subscript) and isinstance(v.value, ast.Name) and isinstance(v.slice, ast.Name) and v.slice.id == prm):
        return None
    d = fn.module.assigns.get(v.value.id)
    if not isinstance(d, ast.Dict) or not all(isinstance(k, ast.Constant) and isinstance(x, ast.Constant) for k, x in zip(d.keys, d.values)):
        return None
    # the table must not be rebound / updated anywhere in its module
    for n in ast.walk(fn.module.tree):
        if isinstance(n, (ast.Subscript, ast.Attribute)) and isinstance(n.value, ast.Name) and n.value.id == v.value.id and isinstance(n.ctx, (ast.Store, ast.Del)):
            return None
        if isinstance(n, ast.Call) and isinstance(n.func, ast.Attribute) and isinstance(n.func.value, ast.Name) and n.func.value.id == v.value.id and n.func.attr in ("update", "pop", "clear", "setdefault", "popitem"):
            return None
    return {k.value: x.value for k, x in zip(d.keys, d.values)}


def _is_nullable_def(m, name):
    for n in walk_no_nested(m.node):
        if isinstance(n, ast.Assign) and isinstance(n.targets[0], ast.Name) and n.targets[0].id == name:
            return bit_of(n.value) == "NULLABLE"
    return False


def _cliques(pairs):
    """maximal sets of constants that are pairwise forbidden"""
    names = sorted({x for pr in pairs for x in pr})
    out = []
    for n in names:
        placed = False
        for g in out:
            if all(frozenset((n, x)) in pairs for x in g):
                g.add(n)
                placed = True
                break
        if not placed:
            out.append({n})
    return [g for g in out if len(g) > 1]
