"""C18 - questions return only valid answers, count attempts exactly and terminate."""
import ast
import builtins

from ..loader import walk_no_nested, norm, is_self_attr
from ..cfg import guarded_by
from .. import q


def interactive_rule(ctx, rule_id, reference=None):
    p, cg = ctx.p, ctx.cg
    qcls = ctx.cls("clikit.ui.components.question.Question")
    ask = qcls.methods.get("ask")
    # ---------------------------------------------------------------- R3
    r = ctx.rule(rule_id, "ORDER", "a question on a non-interactive input returns its default before anything is "
                 "read or written", reference=reference)
    cfg = ctx.cfg(ask)
    io_cls = ctx.cls("clikit.api.io.io.IO")
    io_names = {"read", "read_line", "write", "write_line", "write_raw", "write_line_raw", "error", "error_line", "error_raw", "error_line_raw"}
    io_fns = set(m.qualname for c in p.subclasses(io_cls) for n, m in c.methods.items() if n in io_names)

    def reaches_io(f):
        return any(g.qualname in io_fns for g in cg.reachable([f]).values())
    inter_names = {t.id for n in walk_no_nested(ask.node) if isinstance(n, ast.Assign) and isinstance(n.value, ast.Call) and isinstance(n.value.func, ast.Attribute)
                   and n.value.func.attr == "is_interactive" for t in n.targets if isinstance(t, ast.Name)}

    def is_inter(e):
        return (isinstance(e, ast.Call) and isinstance(e.func, ast.Attribute) and e.func.attr == "is_interactive") or (isinstance(e, ast.Name) and e.id in inter_names)
    inter_t = [e for e in cfg.nodes if e.kind == "T" and is_inter(e.ast)]
    inter_f = [e for e in cfg.nodes if e.kind == "F" and is_inter(e.ast)]
    if not inter_t:
        r.fail(ask, ask.node, "no interactive test", "Question.ask never tests io.is_interactive()")
    n_calls = 0
    for cs in cg.sites_in(ask):
        targets = list(cs.targets)
        if not any(reaches_io(t) for t in targets):
            continue
        n_calls += 1
        nodes = cfg.nodes_of(cs.node)
        if inter_t and all(any(cfg.dominates(e.id, n.id) for e in inter_t) for n in nodes):
            r.ok("%s: %s only when interactive" % (ask.short, norm(cs.node)[:50]))
        else:
            r.fail(ask, cs.node, norm(cs.node), "%s can read or write before (or without) the interactive test" % norm(cs.node.func))
    # nested closures defined in ask are only *called* through guarded calls; the non-interactive arm returns the default
    for e in inter_f:
        rets = [n for n in cfg.nodes if n.kind == "return" and n.id in cfg.reach([e.id])]
        if rets and all(n.ast.value is not None and ("default" in norm(n.ast.value)) for n in rets) and cfg.exit.id in cfg.reach([e.id]):
            direct = [n for n in cfg.nodes if n.kind == "return" and cfg.dominates(e.id, n.id)]
            if direct:
                r.ok("%s: non-interactive arm returns %s" % (ask.short, norm(direct[0].ast.value)))
            else:
                r.fail(ask, ask.node, "non-interactive arm", "the non-interactive arm does not return immediately")
        else:
            r.fail(ask, ask.node, "non-interactive return", "a non-interactive question does not return its default")

    return r


def run(ctx):
    p, cg = ctx.p, ctx.cg
    qcls = ctx.cls("clikit.ui.components.question.Question")
    va = qcls.methods.get("_validate_attempts")
    ask = qcls.methods.get("ask")
    rfi = qcls.methods.get("_read_from_input")
    ctx.require(va and ask and rfi, "Question.ask/_validate_attempts/_read_from_input missing")

    # abort sites: explicit raises under a falsy test of what was read
    abort_fns = {}
    none_only = []
    for f in p.all_functions():
        if f.cls is None or qcls not in f.cls.mro:
            continue
        cfg = ctx.cfg(f)
        reads = set()
        for n in walk_no_nested(f.node):
            if isinstance(n, ast.Assign) and isinstance(n.value, ast.Call) and isinstance(n.value.func, ast.Attribute) and n.value.func.attr in ("read_line", "read"):
                for t in n.targets:
                    if isinstance(t, ast.Name):
                        reads.add(t.id)
        for rz in [n for n in cfg.nodes if n.kind == "raise" and n.ast.exc is not None]:
            g = guarded_by(cfg, rz, lambda e: isinstance(e, ast.Name) and e.id in reads, polarity=False)
            if g is None:
                g = guarded_by(cfg, rz, lambda e: isinstance(e, ast.Compare) and isinstance(e.left, ast.Name) and e.left.id in reads and isinstance(e.ops[0], ast.Eq)
                               and isinstance(e.comparators[0], ast.Constant) and e.comparators[0].value in ("", b""), polarity=True)
            if g is not None:
                abort_fns[f.qualname] = (f, rz, cfg._raised_class(rz.ast, None))
                continue
            # an abort that only fires for None: streams signal the end of input with an empty string
            g2 = guarded_by(cfg, rz, lambda e: isinstance(e, ast.Compare) and isinstance(e.left, ast.Name) and e.left.id in reads and isinstance(e.ops[0], ast.Is)
                            and isinstance(e.comparators[0], ast.Constant) and e.comparators[0].value is None, polarity=True)
            if g2 is not None:
                abort_fns[f.qualname] = (f, rz, cfg._raised_class(rz.ast, None))
                none_only.append((f, g2, rz))
    ctx.require(abort_fns, "no end-of-input abort found in the Question classes (raise under a test of the value read)")

    # ---------------------------------------------------------------- R1
    r = ctx.rule("C18-R1", "EXC", "end of input leaves every retry loop: no handler that swallows the abort sits in a "
                 "loop with an unbounded condition around a call that can reach the abort", reference=1)
    n_loops = 0
    for f in [x for x in p.all_functions() if x.cls is not None and qcls in x.cls.mro]:
        cfg = ctx.cfg(f)
        for hn in [n for n in cfg.nodes if n.kind == "except"]:
            loops = cfg.enclosing_loops(hn.ast)
            if not loops:
                continue
            loop = loops[0]
            heads = [n for n in cfg.nodes if n.kind in ("loop", "for") and n.ast is loop]
            # handler falls back into the loop?
            if not any(h.id in cfg.reach([hn.id]) for h in heads):
                continue
            n_loops += 1
            caught = cfg._handler_classes(hn.ast)
            try_node = getattr(hn.ast, "_parent", None)
            calls = [c for s in try_node.body for c in walk_no_nested(s) if isinstance(c, ast.Call)]
            reaching = []
            for c in calls:
                cs = cg.site_for(f, c)
                for t in cs.targets:
                    for g in cg.reachable([t]).values():
                        if g.qualname in abort_fns:
                            af, rz, cls = abort_fns[g.qualname]
                            v = cfg.catches(caught, cls)
                            if v in ("yes", "maybe"):
                                reaching.append((c, t, af, cls))
            # is the loop bounded on the handler path?  an `X is None` disjunct that nothing changes is not
            unbounded = isinstance(loop, ast.While) and (any(
                isinstance(d, ast.Compare) and isinstance(d.ops[0], ast.Is) and isinstance(d.comparators[0], ast.Constant) and d.comparators[0].value is None
                for d in (loop.test.values if isinstance(loop.test, ast.BoolOp) and isinstance(loop.test.op, ast.Or) else [loop.test]))
                or (isinstance(loop.test, ast.Constant) and loop.test.value is True))
            desc = "%s: handler %s in loop '%s'" % (f.short, norm(hn.ast.type) if hn.ast.type else "bare", norm(loop.test) if isinstance(loop, ast.While) else "for")
            if reaching and unbounded:
                c, t, af, cls = reaching[0]
                r.fail(f, hn.ast, "handler swallows abort from %s" % norm(c),
                       "the retry loop catches %s around %s, which can raise the end-of-input abort (%s in %s); the loop condition has an arm "
                       "that never changes, so on an exhausted input the question asks forever" %
                       (norm(hn.ast.type) if hn.ast.type else "everything", norm(c), getattr(cls, "__name__", cls), af.short),
                       chain=" -> ".join(x.short for x in (cg.call_chain(t, lambda g: g is af) or [t, af])))
            else:
                r.ok(desc + (" - abort not reachable from the try body" if not reaching else " - loop bounded"))
    if n_loops == 0:
        r.vacuous_ok = True
        r.note("no retry loop with a swallowing handler")

    # ---------------------------------------------------------------- R2
    r = ctx.rule("C18-R2", "KEY", "what a choice question returns was taken out of the choices list", reference=7)
    val = ctx.func("SelectChoiceValidator.validate")
    cfg = ctx.cfg(val)
    init = ctx.func("SelectChoiceValidator.__init__")
    values_attr = None
    for n in walk_no_nested(init.node):
        if isinstance(n, ast.Assign) and isinstance(n.value, ast.Attribute) and n.value.attr == "choices" and is_self_attr(n.targets[0]):
            values_attr = n.targets[0].attr
    ctx.require(values_attr, "SelectChoiceValidator does not keep the question's choices")
    rets = q.returns(val)
    result_lists = set()
    for ret in rets:
        for x in walk_no_nested(ret.value) if ret.value is not None else []:
            if isinstance(x, ast.Name):
                result_lists.add(x.id)
    vcls = val.cls

    def _self_helper(e):
        """FuncInfo of the validator's own method called by ``self.h(...)``, else None"""
        if isinstance(e, ast.Call) and isinstance(e.func, ast.Attribute) and isinstance(e.func.value, ast.Name) and e.func.value.id == "self" and e.func.attr in vcls.methods \
                and vcls.methods[e.func.attr] is not val:
            return vcls.methods[e.func.attr]
        return None

    def judge_value(fn, v, at, use_desc, anchor, depth=0):
        """is the value of expression ``v``, used at CFG node ``at`` of ``fn``, an element of the choices?"""
        fcfg = ctx.cfg(fn)
        if isinstance(v, ast.Subscript) and is_self_attr(v.value, values_attr) and not isinstance(v.slice, ast.Slice):
            r.ok("%s: %s reaches %s" % (fn.short, norm(v), use_desc))
            return
        h = _self_helper(v)
        if h is not None and depth < 3:
            hrets = [x for x in q.returns(h) if x.value is not None]
            if not hrets:
                r.fail(fn, anchor, norm(v), "%s yields nothing: the answer is None" % h.short)
            for hr in hrets:
                judge_value(h, hr.value, ctx.cfg(h).node_of(hr), "the return of %s" % h.short, hr, depth + 1)
            return
        if isinstance(v, ast.Name):
            var = v.id
            defs = fcfg.writes(lambda t: t == var)
            seen_def = False
            for d in defs:
                others = [x.id for x in defs if x is not d]
                if at.id not in fcfg.reach([d.id], blocked=others):
                    continue  # overwritten before the use
                seen_def = True
                dv = d.ast.value if isinstance(d.ast, ast.Assign) else None
                desc = "%s: %s reaches %s" % (fn.short, norm(d.ast), use_desc)
                if isinstance(dv, ast.Constant) and dv.value is False:
                    g = guarded_by(fcfg, at, lambda e: isinstance(e, ast.Compare) and isinstance(e.left, ast.Name) and e.left.id == var and isinstance(e.ops[0], ast.Is)
                                   and isinstance(e.comparators[0], ast.Constant) and e.comparators[0].value is False, polarity=False)
                    if g is not None and fcfg.inevitably_raises(fcfg.true_of(g).id):
                        r.ok(desc + " [sentinel, rejected before the use]")
                    else:
                        r.fail(fn, anchor, norm(anchor) + " <- False", "the 'not found' sentinel can reach the returned answer")
                elif dv is not None and (isinstance(dv, ast.Subscript) or _self_helper(dv) is not None):
                    judge_value(fn, dv, d, use_desc, d.ast, depth + 1)
                else:
                    r.fail(fn, d.ast, norm(d.ast), "the answer can be %s, which is not an element of the choices (e.g. the text or index typed)" % norm(dv) if dv is not None else "unknown")
            if not seen_def:
                r.fail(fn, anchor, norm(anchor), "no definition of %s reaches %s" % (var, use_desc))
            return
        r.fail(fn, anchor, norm(anchor), "the answer can be %s, which is not an element of the choices (e.g. the text or index typed)" % norm(v))

    appends = [c for c in q.calls(val) if isinstance(c.func, ast.Attribute) and c.func.attr == "append" and c.args and isinstance(c.func.value, ast.Name) and c.func.value.id in result_lists]
    comps = [n for n in walk_no_nested(val.node) if isinstance(n, ast.Assign) and isinstance(n.value, ast.ListComp) and any(isinstance(t, ast.Name) and t.id in result_lists for t in n.targets)]
    ctx.require(appends or comps, "validate() does not build its result by appending (or by a list comprehension)")
    for c in appends:
        judge_value(val, c.args[0], cfg.node_of(c), norm(c), c)
    for n in comps:
        judge_value(val, n.value.elt, cfg.node_of(n), "the elements of " + norm(n.targets[0]), n)
    # per-entry freshness: the value appended for an entry was defined while handling *that* entry
    for c in appends:
        if not isinstance(c.args[0], ast.Name):
            continue
        var = c.args[0].id
        an = cfg.node_of(c)
        loops_ = cfg.enclosing_loops(c)
        if not loops_:
            continue
        heads = [n for n in cfg.nodes if n.kind == "loop_body" and n.ast is loops_[0]]
        defs_in = set(d.id for d in cfg.writes(lambda t: t == var) if any(a is loops_[0] for a in _anc(d.ast)))
        def stale_path(h):
            # can the append be reached from the start of the iteration without an assignment that *completed*?
            # (an assignment node left through its exceptional edge did not assign)
            seen, work = set(), [h]
            while work:
                x = work.pop()
                if x in seen:
                    continue
                seen.add(x)
                if x == an.id:
                    return True
                for y, kind in cfg.succ[x]:
                    if x in defs_in and kind == "n":
                        continue
                    work.append(y)
            return False
        if heads and defs_in and not any(stale_path(h.id) for h in heads):
            r.ok("%s: %s is (re)defined for every entry before it is appended" % (val.short, var))
        else:
            r.fail(val, c, norm(c) + " stale", "for some entries no value is assigned to %s before it is appended: the choice found for the previous entry is returned again "
                   "(an invalid entry is silently accepted, no error, no attempt used)" % var)
    for ret in rets:
        if ret.value is not None and all(isinstance(x, (ast.Name, ast.Subscript, ast.Constant, ast.Load, ast.Index)) for x in walk_no_nested(ret.value)):
            r.ok("%s: returns %s" % (val.short, norm(ret.value)))
        elif ret.value is not None:
            r.fail(val, ret, norm(ret), "validate returns something other than the collected choices")

    interactive_rule(ctx, "C18-R3", reference=3)

    # ---------------------------------------------------------------- R4
    r = ctx.rule("C18-R4", "MULT", "a failed attempt costs exactly one attempt and prints one error", reference=4)
    cfg = ctx.cfg(va)
    loops = [n for n in cfg.nodes if n.kind == "loop"]
    ctx.require(loops, "no retry loop in _validate_attempts")
    decs = [n for n in cfg.nodes if n.kind == "stmt" and isinstance(n.ast, ast.AugAssign) and isinstance(n.ast.op, ast.Sub) and isinstance(n.ast.target, ast.Name)
            and isinstance(n.ast.value, ast.Constant) and n.ast.value.value == 1]
    budget = {d.ast.target.id for d in decs}
    handlers = [n for n in cfg.nodes if n.kind == "except"]
    if len(decs) != 1:
        r.fail(va, va.node, "%d decrements" % len(decs), "the attempt budget is decremented at %d places: a failed attempt does not cost exactly one" % len(decs))
    else:
        d = decs[0]
        var = d.ast.target.id
        skip = set(e.id for e in cfg.nodes if e.kind == "F" and isinstance(e.ast, ast.Compare) and isinstance(e.ast.left, ast.Name) and e.ast.left.id == var and isinstance(e.ast.ops[0], ast.IsNot))
        skip |= set(e.id for e in cfg.nodes if e.kind == "T" and isinstance(e.ast, ast.Compare) and isinstance(e.ast.left, ast.Name) and e.ast.left.id == var and isinstance(e.ast.ops[0], ast.Is))
        ok = bool(handlers) and all(cfg.all_paths_hit(h.id, {d.id} | skip, [l.id for l in loops]) for h in handlers)
        twice = d.id in cfg.reach_strict(d.id, blocked=[l.id for l in loops])
        if ok and not twice:
            r.ok("%s: %s once per failed attempt" % (va.short, norm(d.ast)))
        else:
            r.fail(va, d.ast, norm(d.ast), "a failed attempt can come back to the loop test without (or with more than one) decrement of the budget")
        # a successful attempt returns without decrement: the return in the try body
        rets = [n for n in cfg.nodes if n.kind == "return"]
        if rets and not any(d.id in cfg.reach([cfg.entry.id], blocked=[h.id for h in handlers]) and False for _ in [0]):
            r.ok("%s: success returns from inside the loop" % va.short)
    werr = [cfg.node_of(c) for c in q.method_calls(va, "_write_error")]
    if len(werr) == 1 and cfg.in_loop(werr[0].id, exc=True) and guarded_by(cfg, werr[0], lambda e: isinstance(e, ast.Compare) and isinstance(e.ops[0], ast.IsNot), polarity=True) is not None:
        r.ok("%s: one error line per failed attempt" % va.short)
    else:
        r.fail(va, va.node, "error writes", "the error of a failed attempt is not printed exactly once per retry")
    # when the budget is used up the last error is raised
    tail = [n for n in cfg.nodes if n.kind == "raise" and not cfg.in_loop(n.id)]
    if tail:
        r.ok("%s: exhausted budget raises the last error" % va.short)
    else:
        r.fail(va, va.node, "no final raise", "an exhausted attempt budget does not raise")

    # ---------------------------------------------------------------- R8
    r = ctx.rule("C18-R8", "SENTINEL", "the end of the input is recognised: input streams answer read_line at the end with an empty string (never None), "
                 "so the abort is raised under a falsiness test of what was read, not under `is None`", reference=1)
    streams = [c for c in p.classes.values() if c.module.name.startswith("clikit.io.input_stream") and "read_line" in c.methods]
    never_none = streams and all(all(ret.value is not None and not (isinstance(ret.value, ast.Constant) and ret.value.value is None) for ret in q.returns(c.methods["read_line"])) for c in streams)
    r.note("fact: the %d input stream classes %s return None from read_line" % (len(streams), "never" if never_none else "can"))
    if none_only and never_none:
        for f, g2, rz in none_only:
            r.fail(f, g2.ast, "end-of-input test `%s`" % norm(g2.ast), "%s aborts only when the value read `%s`; at the end of the input the streams return '' - the question silently takes its default, "
                   "and one without a default and with unlimited attempts asks forever" % (f.short, norm(g2.ast)))
    for qn, (f, rz, cls) in sorted(abort_fns.items()):
        if not any(f is x[0] for x in none_only):
            r.ok("%s: abort under a falsiness test of the value read" % f.short)

    # ---------------------------------------------------------------- R5
    r = ctx.rule("C18-R5", "EXC", "every rejection by the validator is a failed attempt: the validator is a replaceable callable (and the built-in one "
                 "also fails with AttributeError on an empty answer without default), so the handler around its call catches Exception", reference=1)
    vcalls = [c for c in q.calls(va) if isinstance(c.func, ast.Attribute) and is_self_attr(c.func) and "valid" in c.func.attr]
    ctx.require(vcalls, "_validate_attempts no longer calls the validator")
    for c in vcalls:
        wide = False
        names = []
        for cn in cfg.nodes_of(c):
            for s_, k in cfg.succ[cn.id]:
                sn = cfg.nodes[s_]
                if k == "e" and sn.kind == "except":
                    h = sn.ast
                    nm = [] if h.type is None else [norm(x) for x in (h.type.elts if isinstance(h.type, ast.Tuple) else [h.type])]
                    names += nm
                    if h.type is None or any(x in ("Exception", "BaseException") for x in nm):
                        wide = True
        if wide:
            r.ok("%s: %s under except Exception" % (va.short, norm(c)))
        else:
            r.fail(va, c, norm(c) + " handler " + ",".join(sorted(set(names)) or ["none"]), "the retry loop catches only %s around the validator: any other rejection (AttributeError for an empty line on a "
                   "choice question without default, a custom validator's own error class) ends the dialogue at once - no error line, attempts left unused" % (", ".join(sorted(set(names))) or "nothing"))

    # ---------------------------------------------------------------- R6
    r = ctx.rule("C18-R6", "TAINT", "typing a choice's value selects it, whatever characters it contains: the blank-collapsed form of the answer exists for the "
                 "syntax check and split of the multi-select form only; on the single-select arm the candidate is the answer as typed", reference=1)
    def _is_multi(e):
        return isinstance(e, ast.Call) and isinstance(e.func, ast.Attribute) and e.func.attr == "supports_multiple_choices"

    n6 = 0
    for vm in sorted(val.cls.methods.values(), key=lambda f: f.name):
        collapsed = {t.id for n in walk_no_nested(vm.node) if isinstance(n, ast.Assign) and isinstance(n.value, ast.Call) and isinstance(n.value.func, ast.Attribute) and n.value.func.attr == "replace"
                     and n.value.args and isinstance(n.value.args[0], ast.Constant) and n.value.args[0].value == " " for t in n.targets if isinstance(t, ast.Name)}
        if not collapsed:
            continue
        n6 += 1
        vcfg = ctx.cfg(vm)
        single = [e for e in vcfg.nodes if (e.kind == "F" and _is_multi(e.ast)) or (e.kind == "T" and isinstance(e.ast, ast.UnaryOp) and isinstance(e.ast.op, ast.Not) and _is_multi(e.ast.operand))]
        bad = None
        arms = 0
        for e in single:
            for n in vcfg.nodes:
                if not vcfg.dominates(e.id, n.id):
                    continue
                if n.kind == "stmt" and isinstance(n.ast, ast.Assign) and any(isinstance(t, ast.Name) and t.id in collapsed for t in n.ast.targets):
                    arms += 1
                    if q.names_in(n.ast.value) & collapsed:
                        bad = n
                elif n.kind == "return" and n.ast.value is not None and vm is not val:
                    # a helper that yields the candidate list: what it yields on the single-select arm
                    arms += 1
                    if q.names_in(n.ast.value) & collapsed:
                        bad = n
        if bad is not None:
            r.fail(vm, bad.ast, norm(bad.ast), "on the single-select arm the candidate list is built from the blank-collapsed answer (%s): a choice that contains a blank, such as 'Iron Man', "
                   "can be selected by its index but is rejected when typed by name" % norm(bad.ast))
        elif arms:
            r.ok("%s: single-select candidate is the answer as typed" % vm.short)
        else:
            r.note("%s: no single-select arm that rebuilds the candidate list found" % vm.short)
            r.vacuous_ok = True
    if n6 == 0:
        r.vacuous_ok = True
        r.note("the validator no longer collapses blanks")

    # ---------------------------------------------------------------- R7
    r = ctx.rule("C18-R7", "TABLE", "a confirmation is true exactly for inputs that match its pattern from their first character: the normaliser "
                 "applies the pattern with re.match / fullmatch, not with a searching function", reference=1)
    cq = ctx.cls("clikit.ui.components.confirmation_question.ConfirmationQuestion")
    n7 = 0
    for name, m in sorted(cq.methods.items()):
        for fn in [m] + list(getattr(m, "nested", {}).values()):
            for c in q.calls(fn):
                if isinstance(c.func, ast.Attribute) and isinstance(c.func.value, ast.Name) and c.func.value.id == "re" and c.args and any(is_self_attr(x) and "regex" in x.attr for x in walk_no_nested(c.args[0])):
                    n7 += 1
                    if c.func.attr in ("match", "fullmatch"):
                        r.ok("%s: re.%s(pattern, answer)" % (fn.short, c.func.attr))
                    else:
                        r.fail(fn, c, norm(c), "the confirmation applies its pattern with re.%s: an answer that merely contains a match ('no way' for the pattern 'y|w') confirms" % c.func.attr)
    if n7 == 0:
        r.fail(list(cq.methods.values())[0], cq.node, "pattern not applied", "ConfirmationQuestion never applies its true-answer pattern")

    # ---------------------------------------------------------------- R9
    r = ctx.rule("C18-R9", "RESET", "'gives up at end of input' needs an end: loading a script into a string input stream discards what the stream held before - set() reaches a "
                 "truncate of the buffer (directly or through clear()) before it writes", reference=1)
    sis = ctx.cls("clikit.io.input_stream.string_input_stream.StringInputStream")
    setm = sis.methods.get("set")
    ctx.require(setm is not None, "StringInputStream.set missing")
    scfg = ctx.cfg(setm)
    def truncates(m_, depth=0):
        ids = set()
        c_ = ctx.cfg(m_)
        for call in q.calls(m_):
            if isinstance(call.func, ast.Attribute) and call.func.attr == "truncate":
                ids |= {n.id for n in c_.nodes_of(call)}
            elif depth < 2 and isinstance(call.func, ast.Attribute) and isinstance(call.func.value, ast.Name) and call.func.value.id == "self" and call.func.attr in sis.methods:
                h = sis.methods[call.func.attr]
                hc = ctx.cfg(h)
                ht = truncates(h, depth + 1)
                if ht and hc.post_dominated_by(hc.entry.id, ht):
                    ids |= {n.id for n in c_.nodes_of(call)}
        return ids
    tr = truncates(setm)
    wr = [n for c in q.calls(setm) if isinstance(c.func, ast.Attribute) and c.func.attr == "write" for n in scfg.nodes_of(c)]
    fresh_buf = any(isinstance(n, ast.Assign) and any(is_self_attr(t, "_stream") for t in n.targets) for n in walk_no_nested(setm.node))
    if not wr:
        r.fail(setm, setm.node, "set writes nothing", "StringInputStream.set does not write the new text")
    elif fresh_buf or (tr and all(any(scfg.dominates(t, w.id) for t in tr) for w in wr)):
        r.ok("%s: old content truncated before the new text is written" % setm.short)
    else:
        r.fail(setm, wr[0].ast, "write without truncate", "%s writes the new text over the old buffer without truncating it: when the new script is shorter the tail of the old one is still readable, "
               "so a question past its last line reads stale answers instead of reaching the end of the input" % setm.short)

    # ---------------------------------------------------------------- R10
    r = ctx.rule("C18-R10", "ORDER", "an ambiguous entry (a value that occurs more than once among the choices) is an invalid entry, whether or not a look-up would find it: the ambiguity "
                 "test lies on every path from the matching loop to the acceptance of the value", reference=1)
    vcfg = ctx.cfg(val)
    amb = [c for c in vcfg.conds() if isinstance(c.ast, ast.Compare) and isinstance(c.ast.left, ast.Call) and isinstance(c.ast.left.func, ast.Name) and c.ast.left.func.id == "len"
           and isinstance(c.ast.ops[0], (ast.Gt, ast.GtE)) and vcfg.true_of(c) is not None and vcfg.inevitably_raises(vcfg.true_of(c).id)]
    accepts = [n for c in q.calls(val) if isinstance(c.func, ast.Attribute) and c.func.attr == "append" and c.args and isinstance(c.args[0], ast.Name) and c.args[0].id.startswith("result") and not c.args[0].id.endswith("s")
               for n in vcfg.nodes_of(c)]
    # the test may sit in a private helper of the validator that raises for an ambiguous value
    amb_calls = []
    vcls = val.cls
    for c in q.calls(val):
        if isinstance(c.func, ast.Attribute) and isinstance(c.func.value, ast.Name) and c.func.value.id == "self" and vcls is not None and c.func.attr in vcls.methods:
            h = vcls.methods[c.func.attr]
            hc = ctx.cfg(h)
            if any(isinstance(k.ast, ast.Compare) and isinstance(k.ast.left, ast.Call) and isinstance(k.ast.left.func, ast.Name) and k.ast.left.func.id == "len" and isinstance(k.ast.ops[0], (ast.Gt, ast.GtE))
                   and hc.true_of(k) is not None and hc.inevitably_raises(hc.true_of(k).id) for k in hc.conds()):
                amb_calls += vcfg.nodes_of(c)
    if not amb and not amb_calls:
        r.fail(val, val.node, "no ambiguity test", "the validator never rejects an ambiguous value")
    elif not accepts and comps:
        # the value is accepted by being returned from the per-entry helper the comprehension calls: the test must lie on every path to its value returns
        n10 = 0
        for cn in comps:
            h = _self_helper(cn.value.elt)
            if h is None:
                continue
            hc = ctx.cfg(h)
            hamb = {k.id for k in hc.conds() if isinstance(k.ast, ast.Compare) and isinstance(k.ast.left, ast.Call) and isinstance(k.ast.left.func, ast.Name) and k.ast.left.func.id == "len"
                    and isinstance(k.ast.ops[0], (ast.Gt, ast.GtE)) and hc.true_of(k) is not None and hc.inevitably_raises(hc.true_of(k).id)}
            hrets = [n.id for n in hc.nodes if n.kind == "return" and n.ast.value is not None]
            n10 += 1
            if hamb and hrets and hc.all_paths_hit(hc.entry.id, hamb, hrets):
                r.ok("%s: the ambiguity test is on every path to the value it returns" % h.short)
            else:
                r.fail(h, h.node, "ambiguity test not on every path", "%s returns a value on a path that skips the ambiguity test: a duplicated choice is accepted silently - no error, no attempt consumed" % h.short)
        if n10 == 0:
            r.note("acceptance site not recognised")
            r.vacuous_ok = True
    elif not accepts:
        r.note("acceptance site not recognised")
        r.vacuous_ok = True
    else:
        amb_ids = {c.id for c in amb} | {n.id for n in amb_calls}
        loops_ = [a for a in _anc(accepts[0].ast) if isinstance(a, ast.For)]
        heads_ = [n for n in vcfg.nodes if n.kind == "for" and loops_ and n.ast is loops_[0]]
        starts = [vcfg.nodes[x] for h_ in heads_ for x in vcfg.succs(h_.id) if vcfg.nodes[x].kind == "loop_body"] or [vcfg.entry]
        what = norm(amb[0].ast) if amb else norm(amb_calls[0].ast)[:40]
        if starts and all(vcfg.all_paths_hit(s_.id, amb_ids, [a.id for a in accepts]) for s_ in starts):
            r.ok("%s: `%s` is tested on every path to the acceptance" % (val.short, what))
        else:
            r.fail(val, amb[0].ast if amb else amb_calls[0].ast, "ambiguity test `%s` not on every path" % what, "%s reaches the acceptance of a value on a path that skips the ambiguity test (it only runs when the look-up failed, "
                   "which never happens for a value that is present twice): a duplicated choice is accepted silently - no error, no attempt consumed" % val.short)

    # ---------------------------------------------------------------- R11
    r = ctx.rule("C18-R11", "TABLE", "'exactly for inputs matching its pattern': the confirmation keeps the pattern it was given - the constructor stores the parameter itself (no flags added, no rewrite)", reference=1)
    cinit = cq.methods.get("__init__")
    rx_fields = {x.attr for m_ in cq.methods.values() for fn_ in [m_] + list(getattr(m_, "nested", {}).values()) for c in q.calls(fn_) if isinstance(c.func, ast.Attribute) and isinstance(c.func.value, ast.Name) and c.func.value.id == "re" and c.args
                 for x in walk_no_nested(c.args[0]) if is_self_attr(x)}
    n11 = 0
    for n in walk_no_nested(cinit.node) if cinit else []:
        if isinstance(n, ast.Assign) and any(is_self_attr(t) and t.attr in rx_fields for t in n.targets):
            n11 += 1
            v = n.value
            plain_ = isinstance(v, ast.Name) and v.id in cinit.params
            compiled = isinstance(v, ast.Call) and norm(v.func) == "re.compile" and len(v.args) == 1 and not v.keywords and isinstance(v.args[0], ast.Name) and v.args[0].id in cinit.params
            if plain_ or compiled:
                r.ok("%s: %s" % (cinit.short, norm(n)))
            else:
                r.fail(cinit, n, norm(n), "the confirmation stores `%s` instead of the pattern it was given: a case-sensitive custom pattern such as '^Y' answers true for 'y'" % norm(v))
    if n11 == 0:
        r.vacuous_ok = True

    # ---------------------------------------------------------------- R12
    r = ctx.rule("C18-R12", "RANGE", "a one-entry choice list can be asked: `max(*seq)` (which needs at least two arguments) is only evaluated behind a test that the sequence has more than one element", reference=1)
    n12 = 0
    for f in [x for x in p.all_functions() if x.cls is not None and qcls in x.cls.mro]:
        fcfg = ctx.cfg(f)
        for c in q.calls(f):
            if isinstance(c.func, ast.Name) and c.func.id in ("max", "min") and len(c.args) == 1 and isinstance(c.args[0], ast.Starred):
                n12 += 1
                ok_ = all(guarded_by(fcfg, cn, lambda e: isinstance(e, ast.Compare) and isinstance(e.left, ast.Call) and isinstance(e.left.func, ast.Name) and e.left.func.id == "len"
                                     and ((isinstance(e.ops[0], ast.Gt) and isinstance(e.comparators[0], ast.Constant) and e.comparators[0].value >= 1)
                                          or (isinstance(e.ops[0], ast.GtE) and isinstance(e.comparators[0], ast.Constant) and e.comparators[0].value >= 2)), polarity=True) is not None for cn in fcfg.nodes_of(c))
                if ok_:
                    r.ok("%s: %s behind a length test" % (f.short, norm(c)[:40]))
                else:
                    r.fail(f, c, norm(c)[:60] + " without len > 1", "%s evaluates `%s` where the sequence may hold a single element: max(5) raises TypeError - a choice question with one choice fails before it reads anything" % (f.short, norm(c)[:40]))
    if n12 == 0:
        r.vacuous_ok = True
    # ---------------------------------------------------------------- R13
    r = ctx.rule("C18-R13", "SIBLING", "'on a non-interactive input ... without reading or prompting' holds for a section of that I/O too: every section() of the I/O classes hands the "
                 "new I/O the parent's Input object itself (which carries the interactive flag), not a new Input over the same stream", reference=2)
    io_base = ctx.cls("clikit.api.io.io.IO")
    n13 = 0
    for c in sorted(p.subclasses(io_base), key=lambda k: k.qualname):
        m = c.methods.get("section")
        if m is None:
            continue
        n13 += 1
        whole = [a for a in walk_no_nested(m.node) if isinstance(a, ast.Attribute) and a.attr in ("_input", "input") and isinstance(a.value, ast.Name) and a.value.id == "self"
                 and isinstance(a.ctx, ast.Load) and not isinstance(getattr(a, "_parent", None), ast.Attribute)]
        if whole:
            r.ok("%s.section: the parent's Input object is handed on" % c.name)
        else:
            r.fail(m, m.node, "%s.section builds its own Input" % c.name, "%s.section does not pass its Input object on to the section: the section's Input is a new one - interactive by default - so a question asked on a "
                   "section of a non-interactive I/O prompts and reads instead of taking its default" % c.name)
    ctx.require(n13 >= 1, "no section() found in the I/O classes")

    # ---------------------------------------------------------------- R14
    r = ctx.rule("C18-R14", "ORDER", "'an invalid line costs one attempt': lines fed to a string input are read in the order they were appended - append() remembers the read position "
                 "BEFORE it moves to the end to write, and goes back to it afterwards", reference=1)
    sis = ctx.cls("clikit.io.input_stream.string_input_stream.StringInputStream")
    ap = sis.methods.get("append")
    if ap is None:
        r.vacuous_ok = True
    else:
        acfg = ctx.cfg(ap)
        seeks = [c for c in q.calls(ap) if isinstance(c.func, ast.Attribute) and c.func.attr == "seek"]
        restore = [c for c in seeks if len(c.args) == 1 and isinstance(c.args[0], ast.Name)]
        moves = [c for c in seeks if c not in restore]
        if not restore or not moves:
            r.vacuous_ok = True
            r.note("append() no longer saves and restores the position")
        for rs_ in restore:
            var = rs_.args[0].id
            defs = acfg.writes(lambda t: t == var)
            mv_ids = [n.id for c in moves for n in acfg.nodes_of(c)]
            late = [d for d in defs if any(d.id in acfg.reach_strict(mv) for mv in mv_ids)]
            if late:
                r.fail(ap, late[0].ast, "position saved after the move", "%s takes `%s` after it has moved to the end of the buffer: going back to it leaves the reader at the start of the text just appended - "
                       "lines that were still unread are skipped silently (an invalid line costs no attempt, a pending answer is overtaken)" % (ap.short, norm(late[0].ast)))
            else:
                r.ok("%s: `%s` is taken before the move to the end" % (ap.short, var))

    ctx.borrow("c09", "C09-R18", "C18-R15", "'on a non-interactive input': -n makes the I/O non-interactive whichever other switches are on the line - in create_io no effect of one switch "
               "depends on another switch being absent (same rule as C09-R18)")

    # ---------------------------------------------------------------- R16
    r = ctx.rule("C18-R16", "TABLE", "'typing a choice's value selects it': the line read is trimmed on both sides before it is validated (strip(), not rstrip() / lstrip()) - a "
                 "leading blank is not part of the answer", reference=1)
    n16 = 0
    for ret in q.returns(rfi):
        for c in [x for x in ast.walk(ret.value)] if ret.value is not None else []:
            if isinstance(c, ast.Call) and isinstance(c.func, ast.Attribute) and c.func.attr in ("strip", "rstrip", "lstrip") and not c.args:
                n16 += 1
                if c.func.attr == "strip":
                    r.ok("%s: %s" % (rfi.short, norm(c)))
                else:
                    r.fail(rfi, c, "answer trimmed with %s()" % c.func.attr, "%s trims the line read with %s() only: ' Batman' is not the choice 'Batman' (rejected, an attempt used) while ' 1' is still "
                           "accepted as an index, and ' yes' does not confirm" % (rfi.short, c.func.attr))
    if n16 == 0:
        r.vacuous_ok = True
        r.note("%s does not trim what it returns" % rfi.short)

    # ---------------------------------------------------------------- R17
    r = ctx.rule("C18-R17", "ORDER", "'typing a choice's value selects it' also when the value looks like a number: an entry is looked up by value first and read as an index only when "
                 "no choice has that value - int(entry) is reached only after the by-value look-up failed", reference=1)
    n17 = 0
    for vm in sorted(val.cls.methods.values(), key=lambda f: f.name):
        vcfg17 = ctx.cfg(vm)
        ints = [c for c in q.calls(vm) if isinstance(c.func, ast.Name) and c.func.id == "int" and c.args and isinstance(c.args[0], ast.Name)]
        looks = [c for c in q.calls(vm) if isinstance(c.func, ast.Attribute) and c.func.attr == "index" and is_self_attr(c.func.value, values_attr)]
        looks += [x for x in walk_no_nested(vm.node) if isinstance(x, ast.Compare) and len(x.ops) == 1 and isinstance(x.ops[0], (ast.In, ast.NotIn)) and is_self_attr(x.comparators[0], values_attr)]
        if not ints or not looks:
            continue
        n17 += 1
        int_ids = {n.id for c in ints for n in vcfg17.nodes_of(c)}
        look_ids = {n.id for c in looks for n in vcfg17.nodes_of(c)}
        loop_heads = [n.id for n in vcfg17.nodes if n.kind in ("loop_body",)]
        first_int = any(l in vcfg17.reach_strict(i, blocked=loop_heads, exc=True) for i in int_ids for l in look_ids)
        if first_int:
            r.fail(vm, ints[0], "int(entry) before the by-value look-up", "%s reads an entry as an index before it looks it up by value: a choice whose value looks like a number is rejected when typed "
                   "(['8080','3000'] + '3000') or another choice is returned (['1','0','x'] + '1' gives '0')" % vm.short)
        else:
            r.ok("%s: by-value look-up first, index second" % vm.short)
    if n17 == 0:
        r.vacuous_ok = True

    # ---------------------------------------------------------------- R18
    r = ctx.rule("C18-R18", "OWNER", "'an invalid line costs one attempt' - once: wrapping a stream in an input stream does not move it - no reachable statement of the constructor "
                 "of StreamInputStream seeks, reads or truncates the stream it is given (a second wrapper over a partly read stream would serve consumed lines again)", reference=1)
    sic = ctx.cls("clikit.io.input_stream.stream_input_stream.StreamInputStream")
    sinit = sic.methods.get("__init__")
    if sinit is None:
        r.vacuous_ok = True
    else:
        scfg = ctx.cfg(sinit)
        live = scfg.reach([scfg.entry.id])
        prm_s = [a for a in sinit.params if a != "self"]
        moved = [c for c in q.calls(sinit) if isinstance(c.func, ast.Attribute) and c.func.attr in ("seek", "read", "readline", "truncate", "write") and
                 ((isinstance(c.func.value, ast.Name) and c.func.value.id in prm_s) or is_self_attr(c.func.value)) and any(n.id in live for n in scfg.nodes_of(c))]
        if moved:
            r.fail(sinit, moved[0], "%s in the constructor" % norm(moved[0]), "%s moves the stream it wraps (%s): building another input stream over a stream that was already partly read rewinds it - lines "
                   "that were consumed are served again (extra errors, extra attempts, end of input never reached)" % (sinit.short, norm(moved[0])))
        else:
            dead = [c for c in q.calls(sinit) if isinstance(c.func, ast.Attribute) and c.func.attr in ("seek", "read", "readline", "truncate", "write")]
            r.ok("%s leaves the stream where it is%s" % (sinit.short, " (%s is unreachable: its guard is constant-false)" % norm(dead[0]) if dead else ""))

    return ctx.results


def _anc(n):
    p = getattr(n, "_parent", None)
    while p is not None:
        yield p
        p = getattr(p, "_parent", None)
