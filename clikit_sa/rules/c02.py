"""C02 - malformed command lines: documented errors only; lenient is total and agrees with strict."""
import ast
import builtins

from ..loader import walk_no_nested, norm, is_self_attr, ClassInfo
from ..cfg import guarded_by
from .. import q

# E6: tiny model of implicit raisers (only where a rule names them)
IMPLICIT = {"int": (ValueError, TypeError), "float": (ValueError, TypeError)}


def _lenient_cond(e):
    return isinstance(e, ast.Name) and e.id == "lenient"


def run(ctx):
    p, cg = ctx.p, ctx.cg
    parser = ctx.cls("clikit.args.default_args_parser.DefaultArgsParser")
    parse = parser.methods.get("parse")
    inner = parser.methods.get("_parse")
    ctx.require(parse and inner, "DefaultArgsParser.parse/_parse missing")
    cannot = ctx.cls("clikit.api.args.exceptions.CannotParseArgsException")
    nosuch = ctx.cls("clikit.api.args.exceptions.NoSuchOptionException")
    pmeth = [m for m in cg.reachable([parse], stop=lambda f: f.cls is None or parser not in f.cls.mro).values() if f_in(m, parser)]
    with_len = [m for m in pmeth if "lenient" in m.params]
    ctx.require(len(with_len) >= 5, "too few parser methods carry the 'lenient' parameter (%d)" % len(with_len))

    # ---------------------------------------------------------------- R1
    r = ctx.rule("C02-R1", "SLICE", "every use of 'lenient' is argument forwarding, or a guard whose strict arm "
                 "inevitably raises: then, whenever strict parsing succeeds, lenient parsing takes the same path", reference=23)
    for m in with_len:
        cfg = ctx.cfg(m)
        for n in walk_no_nested(m.node):
            if not (isinstance(n, ast.Name) and n.id == "lenient" and isinstance(n.ctx, ast.Load)):
                continue
            par = getattr(n, "_parent", None)
            # (i) forwarding
            if isinstance(par, ast.Call) and n in par.args:
                cs = cg.site_for(m, par)
                ok = bool(cs.targets)
                for t in cs.targets:
                    a = q.arg_for_param(par, t, "lenient")
                    if a is not n:
                        ok = False
                if ok:
                    r.ok("%s: forwarded in %s" % (m.short, norm(par.func)))
                else:
                    r.fail(m, par, norm(par), "'lenient' is passed to %s but not into a 'lenient' parameter: it influences data" % norm(par.func))
                continue
            if isinstance(par, ast.keyword):
                if par.arg == "lenient":
                    r.ok("%s: forwarded by keyword" % m.short)
                else:
                    r.fail(m, n, "lenient as keyword " + str(par.arg), "'lenient' flows into parameter %s" % par.arg)
                continue
            # (ii) guard: the cond node of exactly this Name
            conds = [c for c in cfg.conds() if c.ast is n]
            if not conds:
                st = q.stmt_of(n)
                r.fail(m, n, "lenient in " + norm(st)[:80], "'lenient' is used as a value (%s), not only to decide between raising and tolerating: "
                       "lenient and strict results can differ although strict succeeds" % norm(st)[:80])
                continue
            for c in conds:
                f = cfg.false_of(c)
                if f is not None and cfg.inevitably_raises(f.id):
                    r.ok("%s: guard at line-free site '%s' - strict arm raises" % (m.short, norm(q.stmt_of(n))[:50]))
                elif _strict_conjunct_guard(ctx, m, n):
                    # `if <A> and not lenient and <B>: raise` in any conjunct order: the other conjuncts do not
                    # depend on the mode, so a strict run that does not raise had the conjunction false as well
                    r.ok("%s: 'not lenient' is a conjunct of a test whose body raises ('%s')" % (m.short, norm(q.stmt_of(n))[:50]))
                else:
                    r.fail(m, n, "guard " + norm(q.stmt_of(n))[:80], "the strict arm of this 'lenient' test does not inevitably raise: strict and lenient "
                           "parsing can both succeed with different results")
    # handlers inside the parser must not swallow the parse errors except as such a guard
    for m in pmeth:
        cfg = ctx.cfg(m)
        for n in cfg.nodes:
            if n.kind != "except":
                continue
            caught = cfg._handler_classes(n.ast)
            covers = caught == [] or any((c in (cannot, nosuch)) or (isinstance(c, ClassInfo) and (c in cannot.mro or c in nosuch.mro))
                                         or (isinstance(c, type) and issubclass(RuntimeError, c)) for c in caught)
            if not covers:
                continue
            # from the handler: lenient-true edge continues, lenient-false edge re-raises, nothing else
            lc = [c for c in cfg.conds() if _lenient_cond(c.ast) and c.id in cfg.reach([n.id])]
            ok = False
            if lc:
                f = cfg.false_of(lc[0])
                ok = cfg.inevitably_raises(f.id) and cfg.dominates(n.id, lc[0].id) if f is not None else False
            if ok:
                r.ok("%s: handler %s re-raises when strict" % (m.short, norm(n.ast.type) if n.ast.type else "bare"))
            else:
                r.fail(m, n.ast, "except " + (norm(n.ast.type) if n.ast.type else ""), "a handler in the parser swallows parse errors also in strict mode")

    # ---------------------------------------------------------------- R2
    r = ctx.rule("C02-R2", "EXC", "neither parse error escapes in lenient mode: every raise of them is in a strict arm, "
                 "or under the try in parse() that re-raises only when strict; lookups that can raise are guarded "
                 "by the matching has_*", reference=20)
    lenient_total_rule(ctx, r)

    # ---------------------------------------------------------------- R3
    r = ctx.rule("C02-R3", "TABLE", "the parser raises only the two documented classes; an unknown option raises "
                 "the no-such-option error", reference=9)
    for m in pmeth:
        cfg = ctx.cfg(m)
        for n in cfg.nodes:
            if n.kind != "raise":
                continue
            if n.ast.exc is None:
                r.ok("%s: bare re-raise" % m.short)
                continue
            cls = cfg._raised_class(n.ast, None)
            if cls in (cannot, nosuch):
                g = guarded_by(cfg, n, lambda e: isinstance(e, ast.Call) and isinstance(e.func, ast.Attribute) and e.func.attr == "has_option", polarity=False)
                if g is not None and cls is not nosuch:
                    r.fail(m, n.ast, norm(n.ast), "an unknown option must be reported with NoSuchOptionException, not %s" % cls.name)
                else:
                    r.ok("%s: raises %s" % (m.short, cls.name))
            else:
                r.fail(m, n.ast, norm(n.ast), "the parser raises %s, which is not one of the documented parse errors" % (getattr(cls, "name", None) or getattr(cls, "__name__", None) or norm(n.ast.exc)))

    # ---------------------------------------------------------------- R4
    r = ctx.rule("C02-R4", "EXC", "a value that does not convert surfaces as ValueError: every builtin conversion in "
                 "utils.string sits in a try that covers all classes it can raise and re-raises ValueError", reference=2)
    conversion_exc_rule(ctx, r)

    # ---------------------------------------------------------------- R5
    r = ctx.rule("C02-R5", "RANGE", "the by-position existence test bounds the index on both sides (the parser asks "
                 "for position len-1, which is -1 when nothing was collected)", reference=2)
    for cname in ("clikit.api.args.format.args_format.ArgsFormat", "clikit.api.args.format.args_format_builder.ArgsFormatBuilder"):
        c = ctx.cls(cname)
        m = c.methods.get("has_argument")
        ctx.require(m is not None, "%s.has_argument missing" % c.name)
        cfg = ctx.cfg(m)
        found = False
        for ret in q.returns(m):
            rn = cfg.node_of(ret)
            g = guarded_by(cfg, rn, lambda e: isinstance(e, ast.Call) and isinstance(e.func, ast.Name) and e.func.id == "isinstance" and len(e.args) == 2 and norm(e.args[1]) == "int", polarity=True)
            if g is None:
                continue
            found = True
            v = ret.value
            lower = upper = False
            for cmp_ in [x for x in walk_no_nested(v) if isinstance(x, ast.Compare)]:
                chain = [cmp_.left] + list(cmp_.comparators)
                for i, op in enumerate(cmp_.ops):
                    a, b = chain[i], chain[i + 1]
                    is_len = lambda e: isinstance(e, ast.Call) and isinstance(e.func, ast.Name) and e.func.id == "len"
                    is_zero = lambda e: isinstance(e, ast.Constant) and e.value in (0, -1)
                    if (isinstance(op, (ast.Lt, ast.LtE)) and is_len(b)) or (isinstance(op, (ast.Gt, ast.GtE)) and is_len(a)):
                        upper = True
                    if (isinstance(op, (ast.LtE, ast.Lt)) and is_zero(a)) or (isinstance(op, (ast.GtE, ast.Gt)) and is_zero(b)):
                        lower = True
            if lower and upper:
                r.ok("%s.has_argument(int): %s" % (c.name, norm(v)))
            else:
                r.fail(m, ret, norm(ret), "%s.has_argument(int) has no %s bound: has_argument(-1) is True for any format, and get_argument(-1) then "
                       "raises IndexError (format without arguments) out of the parser" % (c.name, "lower" if not lower else "upper"))
        if not found:
            r.fail(m, m.node, "no int arm", "%s.has_argument has no by-position arm" % c.name)
    # ---------------------------------------------------------------- R6
    from .c05 import scratch_rule

    r = ctx.rule("C02-R6", "RESET", "what one parse collected cannot influence the verdict on the next line: the "
                 "parser's scratch attributes are re-initialised before their first use, also after a parse that "
                 "ended in an error (same rule as C05-R1)", reference=2)
    scratch_rule(ctx, r, parse)
    # ---------------------------------------------------------------- R7
    from .c01 import separator_facts, after_separator_total

    r = ctx.rule("C02-R7", "GUARD", "surplus positionals after '--' are counted: with the separator flag cleared every "
                 "drawn token reaches the positional parse, none is swallowed (same rule as the last clause of C01-R3)", reference=1)
    pm_, cfg_, flag_, opt_calls_ = separator_facts(ctx)
    if flag_ is None:
        r.fail(pm_, pm_.node, "no separator flag", "_parse has no flag that is cleared at '--'")
    else:
        after_separator_total(ctx, r, pm_, cfg_, flag_, opt_calls_)
    # ---------------------------------------------------------------- R8
    r = ctx.rule("C02-R8", "EXC", "no IndexError escapes for an empty token: a constant index into a value freshly drawn from "
                 "the token list (pop / next) is, on every feasible path from the draw, behind a test that the value is "
                 "not empty (or inside a handler for IndexError)", reference=2)
    drawn_index_rule(ctx, r, [m for m in parser.methods.values()])
    # ---------------------------------------------------------------- R9
    r = ctx.rule("C02-R9", "ORDER", "the test 'a value was given to an option that accepts none' sees the value as given: "
                 "no assignment of None to it can reach the test except under an identity test with a non-string "
                 "sentinel (an empty attached value, '--flag=', is still a value)", reference=2)
    value_as_given_rule(ctx, r, parser)
    # ---------------------------------------------------------------- R10
    from .c01 import sentinel_loops

    r = ctx.rule("C02-R10", "SENTINEL", "surplus positionals are detected also when one of them is the empty string: loops over values "
                 "drawn with next(it, None) end on that sentinel, not on a falsy value (same rule as C01-R6)", reference=2)
    sentinel_loops(ctx, r, [f for f in p.all_functions() if f.module.name.startswith("clikit.args")])
    if r.n == 0:
        r.vacuous_ok = True

    # ---------------------------------------------------------------- R11
    r = ctx.rule("C02-R11", "GUARD", "a missing required argument is looked for in every format: the scan over the arguments that filters with is_required() "
                 "and 'not collected' is not under any test (a format-level predicate such as has_required_argument() is false as soon as one "
                 "argument is optional)", reference=1)
    pcfg = ctx.cfg(parse)
    scans = [n for n in pcfg.nodes if n.kind == "stmt" and n.ast is not None and any(isinstance(c, ast.Call) and isinstance(c.func, ast.Attribute) and c.func.attr == "is_required" for c in ast.walk(n.ast))
             and any(isinstance(x, (ast.ListComp, ast.GeneratorExp, ast.For)) for x in ast.walk(n.ast))]
    scans += [n for n in pcfg.nodes if n.kind == "for" and any(isinstance(c, ast.Call) and isinstance(c.func, ast.Attribute) and c.func.attr == "is_required" for c in ast.walk(n.ast))]
    # the scan may sit in a private helper called from parse
    helper_calls = []
    if not scans:
        for c in q.calls(parse):
            if isinstance(c.func, ast.Attribute) and isinstance(c.func.value, ast.Name) and c.func.value.id == "self" and c.func.attr in parser.methods:
                h = parser.methods[c.func.attr]
                if any(isinstance(x, ast.Call) and isinstance(x.func, ast.Attribute) and x.func.attr == "is_required" for x in ast.walk(h.node)):
                    helper_calls += pcfg.nodes_of(c)
    if not scans and not helper_calls:
        r.fail(parse, parse.node, "no required-argument scan", "parse() never looks for required arguments that were not given")
    for n in scans + helper_calls:
        doms = [e for e in pcfg.nodes if e.kind in ("T", "F") and pcfg.dominates(e.id, n.id) and e.ast is not None and "lenient" not in q.names_in(e.ast)]
        if doms:
            r.fail(parse, n.ast, "required-argument scan under `%s`" % norm(doms[0].ast), "parse() looks for missing required arguments only when %s%s: for formats where that test is false "
                   "a line without its required argument is accepted" % ("" if doms[0].kind == "T" else "not ", norm(doms[0].ast)))
        else:
            r.ok("%s: required-argument scan is unconditional" % parse.short)

    # ---------------------------------------------------------------- R12
    from .c05 import explicit_mode_rule

    r = ctx.rule("C02-R12", "SENTINEL", "strict means strict: the facade Command.parse replaces the mode by the config's setting only when none was given "
                 "(`is None`), never with `or` (same rule as C05-R5)", reference=1)
    explicit_mode_rule(ctx, r)

    # ---------------------------------------------------------------- R13
    r = ctx.rule("C02-R13", "EXC", "what is raised is an exception object: every `raise f(...)` whose f is a function of the package (an error factory) gets a value back on "
                 "every path of f - no path of a factory falls off its end or returns nothing (`raise None` is a TypeError, which escapes in strict and lenient mode alike)", reference=15)
    for fn in [f for f in p.all_functions() if f.module.name.startswith(("clikit.args", "clikit.api.args", "clikit.resolver", "clikit.api.resolver", "clikit.api.command"))]:
        for rz in q.raises(fn):
            if not isinstance(rz.exc, ast.Call):
                continue
            cs = cg.site_for(fn, rz.exc)
            for t in (cs.targets if cs is not None else []):
                if t.name == "__init__" or getattr(t, "is_lambda", False):
                    continue
                tcfg = ctx.cfg(t)
                valued = {n.id for n in tcfg.nodes if n.kind == "return" and n.ast.value is not None and not (isinstance(n.ast.value, ast.Constant) and n.ast.value.value is None)}
                bare = [n for n in tcfg.nodes if n.kind == "return" and n.id not in valued]
                falls = tcfg.exit.id in tcfg.reach([tcfg.entry.id], blocked=valued | {n.id for n in bare})
                if bare or falls:
                    r.fail(t, (bare[0].ast if bare else t.node), "%s returns nothing" % t.short, "%s is raised from (%s) but has a path that returns no exception object: `raise None` is a TypeError - it is neither of the "
                           "documented parse errors and is not swallowed in lenient mode" % (t.short, fn.short))
                else:
                    r.ok("%s: raise %s(...) - the factory returns a value on every path" % (fn.short, t.short))

    # ---------------------------------------------------------------- R14
    r = ctx.rule("C02-R14", "GUARD", "'a missing required value ... raises the cannot-parse error': the requires-a-value error depends on nothing but the value being absent and the "
                 "option requiring one - no other predicate of the option (multi-valued, optional, ...) stands between `value is None` and the raise", reference=1)
    n14 = 0
    for m in sorted(parser.methods.values(), key=lambda f: f.name):
        cfg = ctx.cfg(m)
        for rz in q.raises(m):
            if rz.exc is None or "requires_value" not in norm(rz.exc):
                continue
            n14 += 1
            for rn in cfg.nodes_of(rz):
                extra = []
                for e in cfg.nodes:
                    if e.kind not in ("T", "F") or e.ast is None or not cfg.dominates(e.id, rn.id):
                        continue
                    for x in walk_no_nested(e.ast):
                        if isinstance(x, ast.Call) and isinstance(x.func, ast.Attribute) and x.func.attr.startswith(("is_", "accepts_")) and x.func.attr != "is_value_required" \
                                and not (isinstance(x.func.value, ast.Name) and x.func.value.id in ("self", "fmt")):
                            extra.append((e, x))
                if extra:
                    e, x = extra[0]
                    r.fail(m, rz, "requires-value raise under %s%s" % ("" if e.kind == "T" else "not ", norm(x)), "%s raises the requires-a-value error only when %s%s as well: an option that requires a value and %s is "
                           "accepted without one (bare '--opt', '--opt=')" % (m.short, "" if e.kind == "T" else "not ", norm(x), "is not so" if e.kind == "T" else "is so"))
                else:
                    r.ok("%s: %s depends on the value and is_value_required() only" % (m.short, norm(rz)[:60]))
    ctx.require(n14 >= 1, "the requires-a-value raise of the parser was not found")
    ctx.borrow("c05", "C05-R8", "C02-R15", "'strict raises, lenient never': the verdict on a line is computed from that line's tokens alone - a configuration does not keep a default parser to share between commands and threads (two overlapping parses on one parser mix their scratch state: a line missing a required argument is accepted with the other line's value) (same rule as C05-R8)")
    ctx.borrow("c17", "C17-R2", "C02-R16", "'strict raises': a command put into lenient mode for one help request is strict again afterwards, on every exit - otherwise malformed lines are accepted for the rest of the process")
    return ctx.results


def value_as_given_rule(ctx, r, parser):
    """ORDER rule shared with C01."""
    for m in parser.methods.values():
        cfg = ctx.cfg(m)
        for rz in q.raises(m):
            if rz.exc is None or "not_accept" not in norm(rz.exc):
                continue
            for rn in cfg.nodes_of(rz):
                g = guarded_by(cfg, rn, lambda e: isinstance(e, ast.Compare) and isinstance(e.ops[0], ast.IsNot) and isinstance(e.comparators[0], ast.Constant)
                               and e.comparators[0].value is None and isinstance(e.left, ast.Name), polarity=True)
                if g is None:
                    r.fail(m, rz, norm(rz) + " unguarded", "the value-misuse error is not raised under a `<value> is not None` test")
                    continue
                x = g.ast.left.id
                bad = None
                for w in cfg.writes(lambda t: t == x):
                    a = w.ast
                    if not (isinstance(a, ast.Assign) and isinstance(a.value, ast.Constant) and a.value.value is None):
                        continue
                    if g.id not in cfg.reach([w.id]):
                        continue
                    sentinel = guarded_by(cfg, w, lambda e: isinstance(e, ast.Compare) and isinstance(e.ops[0], ast.Is) and isinstance(e.left, ast.Name) and e.left.id == x
                                          and isinstance(e.comparators[0], ast.Constant) and not isinstance(e.comparators[0].value, str), polarity=True, kill_names=lambda e: set())
                    if sentinel is None:
                        bad = w
                        break
                if bad is not None:
                    r.fail(m, bad.ast, norm(bad.ast) + " before value-misuse test", "%s can set %s to None for a string that was given, before the test that rejects a value on "
                           "an option accepting none: '--flag=' is accepted, and '--opt= next' takes the next token as the value" % (m.short, x))
                else:
                    r.ok("%s: `%s` sees %s as given" % (m.short, norm(g.ast), x))
    # the look-ahead for a value (drawing the next token) happens only when NO value was attached: same discipline for the
    # `<value> is None` test that guards the draw
    for m in parser.methods.values():
        cfg = ctx.cfg(m)
        prm = set(m.params)
        draws = [n for n in cfg.nodes if n.kind == "stmt" and isinstance(n.ast, ast.Assign) and isinstance(n.ast.value, ast.Call) and isinstance(n.ast.value.func, ast.Attribute)
                 and n.ast.value.func.attr == "pop"]
        for d in draws:
            g = guarded_by(cfg, d, lambda e: isinstance(e, ast.Compare) and isinstance(e.ops[0], ast.Is) and isinstance(e.comparators[0], ast.Constant)
                           and e.comparators[0].value is None and isinstance(e.left, ast.Name) and e.left.id in prm, polarity=True, kill_names=lambda e: set())
            if g is None:
                continue
            x = g.ast.left.id
            bad = None
            for w in cfg.writes(lambda t: t == x):
                a = w.ast
                if not (isinstance(a, ast.Assign) and isinstance(a.value, ast.Constant) and a.value.value is None):
                    continue
                if g.id not in cfg.reach([w.id]):
                    continue
                sentinel = guarded_by(cfg, w, lambda e: isinstance(e, ast.Compare) and isinstance(e.ops[0], ast.Is) and isinstance(e.left, ast.Name) and e.left.id == x
                                      and isinstance(e.comparators[0], ast.Constant) and not isinstance(e.comparators[0].value, str), polarity=True, kill_names=lambda e: set())
                if sentinel is None:
                    bad = w
                    break
            if bad is not None:
                r.fail(m, bad.ast, norm(bad.ast) + " before the value look-ahead", "%s can set %s to None for a string that was given, before the test that decides whether to take the NEXT token as "
                       "the value: after '--opt=' (an explicitly empty value) the following positional is swallowed as the option's value" % (m.short, x))
            else:
                r.ok("%s: look-ahead `%s` sees %s as given" % (m.short, norm(g.ast), x))


def _parser_facts(ctx):
    p, cg = ctx.p, ctx.cg
    parser = ctx.cls("clikit.args.default_args_parser.DefaultArgsParser")
    parse = parser.methods.get("parse")
    inner = parser.methods.get("_parse")
    ctx.require(parse and inner, "DefaultArgsParser.parse/_parse missing")
    cannot = ctx.cls("clikit.api.args.exceptions.CannotParseArgsException")
    nosuch = ctx.cls("clikit.api.args.exceptions.NoSuchOptionException")
    pmeth = [m for m in cg.reachable([parse], stop=lambda f: f.cls is None or parser not in f.cls.mro).values() if f_in(m, parser)]
    return p, cg, parser, parse, inner, cannot, nosuch, pmeth


def lenient_total_rule(ctx, r):
    """EXC rule shared with C09 (the help switch is found through a lenient parse of the whole line)."""
    p, cg, parser, parse, inner, cannot, nosuch, pmeth = _parser_facts(ctx)
    # is the call of _parse inside such a try?
    cfgp = ctx.cfg(parse)
    protected = set()
    for cs in cg.sites_in(parse):
        if inner in cs.targets:
            for cn in cfgp.nodes_of(cs.node):
                hs = [cfgp.nodes[s] for s, k in cfgp.succ[cn.id] if k == "e" and cfgp.nodes[s].kind == "except"]
                cover = set()
                for h in hs:
                    for c in cfgp._handler_classes(h.ast) or [BaseException]:
                        if c in (cannot, nosuch):
                            cover.add(c)
                        elif isinstance(c, type) and issubclass(RuntimeError, c):
                            cover.update({cannot, nosuch})
                if {cannot, nosuch} <= cover:
                    for f in cg.reachable([inner], stop=lambda f: f.cls is None or parser not in f.cls.mro).values():
                        protected.add(f.qualname)
    if protected:
        r.ok("parse: the call of _parse is under a handler for both parse errors (%d methods protected)" % len(protected))
    else:
        r.fail(parse, parse.node, "unprotected _parse", "parse() does not catch both parse errors around _parse: they escape in lenient mode")
    for m in pmeth:
        cfg = ctx.cfg(m)
        for n in cfg.nodes:
            if n.kind != "raise" or n.ast.exc is None:
                continue
            cls = cfg._raised_class(n.ast, None)
            if cls not in (cannot, nosuch):
                continue
            strict = guarded_by(cfg, n, _lenient_cond, polarity=False, kill_names=lambda e: {"lenient"}) is not None
            if strict:
                r.ok("%s: %s in a strict arm" % (m.short, norm(n.ast)[:60]))
            elif m.qualname in protected:
                r.ok("%s: %s under parse()'s handler" % (m.short, norm(n.ast)[:60]))
            else:
                r.fail(m, n.ast, norm(n.ast), "%s can be raised in lenient mode (not in a strict arm, not under the handler in parse())" % cls.name)
    # guarded lookups
    pairs = {"get_option": "has_option", "get_argument": "has_argument"}
    for m in pmeth:
        cfg = ctx.cfg(m)
        for c in q.calls(m):
            if not (isinstance(c.func, ast.Attribute) and c.func.attr in pairs and c.args):
                continue
            key = norm(c.args[0])
            recv = norm(c.func.value)
            has = pairs[c.func.attr]
            g = None
            for cn in cfg.nodes_of(c):
                g = guarded_by(cfg, cn, lambda e: isinstance(e, ast.Call) and isinstance(e.func, ast.Attribute) and e.func.attr == has
                               and norm(e.func.value) == recv and e.args and norm(e.args[0]) == key, polarity=True)
                # the guard may be an earlier conjunct of the same condition
                if g is None and cn.kind == "cond":
                    g = guarded_by(cfg, cn, lambda e: isinstance(e, ast.Call) and isinstance(e.func, ast.Attribute) and e.func.attr == has
                                   and e.args and norm(e.args[0]) == key, polarity=True)
            desc = "%s: %s" % (m.short, norm(c))
            if g is not None:
                r.ok(desc + " under " + has)
            elif m.qualname in protected and c.func.attr == "get_option":
                r.ok(desc + " (NoSuchOption caught by parse())")
            else:
                r.fail(m, c, norm(c), "%s raises if the name is unknown and is not guarded by %s(%s): an undocumented / lenient-mode exception escapes" % (norm(c.func), has, key))
    # Args.set_* called from parse: guarded by has_* on the same key
    for cs in cg.sites_in(parse):
        for t in cs.targets:
            if t.name in ("set_option", "set_argument") and cs.node.args:
                has = "has_option" if t.name == "set_option" else "has_argument"
                key = norm(cs.node.args[0])
                g = None
                for cn in cfgp.nodes_of(cs.node):
                    g = guarded_by(cfgp, cn, lambda e: isinstance(e, ast.Call) and isinstance(e.func, ast.Attribute) and e.func.attr == has and e.args and norm(e.args[0]) == key, polarity=True)
                if g is not None:
                    r.ok("parse: %s under %s(%s)" % (norm(cs.node.func), has, key))
                else:
                    r.fail(parse, cs.node, norm(cs.node), "%s looks the name up in the format and raises if it is unknown; not guarded by %s" % (t.short, has))


def conversion_exc_rule(ctx, r):
    """EXC rule shared with C07: builtin conversions in utils.string surface as ValueError."""
    p = ctx.p
    smod = p.modules.get("clikit.utils.string")
    ctx.require(smod is not None, "clikit.utils.string missing")
    fns, binds = converter_helpers(smod)
    for fn in fns:
        cfg = ctx.cfg(fn)
        for c in q.calls(fn):
            convs = None
            if isinstance(c.func, ast.Name) and c.func.id in IMPLICIT:
                convs = {c.func.id}
            elif isinstance(c.func, ast.Name) and (fn.name, c.func.id) in binds:
                # the conversion is a parameter of a shared helper: it stands for every builtin a converter passes in
                convs = binds[(fn.name, c.func.id)]
            if convs:
                need = {e for b in convs for e in IMPLICIT[b]}
                covered = set()
                raises_value_error = True
                for cn in cfg.nodes_of(c):
                    for s, k in cfg.succ[cn.id]:
                        sn = cfg.nodes[s]
                        if k == "e" and sn.kind == "except":
                            caught = cfg._handler_classes(sn.ast)
                            for e in need:
                                if caught == [] or any(isinstance(x, type) and issubclass(e, x) for x in caught):
                                    covered.add(e)
                            # handler must raise ValueError
                            hr = [x for x in walk_no_nested(sn.ast) if isinstance(x, ast.Raise)]
                            if not hr or not all(x.exc is not None and norm(x.exc).startswith("ValueError") for x in hr):
                                raises_value_error = False
                missing = need - covered
                desc = "%s: %s" % (fn.short, norm(c))
                if not missing and raises_value_error:
                    r.ok(desc + " covered for " + ", ".join(sorted(e.__name__ for e in need)))
                elif missing:
                    r.fail(fn, c, norm(c), "%s can raise %s (e.g. for None: an option with an optional value given without one), which is not "
                           "converted to ValueError" % (norm(c), ", ".join(sorted(e.__name__ for e in missing))))
                else:
                    r.fail(fn, c, norm(c) + " handler", "the handler around %s does not raise ValueError" % norm(c))
        # every explicit raise in the converters is ValueError
        for n in q.raises(fn):
            if n.exc is not None and not norm(n.exc).startswith("ValueError"):
                r.fail(fn, n, norm(n), "converter raises %s instead of ValueError" % norm(n.exc)[:40])


def converter_helpers(smod):
    """the converters of utils.string (parse_*) plus the module-level helpers they delegate to; and, for a helper, which builtin
    conversions each of its parameters is bound to at the converters' call sites: {(helper, param): {"int", ...}}"""
    fns = [f for f in smod.functions.values() if f.name.startswith("parse_")]
    binds = {}
    work = list(fns)
    while work:
        fn = work.pop()
        for c in q.calls(fn):
            if isinstance(c.func, ast.Name) and c.func.id in smod.functions and c.func.id != fn.name:
                h = smod.functions[c.func.id]
                if h not in fns:
                    fns.append(h)
                    work.append(h)
                for i, a in enumerate(c.args):
                    if i < len(h.params):
                        b = a.id if isinstance(a, ast.Name) and a.id in IMPLICIT else None
                        if b is None and isinstance(a, ast.Name) and (fn.name, a.id) in binds:
                            binds.setdefault((h.name, h.params[i]), set()).update(binds[(fn.name, a.id)])
                        elif b is not None:
                            binds.setdefault((h.name, h.params[i]), set()).add(b)
                for kw in c.keywords:
                    if kw.arg and isinstance(kw.value, ast.Name) and kw.value.id in IMPLICIT:
                        binds.setdefault((h.name, kw.arg), set()).add(kw.value.id)
    return fns, binds


def _nonempty_fact(e, name):
    """polarity (True/False) of the edge of cond ``e`` on which local ``name`` is known to be a non-empty string, or None."""
    def is_x(n):
        return isinstance(n, ast.Name) and n.id == name
    if is_x(e):
        return True
    if isinstance(e, ast.UnaryOp) and isinstance(e.op, ast.Not) and is_x(e.operand):
        return False
    if isinstance(e, ast.Call) and isinstance(e.func, ast.Name) and e.func.id == "len" and e.args and is_x(e.args[0]):
        return True
    if isinstance(e, ast.Call) and isinstance(e.func, ast.Attribute) and e.func.attr == "startswith" and is_x(e.func.value) \
            and e.args and isinstance(e.args[0], ast.Constant) and e.args[0].value:
        return True
    if isinstance(e, ast.Compare) and len(e.ops) == 1:
        l, op, rr = e.left, e.ops[0], e.comparators[0]
        if isinstance(rr, ast.Constant) and isinstance(rr.value, str) and is_x(l):
            if isinstance(op, ast.Eq):
                return True if rr.value != "" else False
            if isinstance(op, ast.NotEq) and rr.value == "":
                return True
        if isinstance(l, ast.Constant) and isinstance(l.value, str) and is_x(rr):
            if isinstance(op, ast.Eq):
                return True if l.value != "" else False
            if isinstance(op, ast.NotEq) and l.value == "":
                return True
        if isinstance(l, ast.Call) and isinstance(l.func, ast.Name) and l.func.id == "len" and l.args and is_x(l.args[0]) and isinstance(rr, ast.Constant) and isinstance(rr.value, int):
            if isinstance(op, ast.Gt) and rr.value >= 0:
                return True
            if isinstance(op, ast.GtE) and rr.value >= 1:
                return True
            if isinstance(op, ast.Eq) and rr.value >= 1:
                return True
            if isinstance(op, ast.NotEq) and rr.value == 0:
                return True
            if isinstance(op, ast.Eq) and rr.value == 0:
                return False
            if isinstance(op, ast.Lt) and rr.value <= 1 and rr.value >= 0:
                return False
        # X.find(s) == 0 with a non-empty constant s
        if isinstance(l, ast.Call) and isinstance(l.func, ast.Attribute) and l.func.attr in ("find", "index") and is_x(l.func.value) and l.args \
                and isinstance(l.args[0], ast.Constant) and l.args[0].value and isinstance(rr, ast.Constant) and rr.value == 0 and isinstance(op, ast.Eq):
            return True
    return None


def drawn_index_rule(ctx, r, funcs):
    for m in funcs:
        cfg = ctx.cfg(m)
        draws = {}
        for n in cfg.nodes:
            a = n.ast
            if n.kind == "stmt" and isinstance(a, ast.Assign) and isinstance(a.targets[0], ast.Name) and isinstance(a.value, ast.Call):
                f = a.value.func
                if (isinstance(f, ast.Attribute) and f.attr == "pop") or (isinstance(f, ast.Name) and f.id == "next"):
                    draws.setdefault(a.targets[0].id, []).append(n)
        if not draws:
            continue
        flagconds = {}
        for c in cfg.conds():
            e = c.ast
            if isinstance(e, ast.Name):
                flagconds[c.id] = (e.id, True)
            elif isinstance(e, ast.UnaryOp) and isinstance(e.op, ast.Not) and isinstance(e.operand, ast.Name):
                flagconds[c.id] = (e.operand.id, False)
        for sub in walk_no_nested(m.node):
            if not (isinstance(sub, ast.Subscript) and isinstance(sub.ctx, ast.Load) and isinstance(sub.value, ast.Name) and sub.value.id in draws
                    and isinstance(sub.slice, ast.Constant) and isinstance(sub.slice.value, int)):
                continue
            x = sub.value.id
            writes = {w.id for w in cfg.writes(lambda t: t == x)}
            for site in cfg.nodes_of(sub):
                # handled IndexError?
                handled = False
                for s_, k in cfg.succ[site.id]:
                    sn = cfg.nodes[s_]
                    if k == "e" and sn.kind == "except":
                        caught = cfg._handler_classes(sn.ast)
                        if caught == [] or any(isinstance(c_, type) and issubclass(IndexError, c_) for c_ in caught):
                            handled = True
                if handled:
                    r.ok("%s: %s inside a handler for IndexError" % (m.short, norm(sub)))
                    continue
                bad = None
                npaths = 0
                for d in draws[x]:
                    try:
                        paths = cfg.paths(d.id, site.id)
                    except OverflowError:
                        bad = "too many paths"
                        break
                    for path in paths:
                        if any(w in writes and w != d.id for w in path[1:-1]):
                            continue  # another definition reaches on this path; judged from that definition
                        # feasibility on flag-only conditions
                        val = {}
                        feasible = True
                        fact = False
                        for i, nid in enumerate(path):
                            nd = cfg.nodes[nid]
                            if nd.kind in ("T", "F") and nd.cond is not None:
                                cnd = nd.cond
                                if cnd.id in flagconds:
                                    nm, pos = flagconds[cnd.id]
                                    v = (nd.kind == "T") == pos
                                    if nm in val and val[nm] != v:
                                        feasible = False
                                        break
                                    val[nm] = v
                                pol = _nonempty_fact(cnd.ast, x)
                                if pol is not None and (nd.kind == "T") == pol:
                                    fact = True
                            elif nd.kind in ("stmt", "for") and nd.ast is not None:
                                for w in list(val):
                                    if any(wn.id == nid for wn in cfg.writes(lambda t, w=w: t == w)):
                                        del val[w]
                        if not feasible:
                            continue
                        npaths += 1
                        if not fact:
                            bad = "path without a non-emptiness test"
                            break
                    if bad:
                        break
                if bad:
                    r.fail(m, sub, norm(sub), "%s indexes %s, drawn from the token list just before, where it can be the empty string (%s): "
                           "an empty token raises IndexError out of the parser, in strict and lenient mode alike" % (m.short, x, bad))
                else:
                    r.ok("%s: %s non-empty on all %d feasible path(s) from the draw" % (m.short, norm(sub), npaths))


def _strict_conjunct_guard(ctx, m, name_node):
    """``name_node`` (the Name 'lenient') is the operand of a `not` that is a top-level conjunct of an if-test
    whose body inevitably raises and which has no else branch; no other conjunct mentions 'lenient'."""
    par = getattr(name_node, "_parent", None)
    if not (isinstance(par, ast.UnaryOp) and isinstance(par.op, ast.Not)):
        return False
    top = getattr(par, "_parent", None)
    conj = [par]
    if isinstance(top, ast.BoolOp) and isinstance(top.op, ast.And):
        conj = list(top.values)
        ifnode = getattr(top, "_parent", None)
    else:
        ifnode = top
    if not isinstance(ifnode, ast.If) or ifnode.orelse:
        return False
    if (ifnode.test is not par) and (ifnode.test is not top):
        return False
    for c in conj:
        if c is not par and "lenient" in q.names_in(c):
            return False
    cfg = ctx.cfg(m)
    first = ifnode.body[0]
    ns = cfg.nodes_of(first) or [cfg.node_of(x) for x in walk_no_nested(first) if cfg.node_of(x) is not None][:1]
    return bool(ns) and all(n is not None and (n.kind == "raise" or cfg.inevitably_raises(n.id)) for n in ns)


def f_in(m, parser):
    return m.cls is not None and parser in m.cls.mro
