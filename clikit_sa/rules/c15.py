"""C15 - section outputs: no control codes without ANSI, plain lines end in a newline, erased sections re-printed in creation order."""
import ast

from ..loader import walk_no_nested, norm, is_self_attr
from .. import q
from .c11 import NewlineSummary

ESC = ("\x1b", "\x0d")


def has_control(node):
    for n in walk_no_nested(node):
        if isinstance(n, ast.Constant) and isinstance(n.value, str) and any(c in n.value for c in ESC):
            return True
    return False


def ansi_edges(cfg):
    """true edges of tests that establish 'this output is decorated'"""
    out = set()
    for e in cfg.nodes:
        if e.kind == "T" and isinstance(e.ast, ast.Call) and isinstance(e.ast.func, ast.Attribute) and e.ast.func.attr in ("supports_ansi", "force_ansi"):
            recv = e.ast.func.value
            # the decision belongs to the *output* (which also accounts for a formatter that disables ANSI)
            # or to the formatter's force flag - the raw stream's capability alone is not it
            if e.ast.func.attr == "supports_ansi" and not (isinstance(recv, ast.Name) and recv.id == "self"):
                continue
            out.add(e.id)
        if e.kind == "T" and is_self_attr(e.ast, "_format_output"):
            out.add(e.id)
    return out


def control_code_rule(ctx, rule_id, reference=None):
    p, cg = ctx.p, ctx.cg
    sec = ctx.cls("clikit.api.io.section_output.SectionOutput")
    out_cls = ctx.cls("clikit.api.io.output.Output")
    # ---------------------------------------------------------------- R1
    r = ctx.rule(rule_id, "GUARD", "a section output emits cursor-control codes only on paths guarded by the ANSI "
                 "test (directly, or because the emitting helper is only called from guarded sites)", reference=1)
    emitters = {}
    for name, m in sec.methods.items():
        cfg = ctx.cfg(m)
        sites = []
        for c in q.calls(m):
            if has_control(c) and isinstance(c.func, ast.Attribute) and "write" in c.func.attr:
                sites.append(c)
        if sites:
            emitters[m.qualname] = (m, sites)
    if not emitters:
        r.vacuous_ok = True
        r.note("SectionOutput emits no control codes any more")
    changed = True
    guarded_fn = {}
    for qn, (m, sites) in emitters.items():
        cfg = ctx.cfg(m)
        ae = ansi_edges(cfg)
        ok = all(ae and cfg.all_paths_hit(cfg.entry.id, ae, [n.id]) for c in sites for n in cfg.nodes_of(c))
        guarded_fn[qn] = ok
    for qn, (m, sites) in sorted(emitters.items()):
        if guarded_fn[qn]:
            r.ok("%s: %d control-code write(s) under the ANSI test" % (m.short, len(sites)))
            continue
        # interprocedural: every call site of the helper is guarded in its caller
        callers = [cs for cs in cg.callers.get(qn, []) if cs.caller.cls is not None and out_cls in cs.caller.cls.mro]
        bad = None
        for cs in callers:
            cfg = ctx.cfg(cs.caller)
            ae = ansi_edges(cfg)
            if not (ae and all(cfg.all_paths_hit(cfg.entry.id, ae, [n.id]) for n in cfg.nodes_of(cs.node))):
                bad = cs
        if callers and bad is None:
            r.ok("%s: control codes emitted only from ANSI-guarded call sites (%s)" % (m.short, ", ".join(sorted({c.caller.short for c in callers}))))
        else:
            where = bad.caller if bad else m
            node = bad.node if bad else sites[0]
            r.fail(where, node, norm(node)[:80], "cursor-control codes can be written on an output without ANSI support (%s is not guarded by the ANSI test)" %
                   (("the call in " + bad.caller.short) if bad else m.short))

    return r


def run(ctx):
    p, cg = ctx.p, ctx.cg
    sec = ctx.cls("clikit.api.io.section_output.SectionOutput")
    out_cls = ctx.cls("clikit.api.io.output.Output")
    stream_cls = ctx.cls("clikit.api.io.output_stream.OutputStream")

    control_code_rule(ctx, "C15-R1", reference=1)

    # ---------------------------------------------------------------- R2
    r = ctx.rule("C15-R2", "RANGE", "on a section output a line ends in exactly one newline, ANSI or not", reference=2)
    ns = NewlineSummary(ctx, stream_cls, out_cls)
    for name in ("write_line", "overwrite"):
        m = p.lookup_method(sec, name)
        if m is None:
            continue
        res = ns.summary(m, sec)
        if res == {1}:
            r.ok("SectionOutput.%s: newlines %s" % (name, sorted(res)))
        else:
            r.fail(m, m.node, "SectionOutput.%s newlines %s" % (name, sorted(res)), "SectionOutput.%s can write its text followed by %s newline(s): plain lines run together" % (name, sorted(res)))

    # ---------------------------------------------------------------- R3
    r = ctx.rule("C15-R3", "POLARITY", "sections below this one are erased and re-printed in creation order: newest-first "
                 "registration x forward scan until self x reversal", reference=3)
    init = sec.methods["__init__"]
    reg = None
    for c in q.calls(init):
        if isinstance(c.func, ast.Attribute) and c.func.attr in ("insert", "append") and any(isinstance(a, ast.Name) and a.id == "self" for a in c.args):
            reg = c
    ctx.require(reg is not None, "a new section is not registered in the shared section list")
    # the scanning method: the one that walks the kept section list (found by what it does, not by name)
    kept_attr = None
    for n in walk_no_nested(init.node):
        if isinstance(n, ast.Assign) and any(is_self_attr(t) for t in n.targets) and norm(n.value) == norm(reg.func.value):
            kept_attr = [t.attr for t in n.targets if is_self_attr(t)][0]
    pop = None
    for name, m in sec.methods.items():
        if name != "__init__" and kept_attr and any(is_self_attr(x, kept_attr) for x in walk_no_nested(m.node)) and \
                any(isinstance(n, ast.For) or (isinstance(n, ast.Subscript) and isinstance(n.slice, ast.Slice)) for n in walk_no_nested(m.node)):
            pop = m
    ctx.require(pop is not None, "no method of SectionOutput scans the shared section list")
    front = reg.func.attr == "insert" and isinstance(reg.args[0], ast.Constant) and reg.args[0].value == 0
    # the list registered into is the list scanned
    reg_list = norm(reg.func.value)
    kept = any(isinstance(n, ast.Assign) and any(is_self_attr(t) for t in n.targets) and norm(n.value) == reg_list for n in walk_no_nested(init.node))
    loops = [n for n in walk_no_nested(pop.node) if isinstance(n, ast.For)]
    slices = [n for n in walk_no_nested(pop.node) if isinstance(n, ast.Subscript) and isinstance(n.slice, ast.Slice) and n.slice.lower is None and n.slice.upper is not None
              and any(isinstance(c, ast.Call) and isinstance(c.func, ast.Attribute) and c.func.attr == "index" for c in walk_no_nested(n.slice.upper))]
    ctx.require(loops or slices, "no scan over the sections")

    def rev_in(node):
        return any((isinstance(x, ast.Call) and isinstance(x.func, ast.Name) and x.func.id == "reversed") or
                   (isinstance(x, ast.Subscript) and isinstance(x.slice, ast.Slice) and isinstance(x.slice.step, ast.UnaryOp)) for x in walk_no_nested(node))
    if loops:
        lp = loops[0]
        scan_rev = rev_in(lp.iter)
        until_self = any(isinstance(n, ast.If) and isinstance(n.test, ast.Compare) and isinstance(n.test.ops[0], ast.Is) and any(isinstance(b, ast.Break) for b in n.body) for n in lp.body)
        collect_append = any(isinstance(c.func, ast.Attribute) and c.func.attr == "append" for c in q.calls(lp))
        collect_front = any(isinstance(c.func, ast.Attribute) and c.func.attr == "insert" for c in q.calls(lp))
    else:
        # slice form: sections[: sections.index(self)] is 'forward until self'; the content is joined from it
        lp = slices[0]
        scan_rev = False
        until_self = True
        collect_append = True
        collect_front = False
    ret_rev = any(rev_in(ret.value) for ret in q.returns(pop) if ret.value is not None)
    reversals = int(front) + int(scan_rev) + int(collect_front) + int(ret_rev)
    desc = "register %s, scan %s%s, collect %s, return %s" % ("front" if front else "back", "reversed" if scan_rev else "forward", " until self" if until_self else "",
                                                         "front" if collect_front else "append", "reversed" if ret_rev else "as collected")
    if kept:
        r.ok("the list a section registers in is the list it scans")
    else:
        r.fail(init, reg, norm(reg), "a section registers itself in a list other than the one it scans for the sections below it")
    if until_self and front and not scan_rev:
        r.ok("scan covers exactly the sections created after this one (newest first)")
    else:
        r.fail(pop, lp, "scan: " + desc, "the scan does not cover exactly the sections created after this one (%s)" % desc)
    if reversals % 2 == 0 and (collect_append or collect_front):
        r.ok("erased sections are re-printed oldest first (%s)" % desc)
    else:
        r.fail(pop, pop.node, "order: " + desc, "the sections below are re-printed in reverse creation order (%s)" % desc)
    return ctx.results
