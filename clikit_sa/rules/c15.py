"""C15 - section outputs: no control codes without ANSI, plain lines end in a newline, erased sections re-printed in creation order."""
import ast

from ..loader import walk_no_nested, norm, is_self_attr
from .. import q
from .c11 import NewlineSummary

ESC = ("\x1b", "\x0d")


def has_control(node):
    for n in walk_no_nested(node):
        if isinstance(n, ast.Constant) and isinstance(n.value, str) and any(c in n.value for c in ESC):
            return True
    return False


def ansi_edges(cfg, cls=None):
    """true edges of tests that establish 'this output is decorated'"""
    out = set()
    for e in cfg.nodes:
        if e.kind == "T" and isinstance(e.ast, ast.Call) and isinstance(e.ast.func, ast.Attribute) and e.ast.func.attr in ("supports_ansi", "force_ansi"):
            recv = e.ast.func.value
            # the decision belongs to the *output* (which also accounts for a formatter that disables ANSI)
            # or to the formatter's force flag - the raw stream's capability alone is not it
            if e.ast.func.attr == "supports_ansi" and not (isinstance(recv, ast.Name) and recv.id == "self"):
                continue
            out.add(e.id)
        if e.kind == "T" and is_self_attr(e.ast, "_format_output"):
            out.add(e.id)
        # a private predicate of the class that combines the two tests: the edge on which (supports or force) must hold
        if cls is not None and e.kind in ("T", "F") and isinstance(e.ast, ast.Call) and isinstance(e.ast.func, ast.Attribute) and isinstance(e.ast.func.value, ast.Name) \
                and e.ast.func.value.id == "self" and e.ast.func.attr in cls.methods and not e.ast.args:
            h = cls.methods[e.ast.func.attr]
            rets = q.returns(h)
            if len(rets) == 1 and rets[0].value is not None:
                pol = _implies_ansi(rets[0].value)
                if pol is not None and (e.kind == "T") == pol:
                    out.add(e.id)
    return out


def _implies_ansi(expr):
    """True / False: the truth value of ``expr`` (a boolean combination of self.supports_ansi() and <formatter>.force_ansi()) under
    which 'supports or force' necessarily holds; None when neither value implies it or the expression has other atoms."""
    def ev(e, env):
        if isinstance(e, ast.Call) and isinstance(e.func, ast.Attribute) and e.func.attr in ("supports_ansi", "force_ansi") and not e.args:
            if e.func.attr == "supports_ansi" and not (isinstance(e.func.value, ast.Name) and e.func.value.id == "self"):
                raise ValueError
            return env[e.func.attr]
        if isinstance(e, ast.BoolOp):
            vals = [ev(v, env) for v in e.values]
            return all(vals) if isinstance(e.op, ast.And) else any(vals)
        if isinstance(e, ast.UnaryOp) and isinstance(e.op, ast.Not):
            return not ev(e.operand, env)
        raise ValueError
    try:
        table = [(ev(expr, {"supports_ansi": a, "force_ansi": b}), a or b) for a in (False, True) for b in (False, True)]
    except (ValueError, KeyError):
        return None
    for pol in (True, False):
        rows = [ansi for val, ansi in table if val == pol]
        if rows and all(rows):
            return pol
    return None


def _has_ceil(cls, e, depth=0):
    """the expression rounds up (math.ceil), directly or in a helper method of the class it calls"""
    for c in ast.walk(e):
        if isinstance(c, ast.Call):
            if norm(c.func).endswith("ceil"):
                return True
            if depth < 2 and isinstance(c.func, ast.Attribute) and isinstance(c.func.value, ast.Name) and c.func.value.id == "self" and c.func.attr in cls.methods:
                if any(ret.value is not None and _has_ceil(cls, ret.value, depth + 1) for ret in q.returns(cls.methods[c.func.attr])):
                    return True
    return False


def control_code_rule(ctx, rule_id, reference=None):
    p, cg = ctx.p, ctx.cg
    sec = ctx.cls("clikit.api.io.section_output.SectionOutput")
    out_cls = ctx.cls("clikit.api.io.output.Output")
    # ---------------------------------------------------------------- R1
    r = ctx.rule(rule_id, "GUARD", "a section output emits cursor-control codes only on paths guarded by the ANSI "
                 "test (directly, or because the emitting helper is only called from guarded sites)", reference=1)
    emitters = {}
    for name, m in sec.methods.items():
        cfg = ctx.cfg(m)
        sites = []
        for c in q.calls(m):
            if has_control(c) and isinstance(c.func, ast.Attribute) and "write" in c.func.attr:
                sites.append(c)
        if sites:
            emitters[m.qualname] = (m, sites)
    if not emitters:
        r.vacuous_ok = True
        r.note("SectionOutput emits no control codes any more")
    changed = True
    guarded_fn = {}
    for qn, (m, sites) in emitters.items():
        cfg = ctx.cfg(m)
        ae = ansi_edges(cfg, sec)
        ok = all(ae and cfg.all_paths_hit(cfg.entry.id, ae, [n.id]) for c in sites for n in cfg.nodes_of(c))
        guarded_fn[qn] = ok
    for qn, (m, sites) in sorted(emitters.items()):
        if guarded_fn[qn]:
            r.ok("%s: %d control-code write(s) under the ANSI test" % (m.short, len(sites)))
            continue
        # interprocedural: every call site of the helper is guarded in its caller
        callers = [cs for cs in cg.callers.get(qn, []) if cs.caller.cls is not None and out_cls in cs.caller.cls.mro]
        bad = None
        for cs in callers:
            cfg = ctx.cfg(cs.caller)
            ae = ansi_edges(cfg, cs.caller.cls)
            if not (ae and all(cfg.all_paths_hit(cfg.entry.id, ae, [n.id]) for n in cfg.nodes_of(cs.node))):
                bad = cs
        if callers and bad is None:
            r.ok("%s: control codes emitted only from ANSI-guarded call sites (%s)" % (m.short, ", ".join(sorted({c.caller.short for c in callers}))))
        else:
            where = bad.caller if bad else m
            node = bad.node if bad else sites[0]
            r.fail(where, node, norm(node)[:80], "cursor-control codes can be written on an output without ANSI support (%s is not guarded by the ANSI test)" %
                   (("the call in " + bad.caller.short) if bad else m.short))

    return r


def section_order_rule(ctx, rule_id, reference=None):
    """POLARITY rule (shared with C16: several progress bars on sections of one output). Returns the scanning method."""
    p, cg = ctx.p, ctx.cg
    sec = ctx.cls("clikit.api.io.section_output.SectionOutput")
    # ---------------------------------------------------------------- R3
    r = ctx.rule(rule_id, "POLARITY", "sections below this one are erased and re-printed in creation order: newest-first "
                 "registration x forward scan until self x reversal", reference=reference)
    init = sec.methods["__init__"]
    reg = None
    for c in q.calls(init):
        if isinstance(c.func, ast.Attribute) and c.func.attr in ("insert", "append") and any(isinstance(a, ast.Name) and a.id == "self" for a in c.args):
            reg = c
    ctx.require(reg is not None, "a new section is not registered in the shared section list")
    # the scanning method: the one that walks the kept section list (found by what it does, not by name)
    kept_attr = None
    for n in walk_no_nested(init.node):
        if isinstance(n, ast.Assign) and any(is_self_attr(t) for t in n.targets) and norm(n.value) == norm(reg.func.value):
            kept_attr = [t.attr for t in n.targets if is_self_attr(t)][0]
    pop = None
    def _takewhile_until_self(m_):
        return [c for c in ast.walk(m_.node) if isinstance(c, ast.Call) and norm(c.func).endswith("takewhile") and len(c.args) == 2 and isinstance(c.args[0], ast.Lambda)
                and isinstance(c.args[0].body, ast.Compare) and isinstance(c.args[0].body.ops[0], ast.IsNot) and any(isinstance(k, ast.Name) and k.id == "self" for k in [c.args[0].body.left] + c.args[0].body.comparators)]
    for name, m in sec.methods.items():
        if name != "__init__" and kept_attr and any(is_self_attr(x, kept_attr) for x in ast.walk(m.node)) and \
                (any(isinstance(n, ast.For) or (isinstance(n, ast.Subscript) and isinstance(n.slice, ast.Slice)) for n in walk_no_nested(m.node)) or _takewhile_until_self(m)):
            pop = m
    ctx.require(pop is not None, "no method of SectionOutput scans the shared section list")
    front = reg.func.attr == "insert" and isinstance(reg.args[0], ast.Constant) and reg.args[0].value == 0
    # the list registered into is the list scanned
    reg_list = norm(reg.func.value)
    kept = any(isinstance(n, ast.Assign) and any(is_self_attr(t) for t in n.targets) and norm(n.value) == reg_list for n in walk_no_nested(init.node))
    loops = [n for n in walk_no_nested(pop.node) if isinstance(n, ast.For)]
    slices = [n for n in walk_no_nested(pop.node) if isinstance(n, ast.Subscript) and isinstance(n.slice, ast.Slice) and n.slice.lower is None and n.slice.upper is not None
              and any(isinstance(c, ast.Call) and isinstance(c.func, ast.Attribute) and c.func.attr == "index" for c in walk_no_nested(n.slice.upper))]
    tws = _takewhile_until_self(pop)
    ctx.require(loops or slices or tws, "no scan over the sections")

    def rev_in(node):
        return any((isinstance(x, ast.Call) and isinstance(x.func, ast.Name) and x.func.id == "reversed") or
                   (isinstance(x, ast.Subscript) and isinstance(x.slice, ast.Slice) and isinstance(x.slice.step, ast.UnaryOp)) for x in walk_no_nested(node))
    if tws:
        # takewhile(lambda s: s is not self, <kept list>): forward until self; what is collected from it keeps that order
        lp = tws[0]
        scan_rev = rev_in(lp.args[1])
        until_self = True
        collect_append = True
        collect_front = False
    elif loops:
        lp = loops[0]
        scan_rev = rev_in(lp.iter)
        until_self = any(isinstance(n, ast.If) and isinstance(n.test, ast.Compare) and isinstance(n.test.ops[0], ast.Is) and any(isinstance(b, ast.Break) for b in n.body) for n in lp.body)
        collect_append = any(isinstance(c.func, ast.Attribute) and c.func.attr == "append" for c in q.calls(lp))
        collect_front = any(isinstance(c.func, ast.Attribute) and c.func.attr == "insert" for c in q.calls(lp))
    else:
        # slice form: sections[: sections.index(self)] is 'forward until self'; the content is joined from it
        lp = slices[0]
        scan_rev = False
        until_self = True
        collect_append = True
        collect_front = False
    ret_rev = any(rev_in(ret.value) for ret in q.returns(pop) if ret.value is not None)
    reversals = int(front) + int(scan_rev) + int(collect_front) + int(ret_rev)
    desc = "register %s, scan %s%s, collect %s, return %s" % ("front" if front else "back", "reversed" if scan_rev else "forward", " until self" if until_self else "",
                                                         "front" if collect_front else "append", "reversed" if ret_rev else "as collected")
    if kept:
        r.ok("the list a section registers in is the list it scans")
    else:
        r.fail(init, reg, norm(reg), "a section registers itself in a list other than the one it scans for the sections below it")
    if until_self and front and not scan_rev:
        r.ok("scan covers exactly the sections created after this one (newest first)")
    else:
        r.fail(pop, lp, "scan: " + desc, "the scan does not cover exactly the sections created after this one (%s)" % desc)
    if reversals % 2 == 0 and (collect_append or collect_front):
        r.ok("erased sections are re-printed oldest first (%s)" % desc)
    else:
        r.fail(pop, pop.node, "order: " + desc, "the sections below are re-printed in reverse creation order (%s)" % desc)
    return pop


def run(ctx):
    p, cg = ctx.p, ctx.cg
    sec = ctx.cls("clikit.api.io.section_output.SectionOutput")
    out_cls = ctx.cls("clikit.api.io.output.Output")
    stream_cls = ctx.cls("clikit.api.io.output_stream.OutputStream")

    control_code_rule(ctx, "C15-R1", reference=1)

    # ---------------------------------------------------------------- R2
    r = ctx.rule("C15-R2", "RANGE", "on a section output a line ends in exactly one newline, ANSI or not", reference=2)
    ns = NewlineSummary(ctx, stream_cls, out_cls)
    for name in ("write_line", "overwrite"):
        m = p.lookup_method(sec, name)
        if m is None:
            continue
        res = ns.summary(m, sec)
        if res == {1}:
            r.ok("SectionOutput.%s: newlines %s" % (name, sorted(res)))
        else:
            r.fail(m, m.node, "SectionOutput.%s newlines %s" % (name, sorted(res)), "SectionOutput.%s can write its text followed by %s newline(s): plain lines run together" % (name, sorted(res)))

    # ---------------------------------------------------------------- R3
    pop = section_order_rule(ctx, "C15-R3", reference=3)

    # ---------------------------------------------------------------- R4
    r = ctx.rule("C15-R4", "SIBLING", "what was recorded is re-printed as recorded: content is recorded with the indentation already applied, so every "
                 "re-print of erased sections (in write and in clear alike) goes to the base write with indentation switched off", reference=2)
    indented_record = any(isinstance(x, ast.BinOp) and isinstance(x.op, ast.Mult) and any(is_self_attr(y, "_indent") for y in (x.left, x.right))
                          for m in sec.methods.values() if m is not p.lookup_method(sec, "write") for x in ast.walk(m.node))
    n_rp = 0

    def _indent_off(call):
        wi = q.kwarg(call, "with_indent")
        if wi is None and len(call.args) > 3:
            wi = call.args[3]
        return isinstance(wi, ast.Constant) and wi.value is False

    # a helper of the class that hands its (first) parameter to the base write: a re-print through it is a re-print with the helper's indentation switch
    wrappers = {}
    for name, m in sec.methods.items():
        ps = [a for a in m.params if a != "self"]
        for cs in cg.sites_in(m):
            if cs.kind == "super" and cs.node.args and ps and isinstance(cs.node.args[0], ast.Name) and cs.node.args[0].id == ps[0] \
                    and isinstance(cs.node.func, ast.Attribute) and cs.node.func.attr == "write" and name != "write":
                wrappers[name] = _indent_off(cs.node)
    for name, m in sorted(sec.methods.items()):
        holders = {t.id for n in walk_no_nested(m.node) if isinstance(n, ast.Assign) and isinstance(n.value, ast.Call) and isinstance(n.value.func, ast.Attribute)
                   and n.value.func.attr == pop.name for t in n.targets if isinstance(t, ast.Name)}
        sites = [(cs.node, None) for cs in cg.sites_in(m) if cs.kind == "super" and cs.node.args]
        sites += [(c, wrappers[c.func.attr]) for c in q.calls(m) if isinstance(c.func, ast.Attribute) and (isinstance(c.func.value, ast.Name) and c.func.value.id == "self") and c.func.attr in wrappers and c.args]
        for call, via_off in sites:
            cs = type("S", (), {"node": call})
            a0 = cs.node.args[0]
            erased = (isinstance(a0, ast.Name) and a0.id in holders) or (isinstance(a0, ast.Call) and isinstance(a0.func, ast.Attribute) and a0.func.attr == pop.name)
            if not erased:
                continue
            n_rp += 1
            off = _indent_off(cs.node) if via_off is None else via_off
            if off or not indented_record:
                r.ok("%s: erased content re-printed with_indent=False" % m.short)
            else:
                r.fail(m, cs.node, "re-print of erased content indented again", "%s re-prints the erased sections through the indenting write: their lines were recorded with the indentation in "
                       "them, so after a clear / overwrite of an upper section everything below comes back shifted right" % m.short)
    if n_rp == 0:
        r.fail(pop, pop.node, "no re-print", "erased sections are never printed again")

    # ---------------------------------------------------------------- R5
    from .c17 import global_containers_rule, class_level_through_self

    r = ctx.rule("C15-R5", "OWNER", "'sections of one output': the registry of sections belongs to one Output object - no process-wide (class-level) "
                 "container of the I/O classes is mutated, directly or by handing it to a constructor that registers in it (same rule as C17-R6)", reference=1)
    global_containers_rule(ctx, r, mod_pred=lambda m: m.startswith("clikit.api.io"))
    class_level_through_self(ctx, r, mod_pred=lambda m: m.startswith("clikit.api.io"))
    if r.n == 0:
        # nothing class-level in the I/O classes: the registry is an instance attribute set in the constructor
        regs = [n for n in walk_no_nested(out_cls.methods["__init__"].node) if isinstance(n, ast.Assign) and isinstance(n.value, (ast.List, ast.Call)) and any(is_self_attr(t) and "section" in t.attr for t in n.targets)]
        if regs:
            r.ok("Output.__init__: %s per instance" % norm(regs[0]))
        else:
            r.fail(out_cls.methods["__init__"], out_cls.methods["__init__"].node, "no per-output registry", "the constructor of Output does not create the section registry")

    # ---------------------------------------------------------------- R6
    r = ctx.rule("C15-R6", "UNIT", "two units are kept apart: the row counter counts terminal ROWS (a long line wraps into several), the content list holds "
                 "logical LINES (two entries each). No single value is used both to cut the content list and to change the row counter / move the cursor; "
                 "and the row counter is only changed incrementally (+= rows, -= rows, = 0)", reference=2)
    # the row counter: the field add_content increments by ceil(len / width)
    row_fields = set()
    for m in sec.methods.values():
        for n in walk_no_nested(m.node):
            if isinstance(n, ast.AugAssign) and is_self_attr(n.target) and _has_ceil(sec, n.value):
                row_fields.add(n.target.attr)
    ctx.require(len(row_fields) == 1, "cannot identify the row counter of SectionOutput (field incremented by ceil(len / width)): %s" % sorted(row_fields))
    ROWS = next(iter(row_fields))
    content_fields = {n.func.value.attr for m in sec.methods.values() for n in walk_no_nested(m.node) if isinstance(n, ast.Call) and isinstance(n.func, ast.Attribute)
                      and n.func.attr in ("append", "extend") and is_self_attr(n.func.value)}
    # parameters of methods of the class that are rows: added to <x>.lines / to the row field
    row_params = {}
    for m in sec.methods.values():
        for n in walk_no_nested(m.node):
            if isinstance(n, ast.AugAssign) and isinstance(n.target, ast.Name) and n.target.id in m.params and any(isinstance(x, ast.Attribute) and x.attr in ("lines", ROWS) for x in ast.walk(n.value)):
                row_params.setdefault(m.name, set()).add(n.target.id)
    recomputed = []
    for name, m in sorted(sec.methods.items()):
        cfg = ctx.cfg(m)
        uses = {}  # var -> {"lines": [node], "rows": [node]}
        for nd in cfg.nodes:
            a = nd.ast
            if a is None or nd.kind in ("T", "F", "loop_body", "loop_exit", "finally", "with_exit", "loop", "except"):
                continue
            for x in walk_no_nested(a) if nd.kind != "for" else walk_no_nested(a.iter):
                if isinstance(x, ast.Subscript) and is_self_attr(x.value) and x.value.attr in content_fields:
                    for v in q.names_in(x.slice):
                        uses.setdefault(v, {}).setdefault("lines", []).append(nd)
                if isinstance(x, ast.AugAssign) and is_self_attr(x.target, ROWS):
                    for v in q.names_in(x.value):
                        uses.setdefault(v, {}).setdefault("rows", []).append(nd)
                if isinstance(x, ast.Call) and isinstance(x.func, ast.Attribute) and x.func.attr in row_params:
                    callee = sec.methods[x.func.attr]
                    for prm in row_params[x.func.attr]:
                        av = q.arg_for_param(x, callee, prm)
                        if av is not None:
                            for v in q.names_in(av):
                                uses.setdefault(v, {}).setdefault("rows", []).append(nd)
            if nd.kind == "stmt" and isinstance(a, ast.Assign) and any(is_self_attr(t, ROWS) for t in a.targets) and not (isinstance(a.value, ast.Constant) and a.value.value == 0) and name != "__init__":
                recomputed.append(a)
                r.fail(m, a, norm(a), "%s recomputes the row counter (%s) instead of changing it by the rows added or removed: computed from the number of content entries it is too small "
                       "as soon as a line wraps, and stale rows stay on the screen" % (m.short, norm(a)))
        for v, u in sorted(uses.items()):
            if v in ("self",) or "lines" not in u or "rows" not in u:
                continue
            # one definition of v reaching a use in each unit?
            defs = [w for w in cfg.writes(lambda t, v=v: t == v)] + ([cfg.entry] if v in m.params else [])
            clash = None
            for d in defs:
                others = {w.id for w in defs if w is not d and w is not cfg.entry}
                reach = cfg.reach([d.id], blocked=others)
                l_ = [n_ for n_ in u["lines"] if n_.id in reach and n_.id != d.id]
                r_ = [n_ for n_ in u["rows"] if n_.id in reach and n_.id != d.id]
                if l_ and r_:
                    clash = (d, l_[0], r_[0])
                    break
            if clash:
                d, l_, r_ = clash
                r.fail(m, r_.ast, "`%s` counts lines in `%s` and rows in `%s`" % (v, norm(l_.ast)[:40], norm(r_.ast)[:40]),
                       "%s uses one value, `%s`, as a number of logical lines (to cut self.%s: %s) and as a number of terminal rows (%s): when a cleared line is wider than the terminal "
                       "it occupies several rows, so too few rows are erased and subtracted - stale text stays on the screen and the section's row count no longer matches its content"
                       % (m.short, v, "/".join(sorted(content_fields)), norm(l_.ast)[:50], norm(r_.ast)[:50]))
            else:
                r.ok("%s: `%s` converted between lines and rows before it changes units" % (m.short, v))
    if not recomputed:
        r.ok("row counter self.%s changed only by += / -= / = 0" % ROWS)

    # ---------------------------------------------------------------- R7
    r = ctx.rule("C15-R7", "PAIR", "the record of a section is what was printed for it: in the decorated write, recording the text and printing it happen "
                 "on exactly the same paths (a write refused by the verbosity gate is neither printed nor recorded)", reference=1)
    w = p.lookup_method(sec, "write")
    ctx.require(w is not None and w.cls is sec, "SectionOutput.write missing")
    wcfg = ctx.cfg(w)
    text = q.param_names(w)[0]
    rec = [n for c in q.calls(w) if isinstance(c.func, ast.Attribute) and c.func.attr == "add_content" for n in wcfg.nodes_of(c)]
    prt = [n for cs in cg.sites_in(w) if cs.kind == "super" and cs.node.args and isinstance(cs.node.args[0], ast.Name) and cs.node.args[0].id == text
           and not isinstance(getattr(cs.node, "_parent", None), ast.Return) for n in wcfg.nodes_of(cs.node)]
    if not rec or not prt:
        r.fail(w, w.node, "no record/print pair", "SectionOutput.write does not both record and print its text in the decorated branch")
    else:
        for a in rec:
            paired = any((wcfg.dominates(a.id, b.id) and wcfg.post_dominated_by(a.id, {b.id})) or (wcfg.dominates(b.id, a.id) and wcfg.post_dominated_by(b.id, {a.id})) for b in prt)
            if paired:
                r.ok("%s: add_content and the print of the text are on the same paths" % w.short)
            else:
                r.fail(w, a.ast, "add_content not paired with the print", "%s can record text it does not print (or print text it does not record) - e.g. the recording comes before the verbosity gate: "
                       "the next overwrite or clear then erases one row too many, taking a line of the section above with it" % w.short)

    # ---------------------------------------------------------------- R8
    ctx.borrow("c11", "C11-R10", "C15-R8", "the rows a line occupies are counted on what is printed: the text is stripped for counting by the same engine that renders it, so that a "
               "tag-like word the engine prints literally is counted too (an under-counted wrapped line leaves a stale row)")

    # ---------------------------------------------------------------- R9
    r = ctx.rule("C15-R9", "INVALID", "the section's content is what the content list holds now: a field that remembers something computed from the content list is dropped on every path "
                 "that changes the list (full clear, partial clear, append)", reference=1)
    cfields = sorted(content_fields)
    memos = {}
    for name, m in sec.methods.items():
        for n in walk_no_nested(m.node):
            if isinstance(n, ast.Assign) and any(is_self_attr(t) for t in n.targets) and any(is_self_attr(x) and x.attr in cfields for x in ast.walk(n.value)):
                for t in n.targets:
                    if is_self_attr(t) and t.attr not in cfields and t.attr != ROWS:
                        memos[t.attr] = (m, n)
    if not memos:
        r.ok("SectionOutput keeps nothing derived from self.%s (content is joined on demand)" % "/".join(cfields))
    for fld, (gm, gn) in sorted(memos.items()):
        for name, m in sorted(sec.methods.items()):
            if name == "__init__" or m is gm:
                continue
            cfg = ctx.cfg(m)
            muts = [n for n in cfg.nodes if n.kind == "stmt" and n.ast is not None and (
                (isinstance(n.ast, ast.Delete) and any(isinstance(t, ast.Subscript) and is_self_attr(t.value) and t.value.attr in cfields for t in n.ast.targets))
                or (isinstance(n.ast, ast.Assign) and any(is_self_attr(t) and t.attr in cfields for t in n.ast.targets))
                or any(isinstance(c, ast.Call) and isinstance(c.func, ast.Attribute) and c.func.attr in q.MUTATORS and is_self_attr(c.func.value) and c.func.value.attr in cfields for c in walk_no_nested(n.ast)))]
            if not muts:
                continue
            resets = {n.id for n in cfg.nodes if n.kind == "stmt" and isinstance(n.ast, ast.Assign) and any(is_self_attr(t, fld) for t in n.ast.targets)}
            stale = [w for w in muts if not (resets and (cfg.post_dominated_by(w.id, resets) or any(cfg.dominates(x, w.id) and False for x in resets)))]
            if stale:
                r.fail(m, stale[0].ast, "self.%s not dropped after %s" % (fld, norm(stale[0].ast)[:50]), "%s changes the content list (%s) on a path that does not reset self.%s, which %s computed from the list: "
                       "cleared lines come back on the screen at the next repaint from above" % (m.short, norm(stale[0].ast)[:60], fld, gm.short))
            else:
                r.ok("%s: self.%s reset after every change of the content list" % (m.short, fld))

    # ---------------------------------------------------------------- R10
    r = ctx.rule("C15-R10", "KEY", "what is measured is what is recorded: the string whose rows are added to the row counter is the very string appended to the content list "
                 "(indentation included)", reference=1)
    n10 = 0
    for name, m in sorted(sec.methods.items()):
        for loop in [n for n in walk_no_nested(m.node) if isinstance(n, ast.For)]:
            incs = [n for n in walk_no_nested(loop) if isinstance(n, ast.AugAssign) and is_self_attr(n.target, ROWS) and isinstance(n.op, ast.Add)]
            apps = [c for c in walk_no_nested(loop) if isinstance(c, ast.Call) and isinstance(c.func, ast.Attribute) and c.func.attr in ("append", "extend") and is_self_attr(c.func.value) and c.func.value.attr in content_fields
                    and c.args and not isinstance(c.args[0], ast.Constant)]
            if not incs or not apps:
                continue
            n10 += 1
            measured = set()
            for inc in incs:
                for c in ast.walk(inc.value):
                    if isinstance(c, ast.Call) and c.args:
                        measured |= {norm(a) for a in c.args}
                measured |= {norm(x) for x in ast.walk(inc.value) if isinstance(x, ast.Name)}
            recorded = set()
            for c in apps:
                if c.func.attr == "extend" and isinstance(c.args[0], (ast.Tuple, ast.List)):
                    recorded |= {norm(e_) for e_ in c.args[0].elts if not isinstance(e_, ast.Constant)}
                else:
                    recorded.add(norm(c.args[0]))
            if recorded <= measured:
                r.ok("%s: rows of %s counted, %s recorded" % (m.short, ", ".join(sorted(recorded)), ", ".join(sorted(recorded))))
            else:
                r.fail(m, apps[0], "recorded %s but measured %s" % (", ".join(sorted(recorded)), ", ".join(sorted(measured - {"self"}))[:60]), "%s records `%s` but counts the rows of something else: when the "
                       "difference (the indentation) pushes a line over the terminal width the section is under-counted by a row and stale text stays" % (m.short, ", ".join(sorted(recorded))))
    if n10 == 0:
        r.fail(list(sec.methods.values())[0], sec.node, "no record loop", "no loop that counts rows and records lines found in SectionOutput")
    # ---------------------------------------------------------------- R11
    r = ctx.rule("C15-R11", "UNIT", "the content list holds (line, newline) pairs: a loop that counts terminal rows over (a slice of) the recorded content takes every second "
                 "entry (`[::2]`) - a filter on the entries' text is not the same thing (a blank recorded line is a line and occupies a row)", reference=1)
    n11 = 0
    for name, m in sorted(sec.methods.items()):
        # locals cut out of the content list
        cuts = {t.id for n in walk_no_nested(m.node) if isinstance(n, ast.Assign) and isinstance(n.value, ast.Subscript) and is_self_attr(n.value.value) and n.value.value.attr in content_fields
                for t in n.targets if isinstance(t, ast.Name)}
        for comp in [n for n in ast.walk(m.node) if isinstance(n, (ast.GeneratorExp, ast.ListComp, ast.For))]:
            gens = comp.generators if not isinstance(comp, ast.For) else [comp]
            for g in gens:
                it = g.iter
                base = it.value if isinstance(it, ast.Subscript) else it
                from_content = (isinstance(base, ast.Name) and base.id in cuts) or (is_self_attr(base) and base.attr in content_fields)
                body = [comp.elt] if not isinstance(comp, ast.For) else comp.body
                counts = any(isinstance(x, ast.Call) and ((isinstance(x.func, ast.Attribute) and x.func.attr == "_get_row_count") or _has_ceil(sec, x)) for b_ in body for x in ast.walk(b_))
                if not (from_content and counts):
                    continue
                n11 += 1
                step2 = isinstance(it, ast.Subscript) and isinstance(it.slice, ast.Slice) and isinstance(it.slice.step, ast.Constant) and it.slice.step.value == 2
                filt = bool(getattr(g, "ifs", None))
                if step2 and not filt:
                    r.ok("%s: rows counted over %s" % (m.short, norm(it)))
                else:
                    r.fail(m, it, "rows counted over %s%s" % (norm(it), " with a filter" if filt else ""), "%s counts the rows of the removed lines over `%s`%s instead of every second entry of the recorded "
                           "content: a blank line among them is skipped (or a newline entry counted) - the cursor moves up too few / too many rows and the row counter drifts" % (m.short, norm(it), " filtered by the text" if filt else ""))
    if n11 == 0:
        r.vacuous_ok = True

    # ---------------------------------------------------------------- R12
    r = ctx.rule("C15-R12", "KEY", "'rows' are rows of the terminal as it is now: the width a section measures with is read when it is needed - Terminal.width does not keep what the "
                 "environment announced (COLUMNS) in the object", reference=1)
    term = ctx.cls("clikit.utils.terminal.Terminal")
    wm = term.methods.get("width")
    ctx.require(wm is not None, "Terminal.width missing")
    env_locals = {t.id for n in walk_no_nested(wm.node) if isinstance(n, ast.Assign) and any(isinstance(x, ast.Call) and norm(x.func) in ("os.getenv", "os.environ.get", "getenv") for x in ast.walk(n.value))
                  for t in n.targets if isinstance(t, ast.Name)}
    kept = [n for n in walk_no_nested(wm.node) if isinstance(n, ast.Assign) and any(is_self_attr(t) for t in n.targets)
            and any((isinstance(x, ast.Name) and x.id in env_locals) or (isinstance(x, ast.Call) and norm(x.func) in ("os.getenv", "os.environ.get", "getenv")) for x in ast.walk(n.value))]
    if kept:
        r.fail(wm, kept[0], "COLUMNS kept in %s" % norm(kept[0].targets[0]), "Terminal.width stores the width announced by the environment in the object: a section (which keeps its Terminal) goes on "
               "measuring with the first value - after the announced width changes wrapped lines get the wrong row count and clear() erases too little or too much")
    elif env_locals or any(isinstance(x, ast.Call) and norm(x.func) in ("os.getenv", "os.environ.get") for x in ast.walk(wm.node)):
        r.ok("Terminal.width reads COLUMNS on every call")
    else:
        r.vacuous_ok = True
        r.note("Terminal.width does not consult the environment")
    ctx.borrow("c09", "C09-R10", "C15-R13", "'on a plain output no control codes': whether a section's output decorates is the documented function of (stream, formatter disables, formatter forces) - a plain formatter on an ANSI-capable stream does not decorate")
    return ctx.results

