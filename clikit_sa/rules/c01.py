"""C01 - parsing a well-formed command line recovers exactly the intended values."""
import ast

from ..loader import walk_no_nested, norm, is_self_attr
from ..cfg import guarded_by
from .. import q

OPT_MAP, ARG_MAP = "_options", "_arguments"


def canonical_names(fi, kind):
    """Local names / expressions of canonical provenance in ``fi``:
    <x>.long_name (kind=opt) / <x>.name (kind=arg) where x comes from the format."""
    attr = "long_name" if kind == "opt" else "name"
    getters = ("get_option",) if kind == "opt" else ("get_argument",)
    listers = ("get_options",) if kind == "opt" else ("get_arguments",)
    decl_vars = set()
    for n in walk_no_nested(fi.node):
        if isinstance(n, ast.Assign) and isinstance(n.value, ast.Call) and isinstance(n.value.func, ast.Attribute) and n.value.func.attr in getters:
            for t in n.targets:
                if isinstance(t, ast.Name):
                    decl_vars.add(t.id)
        if isinstance(n, (ast.For, ast.comprehension)):
            it = n.iter
            if any(isinstance(c, ast.Call) and isinstance(c.func, ast.Attribute) and c.func.attr in listers for c in walk_no_nested(it)):
                for t in walk_no_nested(n.target):
                    if isinstance(t, ast.Name):
                        decl_vars.add(t.id)
    canon_vars = set()
    for n in walk_no_nested(fi.node):
        if isinstance(n, ast.Assign) and isinstance(n.value, ast.Attribute) and n.value.attr == attr and isinstance(n.value.value, ast.Name) and n.value.value.id in decl_vars:
            for t in n.targets:
                if isinstance(t, ast.Name):
                    canon_vars.add(t.id)
    # a canonical local must not also be assigned something else
    for n in walk_no_nested(fi.node):
        if isinstance(n, ast.Assign):
            for t in n.targets:
                if isinstance(t, ast.Name) and t.id in canon_vars and not (isinstance(n.value, ast.Attribute) and n.value.attr == attr):
                    canon_vars.discard(t.id)

    def is_canon(e):
        if isinstance(e, ast.Attribute) and e.attr == attr and isinstance(e.value, ast.Name) and e.value.id in decl_vars:
            return True
        if isinstance(e, ast.Attribute) and e.attr == attr and isinstance(e.value, ast.Call) and isinstance(e.value.func, ast.Attribute) and e.value.func.attr in getters:
            return True
        if isinstance(e, ast.Name) and e.id in canon_vars and e.id not in q.param_names(fi):
            return True
        # helper returning a canonical key
        if isinstance(e, ast.Call) and isinstance(e.func, ast.Attribute) and isinstance(e.func.value, ast.Name) and e.func.value.id == "self":
            m = fi.cls.methods.get(e.func.attr) if fi.cls else None
            if m is not None:
                rets = q.returns(m)
                sub = canonical_names(m, kind)
                return bool(rets) and all(r.value is not None and sub(r.value) for r in rets)
        return False
    return is_canon


def run(ctx):
    p, cg = ctx.p, ctx.cg
    args = ctx.cls("clikit.api.args.args.Args")
    parser = ctx.cls("clikit.args.default_args_parser.DefaultArgsParser")
    init = args.methods.get("__init__")
    maps = {t.attr for n in walk_no_nested(init.node) if isinstance(n, ast.Assign) for t in n.targets if is_self_attr(t) and isinstance(n.value, (ast.Dict, ast.Call))}
    ctx.require(OPT_MAP in maps and ARG_MAP in maps, "Args value maps %s/%s not initialised in __init__" % (OPT_MAP, ARG_MAP))

    # ---------------------------------------------------------------- R1
    r = ctx.rule("C01-R1", "KEY", "the value maps of Args are subscripted / tested / deleted only with canonical "
                 "names taken from the format (long name, argument name), never with the caller's spelling", reference=12)
    for name, m in sorted(args.methods.items()):
        for attr, kind in ((OPT_MAP, "opt"), (ARG_MAP, "arg")):
            is_canon = canonical_names(m, kind)
            for sub in q.subscripts_on_self_attr(m, attr):
                if is_canon(sub.slice):
                    r.ok("%s: %s" % (m.short, norm(sub)))
                else:
                    r.fail(m, sub, norm(sub), "Args.%s uses %s as key of self.%s, but the map is keyed by canonical names: access "
                           "by short name / position does not agree with access by long name" % (name, norm(sub.slice), attr))
            for node, key, neg in q.membership_tests(m, attr):
                if is_canon(key):
                    r.ok("%s: %s" % (m.short, norm(node)))
                else:
                    r.fail(m, node, norm(node), "Args.%s tests %s against self.%s, which is keyed by canonical names: a value given "
                           "under another spelling (short name, position) is reported as not set" % (name, norm(key), attr))

    # ---------------------------------------------------------------- R2
    r = ctx.rule("C01-R2", "STORE", "every value stored into the value maps was converted by the declared type "
                 "(<declaration>.parse(...)) or is the flag literal True", reference=2)
    for mname, attr, kind in (("set_option", OPT_MAP, "opt"), ("set_argument", ARG_MAP, "arg")):
        m = args.methods.get(mname)
        ctx.require(m is not None, "Args.%s missing" % mname)
        cfg = ctx.cfg(m)
        stores = [n for n in cfg.nodes if n.kind == "stmt" and isinstance(n.ast, ast.Assign) and any(isinstance(t, ast.Subscript) and is_self_attr(t.value, attr) for t in n.ast.targets)]
        ctx.require(stores, "Args.%s does not store into self.%s" % (mname, attr))
        for s in stores:
            v = s.ast.value
            if not isinstance(v, ast.Name):
                ok = _is_parse_call(v) or (isinstance(v, ast.Constant) and v.value is True)
                (r.ok if ok else lambda d: r.fail(m, s.ast, norm(s.ast), "unconverted value stored"))("%s: %s" % (m.short, norm(s.ast)))
                continue
            bad = _unconverted_def(ctx, m, cfg, s, v.id)
            if bad is None:
                r.ok("%s: %s (all reaching definitions converted)" % (m.short, norm(s.ast)))
            else:
                what = "the raw parameter" if bad is cfg.entry else norm(bad.ast)
                r.fail(m, s.ast, norm(s.ast) + " <- " + what, "%s can store %s into self.%s without conversion by the declared type" % (m.short, what, attr))

    # ---------------------------------------------------------------- R3
    r = ctx.rule("C01-R3", "GUARD", "tokens after '--' are never parsed as options: every option-parsing call is "
                 "dominated by the separator flag, which is only ever cleared", reference=4)
    pm = parser.methods.get("_parse")
    ctx.require(pm is not None, "DefaultArgsParser._parse missing")
    cfg = ctx.cfg(pm)
    opt_calls = [c for c in q.calls(pm) if isinstance(c.func, ast.Attribute) and "option" in c.func.attr and c.func.attr.startswith("_parse")]
    ctx.require(opt_calls, "no option-parsing calls in _parse")
    # the flag: a local assigned True before the loop and False in the '--' arm
    flags = [n for n in walk_no_nested(pm.node) if isinstance(n, ast.Assign) and isinstance(n.value, ast.Constant) and n.value.value is True and isinstance(n.targets[0], ast.Name)]
    flag = None
    for f in flags:
        nm = f.targets[0].id
        if any(isinstance(n, ast.Assign) and isinstance(n.targets[0], ast.Name) and n.targets[0].id == nm and isinstance(n.value, ast.Constant) and n.value.value is False for n in walk_no_nested(pm.node)):
            flag = nm
    if flag is None:
        r.fail(pm, pm.node, "no separator flag", "_parse has no flag that is cleared at '--'")
    else:
        for c in opt_calls:
            cn = cfg.node_of(c)
            g = guarded_by(cfg, cn, lambda e: isinstance(e, ast.Name) and e.id == flag, polarity=True, kill_names=lambda e: set())
            if g is not None:
                r.ok("%s: %s under %s" % (pm.short, norm(c.func), flag))
            else:
                r.fail(pm, c, norm(c.func), "%s is reachable with the separator flag cleared: a token after '--' would be parsed as an option" % norm(c.func))
        sets_true_in_loop = [n for n in walk_no_nested(pm.node) if isinstance(n, ast.Assign) and isinstance(n.targets[0], ast.Name) and n.targets[0].id == flag
                             and not (isinstance(n.value, ast.Constant) and n.value.value is False) and any(isinstance(a, (ast.While, ast.For)) for a in _anc(n))]
        if sets_true_in_loop:
            r.fail(pm, sets_true_in_loop[0], norm(sets_true_in_loop[0]), "the separator flag is switched back on inside the loop")
        else:
            r.ok("%s: %s only cleared inside the loop" % (pm.short, flag))
        # the clearing arm is the '--' test
        clr = [n for n in cfg.nodes if n.kind == "stmt" and isinstance(n.ast, ast.Assign) and isinstance(n.ast.targets[0], ast.Name) and n.ast.targets[0].id == flag and isinstance(n.ast.value, ast.Constant) and n.ast.value.value is False]
        for n in clr:
            g = guarded_by(cfg, n, lambda e: isinstance(e, ast.Compare) and isinstance(e.ops[0], ast.Eq) and any(isinstance(k, ast.Constant) and k.value == "--" for k in e.comparators + [e.left]), polarity=True)
            if g is None:
                r.fail(pm, n.ast, norm(n.ast), "the separator flag is cleared somewhere else than at the '--' token")

        after_separator_total(ctx, r, pm, cfg, flag, opt_calls)

    # ---------------------------------------------------------------- R4
    r = ctx.rule("C01-R4", "POLARITY", "multi-values keep command-line order: stores append / assign in place, "
                 "iteration is forward, nothing is reversed or sorted", reference=8)
    scope = [f for f in parser.methods.values()] + [args.methods[n] for n in ("set_option", "set_argument") if n in args.methods]
    for f in scope:
        for n in walk_no_nested(f.node):
            bad = None
            if isinstance(n, ast.Call) and isinstance(n.func, ast.Attribute):
                a = n.func.attr
                recv = n.func.value
                is_tokens = isinstance(recv, ast.Name) and recv.id == "tokens"
                if a == "insert" and not is_tokens and n.args and isinstance(n.args[0], ast.Constant) and n.args[0].value == 0:
                    bad = "insert(0, ...)"
                elif a in ("reverse", "sort"):
                    bad = ".%s()" % a
                elif a in ("append", "extend") and not is_tokens:
                    r.ok("%s: %s" % (f.short, norm(n)[:60]))
            elif isinstance(n, ast.Call) and isinstance(n.func, ast.Name) and n.func.id in ("reversed", "sorted"):
                bad = n.func.id + "()"
            elif isinstance(n, ast.Subscript) and isinstance(n.slice, ast.Slice) and isinstance(n.slice.step, ast.UnaryOp):
                bad = "negative-step slice"
            if bad:
                r.fail(f, n, norm(n), "%s perturbs the order of collected values (%s)" % (f.short, bad))
    pushback_rule(ctx, r, parser)

    # ---------------------------------------------------------------- R5
    r = ctx.rule("C01-R5", "SIBLING", "option()/options() and argument()/arguments() compute the same value for a "
                 "parameter that was not given", reference=6)
    for single, plural, kind in (("option", "options", "opt"), ("argument", "arguments", "arg")):
        a, b = args.methods.get(single), args.methods.get(plural)
        if a is None or b is None:
            continue
        ta, tb = _default_table(ctx, a), _default_table(ctx, b)
        if ta == tb and ta:
            r.ok("Args.%s / Args.%s: unset value = %s" % (single, plural, sorted(ta)))
        else:
            r.fail(b, b.node, "%s %s vs %s %s" % (single, sorted(ta), plural, sorted(tb)),
                   "Args.%s and Args.%s disagree on what an unset %s reports: %s vs %s" % (single, plural, single, sorted(ta), sorted(tb)))
        for f in (a, b):
            # the default must come from the declaration
            if any(isinstance(n, ast.Attribute) and n.attr == "default" for n in walk_no_nested(f.node)):
                r.ok("Args.%s reads the declared default" % f.name)
            else:
                r.fail(f, f.node, "no declared default", "Args.%s never reads the declared default" % f.name)
    # ---------------------------------------------------------------- R6
    r = ctx.rule("C01-R6", "SENTINEL", "values drawn with next(it, None) in the parser are tested against that "
                 "sentinel, not for truthiness (an empty-string positional is a value)", reference=2)
    sentinel_loops(ctx, r, [f for f in p.all_functions() if f.module.name.startswith("clikit.args")])
    if r.n == 0:
        r.vacuous_ok = True

    # ---------------------------------------------------------------- R7
    r = ctx.rule("C01-R7", "SENTINEL", "presence in the value maps is decided by membership, never by comparing the "
                 "stored value with None (None is a value: nullable types convert 'null' to it)", reference=3)
    nullable_fact = any(isinstance(ret, ast.Return) and ret.value is None for fn in ctx.p.modules["clikit.utils.string"].functions.values() if fn.name.startswith("parse_") for ret in q.returns(fn))
    r.note("fact: utils.string.parse_* %s return None for nullable values" % ("can" if nullable_fact else "never"))
    n_reads = 0
    for name, m in sorted(args.methods.items()):
        for c in q.calls(m):
            if isinstance(c.func, ast.Attribute) and c.func.attr in ("get", "pop", "setdefault") and is_self_attr(c.func.value) and c.func.value.attr in (OPT_MAP, ARG_MAP):
                n_reads += 1
                if nullable_fact and c.func.attr == "get":
                    r.fail(m, c, norm(c), "Args.%s reads the value map with .get(): a stored None (a nullable option given as 'null') cannot be told from 'not given' "
                           "and falls through to the default" % name)
        for sub in q.subscripts_on_self_attr(m, OPT_MAP) + q.subscripts_on_self_attr(m, ARG_MAP):
            if isinstance(sub.ctx, ast.Load):
                n_reads += 1
                cfg = ctx.cfg(m)
                key = norm(sub.slice)
                attr = sub.value.attr
                g = None
                for cn in cfg.nodes_of(sub):
                    g = guarded_by(cfg, cn, lambda e: isinstance(e, ast.Compare) and isinstance(e.ops[0], ast.In) and is_self_attr(e.comparators[0], attr) and norm(e.left) == key, polarity=True)
                if g is not None:
                    r.ok("%s: %s under '%s in self.%s'" % (m.short, norm(sub), key, attr))
                else:
                    r.fail(m, sub, norm(sub) + " unguarded", "Args.%s reads %s without the membership test on the same key" % (name, norm(sub)))
    ctx.require(n_reads >= 2, "no reads of the value maps found in Args")

    # ---------------------------------------------------------------- R8
    r = ctx.rule("C01-R8", "SLICE", "the value attached with '=' is everything after the first '=' (a value may itself contain '='): "
                 "split at the first occurrence only, and take the open-ended remainder", reference=2)
    for m in sorted(parser.methods.values(), key=lambda f: f.name):
        posvars = {}
        for n in walk_no_nested(m.node):
            if isinstance(n, ast.Call) and isinstance(n.func, ast.Attribute) and n.args and isinstance(n.args[0], ast.Constant) and n.args[0].value == "=":
                a = n.func.attr
                maxsplit = (len(n.args) > 1 and isinstance(n.args[1], ast.Constant) and n.args[1].value == 1) or any(k.arg == "maxsplit" and isinstance(k.value, ast.Constant) and k.value.value == 1 for k in n.keywords)
                if a in ("rfind", "rindex", "rsplit", "rpartition"):
                    r.fail(m, n, norm(n), "%s splits at the LAST '=': for --opt=a=b the option name becomes 'opt=a'" % m.short)
                elif a == "split" and not maxsplit:
                    r.fail(m, n, norm(n), "%s splits at every '=': for --opt=a=b only 'a' (or an unpacking error) is left of the value 'a=b'" % m.short)
                elif a in ("split", "partition"):
                    r.ok("%s: %s" % (m.short, norm(n)))
                elif a in ("find", "index"):
                    par = getattr(n, "_parent", None)
                    if isinstance(par, ast.Assign) and isinstance(par.targets[0], ast.Name):
                        posvars[par.targets[0].id] = n
        for pv in posvars:
            for n in walk_no_nested(m.node):
                if isinstance(n, ast.Subscript) and isinstance(n.slice, ast.Slice) and n.slice.lower is not None and pv in q.names_in(n.slice.lower):
                    lo = n.slice.lower
                    plus1 = isinstance(lo, ast.BinOp) and isinstance(lo.op, ast.Add) and {norm(lo.left), norm(lo.right)} == {pv, "1"}
                    if plus1 and n.slice.upper is None and n.slice.step is None:
                        r.ok("%s: value = %s" % (m.short, norm(n)))
                    else:
                        r.fail(m, n, norm(n), "%s: the attached value is not the open-ended remainder after the first '=' (%s)" % (m.short, norm(n)))
                elif isinstance(n, ast.Subscript) and isinstance(n.slice, ast.Slice) and n.slice.upper is not None and pv in q.names_in(n.slice.upper):
                    if n.slice.lower is None and norm(n.slice.upper) == pv:
                        r.ok("%s: name = %s" % (m.short, norm(n)))
                    else:
                        r.fail(m, n, norm(n), "%s: the option name is not the text before the first '=' (%s)" % (m.short, norm(n)))

    # ---------------------------------------------------------------- R9
    r = ctx.rule("C01-R9", "READONLY", "reading values never sets any: the accessors of Args (everything but the set_* "
                 "methods and the constructor) do not mutate the value maps, at any alias depth - 'nothing else set' "
                 "must survive a call of options()/arguments()", reference=13)
    from ..effects import root as _root, is_fresh as _fresh, show as _show, path_fields as _pf
    eff = ctx.effects
    for name, m in sorted(args.methods.items()):
        if name.startswith("set_") or name == "__init__":
            continue
        evs = []
        for ev in eff.events_in(m):
            t = ev.token
            if _root(t) != ("p", "self") or _fresh(t):
                continue
            flds = _pf(t)
            top = flds[-1] if flds else ev.kind.rsplit(":", 1)[-1]
            if top in (OPT_MAP, ARG_MAP):
                evs.append((top, ev))
        if evs:
            for top, ev in evs:
                o = ev.origin_event()
                r.fail(o.fi, o.node, "self.%s via %s" % (top, norm(o.node)), "Args.%s modifies the value map %s in place (%s): after one read with defaults, options never "
                       "given are reported as set" % (name, _show(ev.token), ev.chain()), chain=ev.chain())
        else:
            r.ok("Args.%s: value maps untouched (deep)" % name)

    # ---------------------------------------------------------------- R10
    from .c05 import scratch_rule

    r = ctx.rule("C01-R10", "RESET", "'nothing else set': what an earlier parse collected (also one that ended in an error) cannot show up "
                 "in this result - the parser's scratch attributes are re-initialised before their first use (same rule as C05-R1)", reference=2)
    scratch_rule(ctx, r, parser.methods["parse"])

    # ---------------------------------------------------------------- R11
    from .c02 import value_as_given_rule

    r = ctx.rule("C01-R11", "ORDER", "'--name=value' and '--name value' are told apart by whether a value was attached, not by whether it is empty: no None "
                 "assignment reaches the value-given / look-ahead tests except under a non-string sentinel (same rule as C02-R9)", reference=2)
    value_as_given_rule(ctx, r, parser)

    # ---------------------------------------------------------------- R12
    r = ctx.rule("C01-R12", "KEY", "a synthesised argument name (the hidden slot for a command name) is tested for uniqueness against the format it will be "
                 "merged with, so that no declared argument can take over the slot", reference=1)
    pf = parser.methods["parse"]
    n12 = 0
    for w in [n for n in walk_no_nested(pf.node) if isinstance(n, ast.While)]:
        gen = [a for a in walk_no_nested(w) if isinstance(a, ast.Assign) and isinstance(a.targets[0], ast.Name) and isinstance(a.value, ast.Call) and isinstance(a.value.func, ast.Attribute) and a.value.func.attr == "format"]
        if not gen:
            continue
        var = gen[0].targets[0].id
        if var not in q.names_in(w.test):
            continue
        n12 += 1
        against_fmt = any(isinstance(c, ast.Call) and isinstance(c.func, ast.Attribute) and c.func.attr in ("has_argument", "get_arguments") and isinstance(c.func.value, ast.Name) and c.func.value.id in pf.params
                          for c in ast.walk(w.test))
        if against_fmt:
            r.ok("%s: `%s` is regenerated while %s" % (pf.short, var, norm(w.test)))
        else:
            r.fail(pf, w, "uniqueness test `%s`" % norm(w.test), "the generated name `%s` is tested with `%s`, not against the format's own arguments: a declared argument of that name "
                   "replaces the hidden command-name slot when the two are merged, and every positional shifts" % (var, norm(w.test)))
    if n12 == 0:
        r.vacuous_ok = True
        r.note("parse() no longer generates hidden argument names in a loop")
    ctx.borrow("c07", "C07-R2", "C01-R13", "'everything not given reports its default': a declared default is kept whenever one is given (`is not None` - 0, False and '' are "
               "defaults too) and the declared value mode is the one the parser consults")
    ctx.borrow("c07", "C07-R13", "C01-R15", "'values converted to the declared types': a value of the declared type is converted to itself - in the converters the test for the more "
               "specific type precedes the arm for its base type (a bool default of a BOOLEAN option is a bool, not the int it also is) (same rule as C07-R13)")

    # ---------------------------------------------------------------- R14
    r = ctx.rule("C01-R14", "KEY", "'access by long name, short name or position agrees': the parser's own option map is keyed by the long name - every key stored into it is "
                 "`<declaration>.long_name`, text cut from a '--' token, or a parameter that every call site binds to one of those (a short spelling is translated before it is stored)", reference=2)

    def canon_key(fn, e, depth=0):
        if depth > 5:
            return False, norm(e)
        if isinstance(e, ast.Attribute) and e.attr == "long_name":
            return True, ""
        if isinstance(e, ast.Subscript) and isinstance(e.slice, ast.Slice):
            lo = e.slice.lower
            if isinstance(lo, ast.Constant) and lo.value == 2 and e.slice.upper is None:
                return True, ""  # the text after '--'
            if lo is None or (isinstance(lo, ast.Constant) and lo.value == 0):
                return canon_key(fn, e.value, depth + 1)  # a prefix of it (up to '=')
            return False, norm(e)
        if isinstance(e, ast.Name):
            if e.id in fn.params:
                idx = [a for a in fn.params if a != "self"].index(e.id)
                sites = [(o, c) for o in parser.methods.values() for c in q.method_calls(o, fn.name, recv=lambda x: isinstance(x, ast.Name) and x.id == "self")]
                if not sites:
                    return False, "%s (no call site)" % e.id
                for o, c in sites:
                    a = c.args[idx] if idx < len(c.args) else next((k.value for k in c.keywords if k.arg == e.id), None)
                    if a is None:
                        return False, "%s unbound in %s" % (e.id, o.short)
                    ok_, why = canon_key(o, a, depth + 1)
                    if not ok_:
                        return False, "%s <- %s in %s" % (e.id, why or norm(a), o.short)
                return True, ""
            defs = [n.value for n in walk_no_nested(fn.node) if isinstance(n, ast.Assign) and any(isinstance(t, ast.Name) and t.id == e.id for t in n.targets)]
            if not defs:
                return False, norm(e)
            for d in defs:
                ok_, why = canon_key(fn, d, depth + 1)
                if not ok_:
                    return False, why or norm(d)
            return True, ""
        return False, norm(e)

    n14 = 0
    for name, m in sorted(parser.methods.items()):
        al14 = q.direct_aliases(m)  # `options = self._options; options[name] = value`
        for n in walk_no_nested(m.node):
            subs = []
            if isinstance(n, ast.Assign):
                subs = [t for t in n.targets if isinstance(t, ast.Subscript) and ((is_self_attr(t.value) and "option" in t.value.attr)
                                                                                  or (isinstance(t.value, ast.Name) and "option" in al14.get(t.value.id, "")))]
            for sub in subs:
                n14 += 1
                ok_, why = canon_key(m, sub.slice)
                if ok_:
                    r.ok("%s: %s keyed by the long name" % (m.short, norm(sub)))
                else:
                    r.fail(m, sub, "%s can be keyed by a short name" % norm(sub), "%s stores an option value under %s, which can be a short name (%s): the same option spelled '-x' and '--long' in one line is "
                           "kept under two keys - a multi-valued option loses the values of one spelling, a repeated option is not overridden" % (m.short, norm(sub.slice), why))
    ctx.require(n14 >= 1, "the parser no longer stores option values in an attribute of its own")
    ctx.borrow("c05", "C05-R2", "C01-R16", "'parses to exactly that assignment' - also the second time the same line is parsed: the parser works on a copy of the caller's token list, it never consumes or edits the raw args it was given")
    ctx.borrow("c06", "C06-R4", "C01-R17", "'access by long name, short name or position agrees': what is_option_set / is_option_defined answer comes from has_option, what option() returns from get_option - the two consult the same indices, own and inherited")
    return ctx.results


def _unconverted_def(ctx, m, cfg, s, var, depth=0):
    """A definition of local ``var`` that can reach CFG node ``s`` (a store / return of var) without the value having been converted by
    <declaration>.parse: a parse call, the literal True, the element-wise conversion loop over var, or a helper method of the same
    object whose every returned value is converted in the same sense.  None when there is no such definition."""
    defs = cfg.writes(lambda t: t == var)
    if var in m.params:
        defs = defs + [cfg.entry]
    elem_loops = set()
    for n in cfg.nodes:
        if n.kind == "for":
            body_stores = [x for x in walk_no_nested(n.ast) if isinstance(x, ast.Assign) and any(isinstance(t, ast.Subscript) and isinstance(t.value, ast.Name) and t.value.id == var for t in x.targets) and _is_parse_call(x.value)]
            iter_ok = var in q.names_in(n.ast.iter)
            if body_stores and iter_ok:
                elem_loops.add(n.id)
    for d in defs:
        # does this definition reach the store without another definition in between?
        others = [x.id for x in defs if x is not d and x is not cfg.entry]
        if s.id not in cfg.reach([d.id], blocked=others) and d.id != s.id:
            continue
        val = d.ast.value if d is not cfg.entry and isinstance(d.ast, ast.Assign) else None
        if val is not None and (_is_parse_call(val) or (isinstance(val, ast.Constant) and val.value is True)):
            continue
        if val is not None and depth < 2 and isinstance(val, ast.Call) and isinstance(val.func, ast.Attribute) and isinstance(val.func.value, ast.Name) and val.func.value.id == "self" \
                and m.cls is not None and val.func.attr in m.cls.methods:
            h = m.cls.methods[val.func.attr]
            hcfg = ctx.cfg(h)
            rets = [n for n in hcfg.nodes if n.kind == "return"]
            if rets and all(n.ast.value is not None and (_is_parse_call(n.ast.value) or (isinstance(n.ast.value, ast.Name) and _unconverted_def(ctx, h, hcfg, n, n.ast.value.id, depth + 1) is None)) for n in rets):
                continue
        # raw value / list wrap: must pass the element-wise conversion loop
        if elem_loops and s.id not in cfg.reach_strict(d.id, blocked=set(elem_loops) | set(others)):
            continue
        return d
    return None


def pushback_rule(ctx, r, parser):
    """POLARITY rule shared with C09: a looked-ahead token that is not a value goes back to the FRONT of the pending tokens."""
    # value lookahead puts a rejected token back at the front
    for f in parser.methods.values():
        for n in walk_no_nested(f.node):
            if isinstance(n, ast.Call) and isinstance(n.func, ast.Attribute) and n.func.attr == "insert" and isinstance(n.func.value, ast.Name) and n.func.value.id == "tokens":
                if n.args and isinstance(n.args[0], ast.Constant) and n.args[0].value == 0:
                    r.ok("%s: lookahead token pushed back at the front" % f.short)
                else:
                    r.fail(f, n, norm(n), "a looked-ahead token is pushed back somewhere else than the front of the token list")
            elif isinstance(n, ast.Call) and isinstance(n.func, ast.Attribute) and n.func.attr in ("append", "extend") and isinstance(n.func.value, ast.Name) and n.func.value.id == "tokens":
                r.fail(f, n, norm(n), "a token is put back at the end of the pending tokens: it would be parsed after everything that followed it")


def separator_facts(ctx):
    """(_parse FuncInfo, cfg, separator flag name or None, option-parsing calls)."""
    parser = ctx.cls("clikit.args.default_args_parser.DefaultArgsParser")
    pm = parser.methods.get("_parse")
    ctx.require(pm is not None, "DefaultArgsParser._parse missing")
    cfg = ctx.cfg(pm)
    opt_calls = [c for c in q.calls(pm) if isinstance(c.func, ast.Attribute) and "option" in c.func.attr and c.func.attr.startswith("_parse")]
    flag = None
    for f in walk_no_nested(pm.node):
        if isinstance(f, ast.Assign) and isinstance(f.value, ast.Constant) and f.value.value is True and isinstance(f.targets[0], ast.Name):
            nm = f.targets[0].id
            if any(isinstance(n, ast.Assign) and isinstance(n.targets[0], ast.Name) and n.targets[0].id == nm and isinstance(n.value, ast.Constant) and n.value.value is False for n in walk_no_nested(pm.node)):
                flag = nm
    return pm, cfg, flag, opt_calls


def after_separator_total(ctx, r, pm, cfg, flag, opt_calls):
    """Shared with C02: with the separator flag cleared every drawn token reaches the positional parse."""
    # with the flag cleared every token drawn is handed to the positional parse: no path from the draw back to
    # the draw (or to the end of the loop) that avoids it, once the edges that need the flag set are removed
    draws = [n for n in cfg.nodes if n.kind == "stmt" and isinstance(n.ast, ast.Assign) and isinstance(n.ast.value, ast.Call)
             and ((isinstance(n.ast.value.func, ast.Attribute) and n.ast.value.func.attr == "pop") or (isinstance(n.ast.value.func, ast.Name) and n.ast.value.func.id == "next"))
             and cfg.in_loop(n.id, exc=True)]
    draws += [n for n in cfg.nodes if n.kind == "for"]
    tokvars = set()
    for d in draws:
        tg = d.ast.target if d.kind == "for" else d.ast.targets[0]
        if isinstance(tg, ast.Name):
            tokvars.add(tg.id)
    pos_calls = [c for c in q.calls(pm) if c not in opt_calls and isinstance(c.func, ast.Attribute) and isinstance(c.func.value, ast.Name) and c.func.value.id == "self"
                 and c.args and isinstance(c.args[0], ast.Name) and c.args[0].id in tokvars]
    if draws and pos_calls:
        blocked = set()
        for c in cfg.conds():
            e = c.ast
            if isinstance(e, ast.Name) and e.id == flag and cfg.true_of(c) is not None:
                blocked.add(cfg.true_of(c).id)
            elif isinstance(e, ast.UnaryOp) and isinstance(e.op, ast.Not) and isinstance(e.operand, ast.Name) and e.operand.id == flag and cfg.false_of(c) is not None:
                blocked.add(cfg.false_of(c).id)
        pos_nodes = {n.id for c in pos_calls for n in cfg.nodes_of(c)}
        for d in draws:
            if d.kind == "for":
                starts = [s for s in cfg.succs(d.id) if cfg.nodes[s].kind == "loop_body"]
            else:
                starts = cfg.succs(d.id)
            seen = cfg.reach(starts, blocked=blocked | pos_nodes)
            if d.id in seen and not (set(starts) & pos_nodes):
                # name the construct through which a token escapes
                via = [cfg.nodes[x] for x in sorted(seen) if cfg.nodes[x].kind == "stmt" and d.id in cfg.reach([x], blocked=blocked | pos_nodes) and x != d.id]
                what = norm(via[0].ast) if via else "fall-through"
                r.fail(pm, via[0].ast if via else d.ast, "after-separator token not positional via " + what,
                       "with the separator flag cleared a drawn token can be consumed without reaching the positional parse (through `%s`): "
                       "a token after '--' (a second '--', say) is dropped or treated specially instead of being stored as a value" % what)
            else:
                r.ok("%s: after '--' every drawn token reaches %s" % (pm.short, ", ".join(sorted({norm(c.func) for c in pos_calls}))))
    else:
        r.note("no token draw / positional call recognised in _parse: after-separator totality not evaluated")



def sentinel_loops(ctx, r, funcs):
    """SENTINEL rule shared with C03: a loop whose sole condition is the truthiness of a value drawn with next(it, None)."""
    for fi in funcs:
        drawn = set()
        for n in walk_no_nested(fi.node):
            if isinstance(n, ast.Assign) and isinstance(n.value, ast.Call) and isinstance(n.value.func, ast.Name) and n.value.func.id == "next" \
                    and len(n.value.args) == 2 and isinstance(n.value.args[1], ast.Constant) and n.value.args[1].value is None:
                for t in n.targets:
                    if isinstance(t, ast.Name):
                        drawn.add(t.id)
        for n in walk_no_nested(fi.node):
            if isinstance(n, ast.While):
                t = n.test
                if isinstance(t, ast.Name) and t.id in drawn:
                    r.fail(fi, n, "while " + t.id, "the loop ends on a falsy value: an empty-string token is taken for the end of the values")
                elif isinstance(t, ast.Compare) and isinstance(t.left, ast.Name) and t.left.id in drawn and isinstance(t.ops[0], ast.IsNot):
                    r.ok("%s: while %s" % (fi.short, norm(t)))
                elif isinstance(t, ast.BoolOp) and any(isinstance(v, ast.Name) and v.id in drawn for v in t.values):
                    # conjoined with a test that rejects the empty string anyway (command_name.match(arg))
                    r.ok("%s: while %s [truthiness conjoined with a match test]" % (fi.short, norm(t)[:50]))


def _is_parse_call(e):
    return isinstance(e, ast.Call) and isinstance(e.func, ast.Attribute) and e.func.attr == "parse"


def _anc(n):
    p = getattr(n, "_parent", None)
    while p is not None:
        yield p
        p = getattr(p, "_parent", None)


def _default_table(ctx, fi):
    """{(accepts_value polarity or None, normalised default expr)} for the unset case."""
    cfg = ctx.cfg(fi)
    out = set()
    acc = [c for c in cfg.conds() if isinstance(c.ast, ast.Call) and isinstance(c.ast.func, ast.Attribute) and c.ast.func.attr == "accepts_value"]
    vals = []
    for n in cfg.nodes:
        if n.kind == "return" and n.ast.value is not None:
            v = n.ast.value
            if isinstance(v, ast.Subscript) or isinstance(v, ast.Name):
                continue
            if isinstance(v, ast.DictComp):
                # the map built in one expression: `{x.name: given[x.name] if x.name in given else <unset value> for x in ...}`
                v = v.value
                if isinstance(v, ast.IfExp) and isinstance(v.test, ast.Compare) and len(v.test.ops) == 1 and isinstance(v.test.ops[0], (ast.In, ast.NotIn)):
                    v = v.orelse if isinstance(v.test.ops[0], ast.In) else v.body
                elif isinstance(v, ast.Subscript):
                    continue
            vals.append((n, v))
        elif n.kind == "stmt" and isinstance(n.ast, ast.Assign) and isinstance(n.ast.targets[0], ast.Name) and "default" in n.ast.targets[0].id:
            vals.append((n, n.ast.value))
        elif n.kind == "stmt" and isinstance(n.ast, ast.Assign) and isinstance(n.ast.targets[0], ast.Subscript) and isinstance(n.ast.value, ast.Attribute) and n.ast.value.attr == "default":
            vals.append((n, n.ast.value))
    # stores / returns of a conditional expression on accepts_value(): one entry per arm
    for n in cfg.nodes:
        a = n.ast
        v = None
        if n.kind == "stmt" and isinstance(a, ast.Assign) and isinstance(a.value, ast.IfExp):
            v = a.value
        elif n.kind == "return" and isinstance(getattr(a, "value", None), ast.IfExp):
            v = a.value
        if v is not None and isinstance(v.test, ast.Call) and isinstance(v.test.func, ast.Attribute) and v.test.func.attr == "accepts_value":
            for pol_, arm in ((True, v.body), (False, v.orelse)):
                out.add((pol_, "<decl>.default" if (isinstance(arm, ast.Attribute) and arm.attr == "default") else norm(arm)))
    vals = [(n, v) for n, v in vals if not isinstance(v, ast.IfExp)]
    for n, v in vals:
        pol = None
        for c in acc:
            t, f = cfg.true_of(c), cfg.false_of(c)
            if cfg.dominates(t.id, n.id):
                pol = True
            elif cfg.dominates(f.id, n.id):
                pol = False
        txt = "<decl>.default" if (isinstance(v, ast.Attribute) and v.attr == "default") else norm(v)
        if pol is None and acc and isinstance(v, ast.Constant):
            pol = False  # value on the fall-through / pre-initialised arm
        out.add((pol, txt))
    return out
