"""E2: call graph with explicit dynamic-dispatch tables discovered from source."""
import ast

from .loader import ClassInfo, FuncInfo, Module, walk_no_nested, call_name
from .types import Typer, T, UNKNOWN


class CallSite(object):
    __slots__ = ("node", "caller", "targets", "kind", "external")

    def __init__(self, node, caller, targets, kind, external=None):
        self.node = node
        self.caller = caller
        self.targets = targets
        self.kind = kind  # direct | virtual | ctor | super | dynamic | callback | external | unresolved
        self.external = external


BUILTIN_CALLS = {
    "len", "str", "int", "float", "bool", "list", "dict", "set", "tuple", "sorted", "reversed", "iter", "next",
    "enumerate", "zip", "map", "filter", "isinstance", "issubclass", "hasattr", "getattr", "setattr", "min", "max",
    "sum", "abs", "round", "range", "print", "repr", "type", "callable", "any", "all", "ord", "chr", "open",
    "super", "format", "dir", "id", "hash", "vars", "divmod", "pow", "bytes", "object", "frozenset", "OrderedDict",
    "ValueError", "RuntimeError", "TypeError", "IOError", "KeyError", "IndexError", "Exception", "NotImplementedError",
    "AttributeError", "StopIteration", "OSError", "unicode", "long", "basestring", "copy", "deepcopy",
}


class CallGraph(object):
    def __init__(self, program, typer=None):
        self.p = program
        self.typer = typer or Typer(program)
        self.sites = {}  # caller qualname -> [CallSite]
        self.callers = {}  # callee qualname -> [CallSite]
        self.stats = {}
        self._build()

    # ------------------------------------------------------------- building
    def _build(self):
        # fixpoint on parameter hints (callables / classes passed at call sites)
        for _round in range(4):
            self.typer.rotate()
            self.sites = {}
            changed = False
            for fi in self.p.all_functions():
                self.sites[fi.qualname] = self._sites_of(fi)
            for fi in self.p.all_functions():
                for cs in self.sites[fi.qualname]:
                    if self._feed_hints(cs):
                        changed = True
            if not changed and _round >= 1:
                break
        self.callers = {}
        counts = {}
        for q, sites in self.sites.items():
            for cs in sites:
                counts[cs.kind] = counts.get(cs.kind, 0) + 1
                for t in cs.targets:
                    self.callers.setdefault(t.qualname, []).append(cs)
        self.stats = counts

    def _feed_hints(self, cs):
        changed = False
        env = self.typer.env(cs.caller)
        for tgt in cs.targets:
            params = list(tgt.params)
            if tgt.cls is not None and params and not tgt.is_staticmethod and cs.kind != "unbound":
                params = params[1:]
            pairs = list(zip(params, cs.node.args))
            for kw in cs.node.keywords:
                if kw.arg is not None and kw.arg in tgt.params:
                    pairs.append((kw.arg, kw.value))
            for p, a in pairs:
                if p in tgt.arg_types:
                    ann = self.typer.from_annotation(tgt.arg_types[p], tgt.module, tgt)
                    if not ann.is_empty() and not (ann.prims == frozenset(["None"])):
                        continue
                if isinstance(a, ast.Starred):
                    continue
                at = self.typer.expr_type(a, cs.caller, env)
                if at.is_empty():
                    continue
                key = (tgt.qualname, p)
                old = self.typer.param_hints.get(key)
                new = at if old is None else old.join(at)
                if old is None or (new.classes, new.funcs, new.clsobjs, new.prims) != (old.classes, old.funcs, old.clsobjs, old.prims):
                    self.typer.param_hints[key] = new
                    changed = True
        return changed

    def _sites_of(self, fi):
        out = []
        env = self.typer.env(fi)
        for n in walk_no_nested(fi.node):
            if isinstance(n, ast.Call):
                out.append(self.resolve_call(n, fi, env))
        return out

    def resolve_call(self, call, fi, env=None, self_cls=None):
        """Resolve one call node.  ``self_cls``: evaluate ``self.m()`` for that
        concrete class instead of 'class of definition + all subclasses'."""
        if env is None:
            env = self.typer.env(fi)
        f = call.func
        targets = []
        kind = "unresolved"
        external = None
        callbacks = self._callback_args(call, fi, env)
        if isinstance(f, ast.Name):
            name = f.id
            if name in env and not env[name].is_empty():
                t = env[name]
                targets, kind = self._targets_of_callable(t)
                if kind == "unresolved":
                    kind = "dynamic" if targets else "unresolved"
            else:
                r = self.p.resolve_in_func(fi, name)
                if isinstance(r, FuncInfo):
                    targets, kind = [r], "direct"
                elif isinstance(r, ClassInfo):
                    init = self.p.lookup_method(r, "__init__")
                    targets, kind = ([init] if init else []), "ctor"
                elif isinstance(r, tuple) and r[0] == "external":
                    kind, external = "external", r[1]
                elif isinstance(r, tuple) and r[0] == "const":
                    kind, external = "external", "const." + name  # e.g. a namedtuple
                elif name in env:
                    # a local holding a callable of unknown origin: use the
                    # class's registry of callables if it has one
                    cls = fi.cls or (fi.parent.cls if fi.parent is not None else None)
                    targets = self._registered_callables(cls) if cls is not None else []
                    kind = "dynamic" if targets else "unresolved"
                elif name in BUILTIN_CALLS:
                    kind, external = "external", "builtins." + name
        elif isinstance(f, ast.Attribute):
            sup = self.typer.super_target(f, fi)
            if sup is not None:
                targets, kind = [sup], "super"
            elif isinstance(f.value, ast.Call) and isinstance(f.value.func, ast.Name) and f.value.func.id == "super":
                kind, external = "external", "super." + f.attr  # next in MRO is not in the package
            elif f.attr == "__class__":
                ct = self.typer.expr_type(f, fi, env)
                targets, kind = self._targets_of_callable(ct)
            else:
                targets, kind, external = self._resolve_attr_call(f, fi, env, self_cls)
        elif isinstance(f, ast.Call):
            # getattr(handler, handler_method)(...) / getattr(self, "_formatter_x")()
            inner = f
            if isinstance(inner.func, ast.Name) and inner.func.id == "getattr" and len(inner.args) >= 2:
                targets = self._getattr_targets(inner, fi, env)
                kind = "dynamic" if targets else "unresolved"
            else:
                rt = self.typer.expr_type(inner, fi, env)
                targets, kind = self._targets_of_callable(rt)
        elif isinstance(f, ast.Lambda):
            kind = "external"
        if callbacks and kind in ("external", "unresolved", "ctor"):
            # function references handed to code we cannot see are assumed called
            targets = list(targets) + [c for c in callbacks if c not in targets]
            if kind != "ctor":
                kind = "callback"
        return CallSite(call, fi, targets, kind, external)

    def _targets_of_callable(self, t):
        targets = []
        for fn in sorted(t.funcs, key=lambda x: x.qualname):
            targets.append(fn)
        for c in sorted(t.clsobjs, key=lambda x: x.qualname):
            init = self.p.lookup_method(c, "__init__")
            if init is not None:
                targets.append(init)
        for c in sorted(t.classes, key=lambda x: x.qualname):
            m = self.p.lookup_method(c, "__call__")
            if m is not None:
                targets.append(m)
        if targets:
            return targets, ("ctor" if t.clsobjs and not t.funcs else "dynamic")
        if t.clsobjs:
            return [], "ctor"  # class without an __init__ of its own in the package
        if "callable" in t.prims:
            return [], "external"
        return [], "unresolved"

    def _callback_args(self, call, fi, env):
        out = []
        for a in list(call.args) + [k.value for k in call.keywords]:
            if isinstance(a, (ast.Attribute, ast.Name)):
                t = self.typer.expr_type(a, fi, env)
                if t.funcs and not t.classes and not t.prims:
                    out.extend(sorted(t.funcs, key=lambda x: x.qualname))
        return out

    def _getattr_targets(self, inner, fi, env):
        obj, nm = inner.args[0], inner.args[1]
        ot = self.typer.expr_type(obj, fi, env)
        targets = []
        if isinstance(nm, ast.Constant) and isinstance(nm.value, str):
            for c in ot.classes:
                m = self.p.lookup_method(c, nm.value)
                if m:
                    targets.append(m)
            return targets
        # "prefix_{}".format(...) families
        prefix = None
        if isinstance(nm, ast.Call) and isinstance(nm.func, ast.Attribute) and nm.func.attr == "format":
            base = nm.func.value
            if isinstance(base, ast.Constant) and isinstance(base.value, str) and "{" in base.value:
                prefix = base.value.split("{")[0]
        if prefix is not None:
            for c in ot.classes:
                for name, m in sorted(self.p.methods_of(c).items()):
                    if name.startswith(prefix):
                        targets.append(m)
            return targets
        # name held in a variable: the configured handler method.  Default
        # name is read from Config.default_handler_method; fall back to 'handle'.
        names = set()
        nt_src = self.p.try_func("Config.default_handler_method")
        if nt_src is not None:
            for n in walk_no_nested(nt_src.node):
                if isinstance(n, ast.Return) and isinstance(n.value, ast.Constant) and isinstance(n.value.value, str):
                    names.add(n.value.value)
        names = names or {"handle"}
        cands = set(ot.classes)
        for c in self.p.classes.values():
            if c.module.name.startswith(self.p.pkg + ".handler"):
                cands.add(c)
        for c in sorted(cands, key=lambda x: x.qualname):
            for nme in sorted(names):
                m = self.p.lookup_method(c, nme)
                if m:
                    targets.append(m)
        return targets

    def _resolve_attr_call(self, f, fi, env, self_cls):
        p = self.p
        attr = f.attr
        # module.func / Class.method
        if isinstance(f.value, ast.Name) and f.value.id not in env:
            r = p.resolve_in_func(fi, f.value.id)
            if isinstance(r, Module):
                g = p.resolve_global(r.name, attr)
                if isinstance(g, FuncInfo):
                    return [g], "direct", None
                if isinstance(g, ClassInfo):
                    init = p.lookup_method(g, "__init__")
                    return ([init] if init else []), "ctor", None
                return [], "external", r.name + "." + attr
            if isinstance(r, tuple) and r[0] == "external":
                return [], "external", r[1] + "." + attr
            if isinstance(r, ClassInfo):
                m = p.lookup_method(r, attr)
                if m is not None:
                    return [m], ("direct" if (m.is_classmethod or m.is_staticmethod) else "unbound"), None
                return [], "unresolved", None
        bt = self.typer.expr_type(f.value, fi, env)
        targets = []
        kind = "unresolved"
        is_self = isinstance(f.value, ast.Name) and f.value.id == "self" and fi.cls is not None
        for c in sorted(bt.classes, key=lambda x: x.qualname):
            if is_self and self_cls is not None:
                m = p.lookup_method(self_cls, attr)
                impls = [m] if m is not None else []
            else:
                impls = p.implementations(c, attr)
            for m in impls:
                if m not in targets:
                    targets.append(m)
            if not impls:
                # attribute holding a callable
                at = self.typer.attr_type(c, attr)
                t2, _ = self._targets_of_callable(at)
                for m in t2:
                    if m not in targets:
                        targets.append(m)
        for c in sorted(bt.clsobjs, key=lambda x: x.qualname):
            m = p.lookup_method(c, attr)
            if m is not None and m not in targets:
                targets.append(m)
            for sub in p.subclasses(c, strict=True):
                m2 = sub.methods.get(attr)
                if m2 is not None and m2 not in targets and (m2.is_classmethod or m2.is_staticmethod):
                    targets.append(m2)
        if targets:
            kind = "virtual"
            return targets, kind, None
        if not self._defined_anywhere(attr):
            # closed world: no class of the package defines a method or a
            # callable attribute of that name, so this is not a package call
            return [], "external", "?." + attr
        if bt.prims and not bt.classes:
            return [], "external", "|".join(sorted(bt.prims)) + "." + attr
        if isinstance(f.value, (ast.Constant, ast.JoinedStr, ast.List, ast.Dict, ast.ListComp)):
            return [], "external", "literal." + attr
        return [], "unresolved", None

    def _defined_anywhere(self, attr):
        cache = getattr(self, "_defined_cache", None)
        if cache is None:
            cache = set()
            for c in self.p.classes.values():
                cache.update(c.methods)
                for m in c.methods.values():
                    for n in walk_no_nested(m.node):
                        if isinstance(n, ast.Assign):
                            for tg in n.targets:
                                if isinstance(tg, ast.Attribute) and isinstance(tg.value, ast.Name) and tg.value.id == "self":
                                    cache.add(tg.attr)
            self._defined_cache = cache
        return attr in cache

    def _registered_callables(self, cls):
        """Callables handed to methods of ``cls`` through parameters annotated
        Callable (listener registries): the dynamic-dispatch table of cls."""
        out = []
        for c in [x for x in cls.mro if isinstance(x, ClassInfo)]:
            for m in c.methods.values():
                for prm in m.params:
                    h = self.typer.param_hints.get((m.qualname, prm))
                    if h is not None:
                        for fn in sorted(h.funcs, key=lambda x: x.qualname):
                            if fn not in out:
                                out.append(fn)
        return out

    # -------------------------------------------------------------- queries
    def callees(self, fi):
        out = []
        for cs in self.sites.get(fi.qualname, []):
            for t in cs.targets:
                if t not in out:
                    out.append(t)
        return out

    def reachable(self, roots, stop=None):
        """Functions reachable from roots (FuncInfo list), including roots."""
        seen = {}
        work = list(roots)
        while work:
            f = work.pop()
            if f.qualname in seen:
                continue
            seen[f.qualname] = f
            if stop is not None and stop(f):
                continue
            for t in self.callees(f):
                if t.qualname not in seen:
                    work.append(t)
            # nested closures defined here and referenced
            for sub in getattr(f, "nested", {}).values():
                if sub.qualname not in seen:
                    work.append(sub)
        return seen

    def reaches(self, fi, pred, _memo=None, _depth=0):
        """True if some function reachable from fi satisfies pred."""
        return any(pred(f) for f in self.reachable([fi]).values())

    def call_chain(self, src, pred, limit=12):
        """Shortest chain of FuncInfo from src to a function satisfying pred."""
        from collections import deque

        q = deque([(src, [src])])
        seen = {src.qualname}
        while q:
            f, path = q.popleft()
            if pred(f):
                return path
            if len(path) >= limit:
                continue
            for t in self.callees(f) + list(getattr(f, "nested", {}).values()):
                if t.qualname not in seen:
                    seen.add(t.qualname)
                    q.append((t, path + [t]))
        return None

    def sites_in(self, fi):
        return self.sites.get(fi.qualname, [])

    def site_for(self, fi, call_node):
        for cs in self.sites.get(fi.qualname, []):
            if cs.node is call_node:
                return cs
        return self.resolve_call(call_node, fi)

    def unresolved(self):
        out = []
        for q, sites in sorted(self.sites.items()):
            for cs in sites:
                if cs.kind == "unresolved":
                    out.append(cs)
        return out
