"""Findings, rule results, evidence files, known-findings handling."""
import hashlib
import json
import os
import re
import time

from .loader import norm

VERIF = os.path.dirname(os.path.dirname(os.path.abspath(__file__)))
KNOWN_PATH = os.path.join(VERIF, "known_findings.json")
EVIDENCE_DIR = os.environ.get("CLIKIT_SA_EVIDENCE_DIR") or os.path.join(VERIF, "evidence")  # override only used by tools/try_seed.py
REPLAY_DIR = os.path.join(EVIDENCE_DIR, "replay")


class Finding(object):
    def __init__(self, rule, prop, key, loc, message, detail=None):
        self.rule = rule
        self.prop = prop
        self.key = key
        self.loc = loc
        self.message = message
        self.detail = detail or {}

    def to_json(self):
        return {
            "property": self.prop,
            "rule": self.rule,
            "key": self.key,
            "location": self.loc,
            "message": self.message,
            "detail": self.detail,
        }


class RuleResult(object):
    """Collects the instances one rule examined and the findings it raised."""

    def __init__(self, prop, rule_id, kind, statement, reference=None):
        self.prop = prop
        self.rule_id = rule_id
        self.kind = kind  # catalogue name (GUARD, ORDER, ...)
        self.statement = statement
        self.reference = reference  # instance count confirmed by hand on the pinned tree
        self.instances = []  # (description, verdict)
        self.findings = []
        self.notes = []
        self.vacuous_ok = False  # rule whose risky construct may legitimately be absent

    def ok(self, desc):
        self.instances.append((desc, "ok"))

    def fail(self, fi_or_mod, node, construct, message, key_scope=None, **detail):
        """Report a violating construct.  ``construct`` is the normalised text
        used in the key (never a line number).  ``key_scope`` replaces the
        function's qualified name in the key (e.g. the class, for findings that
        must survive the extraction of a helper method)."""
        mod = getattr(fi_or_mod, "module", fi_or_mod)
        qual = key_scope or getattr(fi_or_mod, "qualname", getattr(mod, "name", "?"))
        if not isinstance(construct, str):
            construct = norm(construct)
        key = "%s|%s|%s" % (self.rule_id, qual, construct)
        for f in self.findings:
            if f.key == key:
                return f
        loc = "%s:%d" % (mod.path, getattr(node, "lineno", 0) if node is not None else 0)
        self.instances.append(("%s @ %s" % (construct, qual), "VIOLATION"))
        f = Finding(self.rule_id, self.prop, key, loc, message, detail)
        self.findings.append(f)
        return f

    def note(self, text):
        self.notes.append(text)

    @property
    def n(self):
        return len(self.instances)


def load_known():
    if not os.path.isfile(KNOWN_PATH):
        return {"known": [], "fixed": []}
    with open(KNOWN_PATH) as f:
        data = json.load(f)
    data.setdefault("known", [])
    data.setdefault("fixed", [])
    return data


def _slug(s):
    return re.sub(r"[^A-Za-z0-9]+", "-", s).strip("-")[:60]


def finish(prop, tier, seed, results, t0, extra_assumptions=(), program=None, consulted=None, extra_cov=None):
    """Print the report, write evidence and replay files, return the exit code."""
    known = load_known()
    known_keys = {}
    for k in known["known"]:
        if k.get("property") == prop or prop in k.get("also", []):
            known_keys[k["key"]] = k
    violations = []
    known_hits = []
    for r in results:
        for f in r.findings:
            if f.key in known_keys:
                known_hits.append((f, known_keys[f.key]))
            else:
                violations.append(f)
    os.makedirs(REPLAY_DIR, exist_ok=True)
    # stale replay files of this property
    for fn in os.listdir(REPLAY_DIR):
        if fn.startswith(prop + "-"):
            try:
                os.remove(os.path.join(REPLAY_DIR, fn))
            except OSError:
                pass
    total_inst = 0
    nontrivial_rules = 0
    discharged = 0
    obligations = 0
    samples = []
    print("== %s  tier=%s  rules=%d" % (prop, tier, len(results)))
    for r in results:
        nv = len(r.findings)
        total_inst += r.n
        obligations += r.n
        discharged += r.n - nv
        if r.n:
            nontrivial_rules += 1
        ref = "" if r.reference is None else " (reference %d)" % r.reference
        warn = ""
        if r.reference is not None and 0 < r.n < r.reference:
            warn = "  WARNING: fewer instances than the hand-confirmed reference"
        nk = sum(1 for f in r.findings if f.key in known_keys)
        status = " ok "
        if nv - nk > 0:
            status = "FAIL"
        elif nk:
            status = "knwn"
        print("  [%s] %-8s %-9s instances=%d%s violations=%d%s%s" % (
            status, r.rule_id, r.kind, r.n, ref, nv - nk, (" known=%d" % nk) if nk else "", warn))
        for note in r.notes:
            print("        note: %s" % note)
        for desc, verdict in r.instances[:3]:
            samples.append({"rule": r.rule_id, "instance": desc, "verdict": verdict})
        for desc, verdict in r.instances:
            if verdict != "ok" and len(samples) < 60:
                samples.append({"rule": r.rule_id, "instance": desc, "verdict": verdict})
    distinct = len({(r.rule_id, d) for r in results for d, _ in r.instances})
    for f, k in known_hits:
        print("KNOWN-FINDING: property=%s %s -- %s [%s]" % (prop, f.key, k.get("what", f.message), f.loc))
    for i, f in enumerate(violations):
        path = os.path.join(REPLAY_DIR, "%s-%d-%s.json" % (prop, i, _slug(f.key)))
        with open(path, "w") as fh:
            json.dump(f.to_json(), fh, indent=1, sort_keys=True)
        print("  %s: %s: %s" % (f.loc, f.rule, f.message))
        print("      key: %s" % f.key)
        for dk, dv in sorted(f.detail.items()):
            print("      %s: %s" % (dk, dv))
        print("VIOLATION property=%s replay=%s" % (prop, path))
    wall = time.time() - t0
    cov = {
        "explanation": (
            "Static analysis of /repo/src/clikit (parsed on this run, nothing imported or executed). "
            "Each rule enumerates its instances (call sites, stores, paths, table rows) from the "
            "current source and discharges one obligation per instance; see 'rules'."
        ),
        "evaluations": total_inst,
        "distinct_nontrivial": distinct,
        "rule": "one evaluation = one rule instance (site / path / table row) found in the current source; "
                "distinct = distinct (rule, construct) pairs; a rule with zero instances counts for nothing",
        "obligations": obligations,
        "discharged": discharged,
        "checker_cmd": "./check %s --tier %s" % (prop, tier),
        "trusted_base": [
            "CPython ast module (parser)",
            "clikit_sa engines (loader/resolver, CFG, effects, dataflow)",
            "closed world for clikit.* (no monkey-patching); CPython semantics of dict/list/str",
        ],
        "samples": samples[:60] or [{"note": "no instances"}],
        "rules": [
            {
                "id": r.rule_id,
                "kind": r.kind,
                "statement": r.statement,
                "instances": r.n,
                "reference_instances": r.reference,
                "violations": len(r.findings),
                "notes": r.notes,
            }
            for r in results
        ],
        "rules_with_instances": nontrivial_rules,
        "known_findings_matched": [f.key for f, _ in known_hits],
        "exhaustive": True,
    }
    if program is not None:
        cov["modules_parsed"] = len(program.modules)
        cov["functions_indexed"] = len(program.functions)
        cov["source_digest"] = program.digest(consulted)
    if extra_cov:
        cov.update(extra_cov)
    ev = {
        "property_id": prop,
        "tier": tier,
        "seed": seed,
        "level": "other",
        "coverage": cov,
        "assumptions": [
            "closed world for clikit.*: no monkey-patching, user subclasses out of scope",
            "type comments are trusted only to resolve receivers",
            "only the clauses named in MANIFEST level_note / DESIGN.md section 5 are decided, not the whole behavioural property",
        ] + list(extra_assumptions),
        "wall_s": round(wall, 3),
        "violations": len(violations),
    }
    os.makedirs(EVIDENCE_DIR, exist_ok=True)
    with open(os.path.join(EVIDENCE_DIR, "%s.json" % prop), "w") as fh:
        json.dump(ev, fh, indent=1, sort_keys=True)
    print("== %s: %d instances, %d violation(s), %d known finding(s), %.2fs" % (
        prop, total_inst, len(violations), len(known_hits), wall))
    return 1 if violations else 0
