"""Per-run analysis context shared by all rules of a check."""
import os

from .loader import Program, AnalysisError
from .callgraph import CallGraph
from .cfg import cfg_of
from .report import RuleResult


class Ctx(object):
    def __init__(self, prop, tier="quick", seed=0, repo=None, overlay=None):
        self.prop = prop
        self.tier = tier
        self.seed = seed
        self.repo = repo
        self.overlay = overlay
        self._program = None
        self._cg = None
        self._effects = None
        self.results = []
        self.consulted = set()

    @property
    def p(self):
        if self._program is None:
            self._program = Program(repo=self.repo, overlay=self.overlay)
        return self._program

    @property
    def cg(self):
        if self._cg is None:
            self._cg = CallGraph(self.p)
        return self._cg

    @property
    def effects(self):
        if self._effects is None:
            from .effects import Effects

            self._effects = Effects(self.p, self.cg)
        return self._effects

    @property
    def typer(self):
        return self.cg.typer

    def cfg(self, fi):
        self.consulted.add(fi.module.name)
        return cfg_of(fi, self.p)

    def func(self, name):
        f = self.p.func(name)
        self.consulted.add(f.module.name)
        return f

    def cls(self, name):
        c = self.p.cls(name)
        self.consulted.add(c.module.name)
        return c

    def rule(self, rule_id, kind, statement, reference=None):
        r = RuleResult(self.prop, rule_id, kind, statement, reference)
        self.results.append(r)
        return r

    def borrow(self, module_name, src_rule, new_rule, statement, reference=None):
        """Instantiate, under this property, a rule that another property's module evaluates: the other module's run() is
        executed once on a context that shares this one's parsed program / call graph / effect engine, and the result of
        ``src_rule`` is re-labelled ``new_rule`` (finding keys included) with this property's own statement of why it needs it."""
        import importlib

        cache = self.__dict__.setdefault("_borrowed", {})
        if module_name not in cache:
            sub = Ctx(self.prop, self.tier, self.seed, self.repo, self.overlay)
            sub._program, sub._cg, sub._effects = self.p, self.cg, self._effects
            mod = importlib.import_module("clikit_sa.rules." + module_name)
            mod.run(sub)
            if self._effects is None and sub._effects is not None:
                self._effects = sub._effects
            self.consulted |= sub.consulted
            cache[module_name] = {r.rule_id: r for r in sub.results}
        src = cache[module_name].get(src_rule)
        if src is None:
            raise AnalysisError("rule %s not produced by %s" % (src_rule, module_name))
        r = RuleResult(self.prop, new_rule, src.kind, statement + " (same rule as %s)" % src_rule, reference if reference is not None else src.reference)
        r.instances = list(src.instances)
        r.notes = list(src.notes)
        r.vacuous_ok = src.vacuous_ok
        for f in src.findings:
            from .report import Finding

            key = new_rule + f.key[len(src_rule):] if f.key.startswith(src_rule) else new_rule + "|" + f.key
            r.findings.append(Finding(new_rule, self.prop, key, f.loc, f.message, f.detail))
        self.results.append(r)
        return r

    def require(self, cond, msg):
        if not cond:
            raise AnalysisError(msg)
