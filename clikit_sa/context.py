"""Per-run analysis context shared by all rules of a check."""
import os

from .loader import Program, AnalysisError
from .callgraph import CallGraph
from .cfg import cfg_of
from .report import RuleResult


class Ctx(object):
    def __init__(self, prop, tier="quick", seed=0, repo=None, overlay=None):
        self.prop = prop
        self.tier = tier
        self.seed = seed
        self.repo = repo
        self.overlay = overlay
        self._program = None
        self._cg = None
        self._effects = None
        self.results = []
        self.consulted = set()

    @property
    def p(self):
        if self._program is None:
            self._program = Program(repo=self.repo, overlay=self.overlay)
        return self._program

    @property
    def cg(self):
        if self._cg is None:
            self._cg = CallGraph(self.p)
        return self._cg

    @property
    def effects(self):
        if self._effects is None:
            from .effects import Effects

            self._effects = Effects(self.p, self.cg)
        return self._effects

    @property
    def typer(self):
        return self.cg.typer

    def cfg(self, fi):
        self.consulted.add(fi.module.name)
        return cfg_of(fi, self.p)

    def func(self, name):
        f = self.p.func(name)
        self.consulted.add(f.module.name)
        return f

    def cls(self, name):
        c = self.p.cls(name)
        self.consulted.add(c.module.name)
        return c

    def rule(self, rule_id, kind, statement, reference=None):
        r = RuleResult(self.prop, rule_id, kind, statement, reference)
        self.results.append(r)
        return r

    def require(self, cond, msg):
        if not cond:
            raise AnalysisError(msg)
