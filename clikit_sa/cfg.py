"""E3: statement-level control-flow graph with split conditions.

* every atomic condition of an ``if`` / ``while`` / ``assert`` test (after
  splitting ``and`` / ``or`` / ``not``) is a ``cond`` node with two pseudo
  successor nodes ``T`` and ``F`` ("dominated by the true edge of t" is then
  plain node dominance by ``T``);
* ``for`` has a ``for`` node with pseudo successors ``loop_body`` /
  ``loop_exit``;
* ``try/except/else/finally`` and ``with`` are modelled; ``finally`` bodies and
  ``with`` exits are duplicated for the normal, the exceptional and every
  ``return`` / ``break`` / ``continue`` path that crosses them;
* two edge kinds: ``n`` (normal) and ``e`` (exceptional: an explicit ``raise``,
  or "this statement contains a call / subscript and may raise").

No path feasibility reasoning beyond constant tests (``while True``).
"""
import ast
import builtins

from .loader import walk_no_nested, ClassInfo


class Node(object):
    __slots__ = ("id", "kind", "ast", "cond", "label", "copy_of")

    def __init__(self, id, kind, astnode=None, cond=None, label=None):
        self.id = id
        self.kind = kind
        self.ast = astnode
        self.cond = cond  # for T/F: the cond Node
        self.label = label
        self.copy_of = None

    @property
    def lineno(self):
        return getattr(self.ast, "lineno", 0)

    def __repr__(self):
        try:
            txt = ast.unparse(self.ast)[:40] if self.ast is not None else ""
        except Exception:
            txt = ""
        return "<%d %s %s>" % (self.id, self.kind, txt)


class _Ctx(object):
    def __init__(self):
        self.loops = []  # (break_collector, continue_target_id, cleanup_depth)
        self.cleanups = []  # list of ('finally', stmts) / ('with', item nodes) / ('handlers', [...])
        self.handlers = []  # stack of lists of (except Node, handler ast) + marker for finally


def _builtin_exc(name):
    obj = getattr(builtins, name, None)
    if isinstance(obj, type) and issubclass(obj, BaseException):
        return obj
    return None


class CFG(object):
    def __init__(self, fi, program=None):
        self.fi = fi
        self.p = program
        self.nodes = []
        self.succ = {}  # id -> list of (id, kind)
        self.pred = {}
        self.entry = self._new("entry")
        self.exit = self._new("exit")  # normal return
        self.raise_exit = self._new("raise_exit")
        self._index = {}
        self._dom = {}
        ctx = _Ctx()
        out = self._block(fi.node.body, {self.entry.id}, ctx)
        for p in out:
            self._edge(p, self.exit.id)
        self._build_index()

    # ----------------------------------------------------------- primitives
    def _new(self, kind, astnode=None, cond=None, label=None):
        n = Node(len(self.nodes), kind, astnode, cond, label)
        self.nodes.append(n)
        self.succ[n.id] = []
        self.pred[n.id] = []
        return n

    def _edge(self, a, b, kind="n"):
        if (b, kind) not in self.succ[a]:
            self.succ[a].append((b, kind))
            self.pred[b].append((a, kind))

    def _seq(self, preds, node):
        for p in preds:
            self._edge(p, node.id)
        return {node.id}

    # -------------------------------------------------------- exception flow
    @staticmethod
    def _may_raise(astnode):
        """Conservative 'contains something that can raise'."""
        for n in walk_no_nested(astnode):
            if isinstance(n, (ast.Call, ast.Subscript, ast.Raise, ast.Await, ast.Yield, ast.YieldFrom)):
                return True
            if isinstance(n, ast.BinOp) and isinstance(n.op, (ast.Div, ast.FloorDiv, ast.Mod, ast.Add)):
                return True
            if isinstance(n, ast.Attribute) and not (isinstance(n.value, ast.Name) and n.value.id in ("self", "cls")):
                return True
        return False

    def _handler_classes(self, h):
        """List of caught classes for an ExceptHandler: ClassInfo / builtin type / None(unknown); [] = bare."""
        if h.type is None:
            return []
        out = []
        for e in (h.type.elts if isinstance(h.type, ast.Tuple) else [h.type]):
            r = None
            if self.p is not None:
                r = self.p.resolve_class_expr(self.fi.module, e, self.fi)
            if isinstance(r, ClassInfo):
                out.append(r)
            elif isinstance(e, ast.Name) and _builtin_exc(e.id) is not None:
                out.append(_builtin_exc(e.id))
            elif isinstance(e, ast.Attribute) and _builtin_exc(e.attr) is not None:
                out.append(_builtin_exc(e.attr))
            else:
                out.append(None)
        return out

    def _raised_class(self, raise_node, ctx):
        """ClassInfo / builtin type / None for ``raise X(...)`` / ``raise X.factory(...)``."""
        exc = raise_node.exc
        if exc is None:
            return "reraise"
        e = exc
        if isinstance(e, ast.Call):
            e = e.func
        r = None
        if self.p is not None:
            r = self.p.resolve_class_expr(self.fi.module, e, self.fi)
            if not isinstance(r, ClassInfo) and isinstance(e, ast.Attribute):
                r2 = self.p.resolve_class_expr(self.fi.module, e.value, self.fi)
                if isinstance(r2, ClassInfo):
                    r = r2  # classmethod factory returning cls(...)
        if isinstance(r, ClassInfo):
            return r
        if isinstance(e, ast.Name) and _builtin_exc(e.id) is not None:
            return _builtin_exc(e.id)
        if isinstance(e, ast.Attribute) and _builtin_exc(e.attr) is not None:
            return _builtin_exc(e.attr)
        return None

    def catches(self, caught, raised):
        """'yes' / 'no' / 'maybe': does a handler for ``caught`` (list as from
        _handler_classes) catch an exception of class ``raised``?"""
        if caught == []:
            return "yes"
        if raised is None or raised == "reraise":
            # unknown class: assume an ordinary Exception subclass
            for c in caught:
                if c is Exception or c is BaseException:
                    return "yes"
            return "maybe"
        verdict = "no"
        for c in caught:
            if c is None:
                verdict = "maybe"
                continue
            if self._is_sub(raised, c):
                return "yes"
        return verdict

    def _is_sub(self, raised, caught):
        if isinstance(raised, ClassInfo):
            if isinstance(caught, ClassInfo):
                return caught in raised.mro
            # builtin caught: look at builtin bases of the raised class
            for b in raised.mro:
                if not isinstance(b, ClassInfo):
                    bt = _builtin_exc(b.split(".")[-1]) if isinstance(b, str) else None
                    if bt is not None and issubclass(bt, caught):
                        return True
            return caught in (Exception, BaseException) and any(
                (not isinstance(b, ClassInfo)) for b in raised.mro
            ) and self._derives_exception(raised)
        if isinstance(caught, ClassInfo):
            return False
        return issubclass(raised, caught)

    def _derives_exception(self, cls):
        for b in cls.mro:
            if not isinstance(b, ClassInfo) and isinstance(b, str):
                bt = _builtin_exc(b.split(".")[-1])
                if bt is not None and issubclass(bt, Exception):
                    return True
        return False

    def _raise_edges(self, node_id, raised, ctx, via_cleanup=True):
        """Connect an exceptional exit of node ``node_id`` to the handlers /
        cleanups that may receive it."""
        self._propagate({node_id}, raised, list(ctx.handlers), ctx)

    def _propagate(self, cur, raised, stack, ctx):
        for i in range(len(stack) - 1, -1, -1):
            frame = stack[i]
            if frame[0] == "handlers":
                verdict_all = "no"
                for exc_node, h, caught in frame[1]:
                    v = self.catches(caught, raised)
                    if v in ("yes", "maybe"):
                        for c in cur:
                            self._edge(c, exc_node.id, "e")
                    if v == "yes":
                        verdict_all = "yes"
                        break
                if verdict_all == "yes":
                    return
            else:
                # finally body / with-exit on the exceptional path: one copy per
                # (frame, raised class); it is built with the handler stack cut
                # below this frame and its end propagates further outwards
                key = id(raised) if raised is not None else None
                copies = frame[2]
                if key not in copies:
                    saved = ctx.handlers
                    ctx.handlers = stack[:i]
                    try:
                        first, last = frame[1](ctx)
                    finally:
                        ctx.handlers = saved
                    copies[key] = first
                    self._propagate(set(last), raised, stack[:i], ctx)
                for c in cur:
                    self._edge(c, copies[key], "e")
                return
        for c in cur:
            self._edge(c, self.raise_exit.id, "e")

    # -------------------------------------------------------------- building
    def _block(self, stmts, preds, ctx):
        for s in stmts:
            preds = self._stmt(s, preds, ctx)
        return preds

    def _simple(self, s, preds, ctx, kind="stmt"):
        n = self._new(kind, s)
        out = self._seq(preds, n)
        if self._may_raise(s):
            self._raise_edges(n.id, None, ctx)
        return out, n

    def _cond(self, expr, preds, ctx):
        """Returns (true_preds, false_preds)."""
        if isinstance(expr, ast.BoolOp):
            if isinstance(expr.op, ast.And):
                falses = set()
                cur = preds
                for v in expr.values:
                    t, f = self._cond(v, cur, ctx)
                    falses |= f
                    cur = t
                return cur, falses
            else:
                trues = set()
                cur = preds
                for v in expr.values:
                    t, f = self._cond(v, cur, ctx)
                    trues |= t
                    cur = f
                return trues, cur
        if isinstance(expr, ast.UnaryOp) and isinstance(expr.op, ast.Not):
            t, f = self._cond(expr.operand, preds, ctx)
            return f, t
        c = self._new("cond", expr)
        self._seq(preds, c)
        if self._may_raise(expr):
            self._raise_edges(c.id, None, ctx)
        tn = self._new("T", expr, cond=c)
        fn = self._new("F", expr, cond=c)
        const = None
        if isinstance(expr, ast.Constant):
            const = bool(expr.value)
        elif isinstance(expr, ast.Name) and self.p is not None:
            const = self._version_const(expr.id)
        elif isinstance(expr, ast.Call) and isinstance(expr.func, ast.Name) and expr.func.id == "hasattr" and len(expr.args) == 2 and not expr.keywords \
                and all(isinstance(a, ast.Constant) for a in expr.args) and isinstance(expr.args[1].value, str) and isinstance(expr.args[0].value, (str, bytes, int, float)):
            # hasattr(<literal>, "<name>") is a constant: it asks the literal's builtin type (e.g. hasattr("stream", "seekable") is False)
            const = hasattr(expr.args[0].value, expr.args[1].value)
        if const is not False:
            self._edge(c.id, tn.id)
        if const is not True:
            self._edge(c.id, fn.id)
        return {tn.id}, {fn.id}

    def _version_const(self, name):
        """Truth value of a module-level constant defined purely from
        sys.version_info (folded for the interpreter the repository runs on
        here, which is also the one running this analysis)."""
        import sys

        r = self.p.resolve_in_func(self.fi, name)
        if not (isinstance(r, tuple) and r[0] == "const"):
            return None
        e = r[1]
        try:
            names = {n.id for n in ast.walk(e) if isinstance(n, ast.Name)}
            if names != {"sys"} or not any(isinstance(n, ast.Attribute) and n.attr == "version_info" for n in ast.walk(e)):
                return None
            if any(isinstance(n, (ast.Call, ast.Lambda)) for n in ast.walk(e)):
                return None
            return bool(eval(compile(ast.Expression(e), "<version-const>", "eval"), {"__builtins__": {}}, {"sys": sys}))
        except Exception:
            return None

    def _run_cleanups(self, preds, ctx, down_to):
        """Inline copies of the cleanups (finally bodies / with exits) between
        the current depth and ``down_to`` for return/break/continue."""
        cur = preds
        frames = [f for f in ctx.handlers[down_to:] if f[0] == "cleanup"]
        for frame in reversed(frames):
            # build a fresh normal-path copy with the handler stack cut below this frame
            idx = ctx.handlers.index(frame)
            saved = ctx.handlers
            ctx.handlers = saved[:idx]
            try:
                first, last = frame[1](ctx)
            finally:
                ctx.handlers = saved
            for c in cur:
                self._edge(c, first)
            cur = set(last)
        return cur

    def _stmt(self, s, preds, ctx):
        if not preds:
            # unreachable code still gets nodes (so that lookups work) but no incoming edges
            pass
        if isinstance(s, ast.If):
            t, f = self._cond(s.test, preds, ctx)
            out = self._block(s.body, t, ctx)
            out2 = self._block(s.orelse, f, ctx) if s.orelse else f
            return out | out2
        if isinstance(s, ast.While):
            head = self._new("loop", s)
            self._seq(preds, head)
            t, f = self._cond(s.test, {head.id}, ctx)
            breaks = set()
            ctx.loops.append((breaks, head.id, len(ctx.handlers)))
            body_out = self._block(s.body, t, ctx)
            ctx.loops.pop()
            for b in body_out:
                self._edge(b, head.id)
            out = self._block(s.orelse, f, ctx) if s.orelse else f
            return out | breaks
        if isinstance(s, (ast.For, ast.AsyncFor)):
            head = self._new("for", s)
            self._seq(preds, head)
            if self._may_raise(s.iter):
                self._raise_edges(head.id, None, ctx)
            bn = self._new("loop_body", s, cond=head)
            xn = self._new("loop_exit", s, cond=head)
            self._edge(head.id, bn.id)
            self._edge(head.id, xn.id)
            breaks = set()
            ctx.loops.append((breaks, head.id, len(ctx.handlers)))
            body_out = self._block(s.body, {bn.id}, ctx)
            ctx.loops.pop()
            for b in body_out:
                self._edge(b, head.id)
            out = self._block(s.orelse, {xn.id}, ctx) if s.orelse else {xn.id}
            return out | breaks
        if isinstance(s, ast.Break):
            n = self._new("stmt", s)
            cur = self._seq(preds, n)
            breaks, _, depth = ctx.loops[-1]
            cur = self._run_cleanups(cur, ctx, depth)
            breaks |= cur
            return set()
        if isinstance(s, ast.Continue):
            n = self._new("stmt", s)
            cur = self._seq(preds, n)
            _, head, depth = ctx.loops[-1]
            cur = self._run_cleanups(cur, ctx, depth)
            for c in cur:
                self._edge(c, head)
            return set()
        if isinstance(s, ast.Return):
            n = self._new("return", s)
            cur = self._seq(preds, n)
            if s.value is not None and self._may_raise(s.value):
                self._raise_edges(n.id, None, ctx)
            cur = self._run_cleanups(cur, ctx, 0)
            for c in cur:
                self._edge(c, self.exit.id)
            return set()
        if isinstance(s, ast.Raise):
            n = self._new("raise", s)
            self._seq(preds, n)
            raised = self._raised_class(s, ctx)
            if raised == "reraise":
                raised = getattr(ctx, "current_exc", None)
            self._raise_edges(n.id, raised, ctx)
            return set()
        if isinstance(s, ast.Try):
            return self._try(s, preds, ctx)
        if isinstance(s, (ast.With, ast.AsyncWith)):
            return self._with(s, preds, ctx)
        if isinstance(s, ast.Assert):
            t, f = self._cond(s.test, preds, ctx)
            for x in f:
                self._edge(x, self.raise_exit.id, "e")
            return t
        if isinstance(s, (ast.FunctionDef, ast.AsyncFunctionDef, ast.ClassDef)):
            n = self._new("def", s)
            return self._seq(preds, n)
        if isinstance(s, ast.Match):
            n = self._new("stmt", s)
            cur = self._seq(preds, n)
            out = set(cur)
            for case in s.cases:
                out |= self._block(case.body, cur, ctx)
            return out
        out, _ = self._simple(s, preds, ctx)
        return out

    def _try(self, s, preds, ctx):
        has_finally = bool(s.finalbody)

        def make_finally_copy(c):
            first = self._new("finally", s)
            out = self._block(s.finalbody, {first.id}, c)
            return first.id, out

        if has_finally:
            ctx.handlers.append(("cleanup", make_finally_copy, {}))
        handler_nodes = []
        for h in s.handlers:
            en = self._new("except", h)
            handler_nodes.append((en, h, self._handler_classes(h)))
        if handler_nodes:
            ctx.handlers.append(("handlers", handler_nodes))
        body_out = self._block(s.body, preds, ctx)
        if handler_nodes:
            ctx.handlers.pop()
        # else-block: runs after body without the handlers
        if s.orelse:
            body_out = self._block(s.orelse, body_out, ctx)
        outs = set(body_out)
        for en, h, caught in handler_nodes:
            saved = getattr(ctx, "current_exc", None)
            ctx.current_exc = caught[0] if len(caught) == 1 else None
            outs |= self._block(h.body, {en.id}, ctx)
            ctx.current_exc = saved
        if has_finally:
            ctx.handlers.pop()
            first, last = make_finally_copy(ctx)
            for o in outs:
                self._edge(o, first)
            outs = set(last)
        return outs

    def _with(self, s, preds, ctx):
        enter = self._new("with_enter", s)
        cur = self._seq(preds, enter)
        self._raise_edges(enter.id, None, ctx)

        def make_exit_copy(c):
            x = self._new("with_exit", s)
            return x.id, {x.id}

        ctx.handlers.append(("cleanup", make_exit_copy, {}))
        out = self._block(s.body, cur, ctx)
        ctx.handlers.pop()
        first, last = make_exit_copy(ctx)
        for o in out:
            self._edge(o, first)
        return set(last)

    # --------------------------------------------------------------- lookups
    def _build_index(self):
        for n in self.nodes:
            a = n.ast
            if a is None or n.kind in ("T", "F", "loop_body", "loop_exit", "finally", "with_exit", "loop", "except"):
                continue
            if n.kind == "for":
                parts = [a.iter, a.target]
            elif n.kind == "with_enter":
                parts = []
                for item in a.items:
                    parts.append(item.context_expr)
                    if item.optional_vars is not None:
                        parts.append(item.optional_vars)
            elif n.kind == "def":
                parts = list(a.decorator_list) if hasattr(a, "decorator_list") else []
                self._index.setdefault(id(a), []).append(n)
            else:
                parts = [a]
            for part in parts:
                for sub in walk_no_nested(part):
                    self._index.setdefault(id(sub), []).append(n)
            if n.kind in ("for", "with_enter"):
                self._index.setdefault(id(a), []).append(n)

    def nodes_of(self, astnode):
        """CFG nodes that evaluate ``astnode`` (several when in a duplicated finally)."""
        return self._index.get(id(astnode), [])

    def node_of(self, astnode):
        ns = self.nodes_of(astnode)
        return ns[0] if ns else None

    def conds(self):
        return [n for n in self.nodes if n.kind == "cond"]

    def true_of(self, cond):
        for n in self.nodes:
            if n.kind == "T" and n.cond is cond:
                return n
        return None

    def false_of(self, cond):
        for n in self.nodes:
            if n.kind == "F" and n.cond is cond:
                return n
        return None

    def succs(self, nid, exc=False):
        return [b for b, k in self.succ[nid] if exc or k == "n"]

    def preds(self, nid, exc=False):
        return [a for a, k in self.pred[nid] if exc or k == "n"]

    # --------------------------------------------------------------- queries
    def reach(self, sources, blocked=(), exc=False, backwards=False):
        """Set of node ids reachable from ``sources`` (ids) without entering
        a blocked id.  Sources themselves are included (even if blocked)."""
        blocked = set(blocked)
        seen = set()
        work = list(sources)
        step = self.preds if backwards else self.succs
        while work:
            x = work.pop()
            if x in seen:
                continue
            seen.add(x)
            for y in step(x, exc):
                if y not in seen and y not in blocked:
                    work.append(y)
        return seen

    def reach_strict(self, source, blocked=(), exc=False):
        """Nodes reachable from ``source`` in >= 1 step."""
        out = set()
        for y in self.succs(source, exc):
            if y not in blocked:
                out |= self.reach([y], blocked, exc)
        return out

    def live_nodes(self, exc=False):
        return self.reach([self.entry.id], exc=exc)

    def dominates(self, a, b, exc=False):
        """Every path entry->b passes through a (a, b node ids).  Unreachable b: True."""
        if a == b:
            return True
        return b not in self.reach([self.entry.id], blocked=[a], exc=exc)

    def all_paths_hit(self, src, targets, stops, exc=False):
        """Every path from ``src`` that reaches one of ``stops`` passes through
        one of ``targets`` first (src itself not counted)."""
        r = self.reach_strict(src, blocked=set(targets), exc=exc) if src not in targets else set()
        if src in targets:
            return True
        return not (r & set(stops))

    def post_dominated_by(self, src, targets, exc=False, exits=None):
        """Every path from src to an exit passes through one of ``targets``."""
        if exits is None:
            exits = [self.exit.id] + ([self.raise_exit.id] if exc else [])
        if src in targets:
            return True
        r = self.reach([src], blocked=set(targets), exc=exc)
        return not (r & set(exits))

    def inevitably_raises(self, src):
        """From ``src`` every normal path ends in a ``raise`` node (never reaches
        the normal exit, never loops forever through a back edge to itself...)."""
        r = self.reach([src], exc=False)
        if self.exit.id in r:
            return False
        # must contain at least one raise and no node without successors other than raises
        has_raise = False
        for x in r:
            n = self.nodes[x]
            if n.kind == "raise":
                has_raise = True
            elif not self.succs(x) and n.kind not in ("raise",) and x != self.raise_exit.id:
                # dead end that is not a raise (e.g. return handled above) -> treat as not raising
                if n.kind == "return":
                    return False
        return has_raise

    def in_loop(self, nid, exc=False):
        return nid in self.reach_strict(nid, exc=exc)

    def enclosing_loops(self, astnode):
        out = []
        p = getattr(astnode, "_parent", None)
        while p is not None and p is not self.fi.node:
            if isinstance(p, (ast.For, ast.While, ast.AsyncFor)):
                out.append(p)
            p = getattr(p, "_parent", None)
        return out

    def paths(self, src, dst, exc=False, limit=5000):
        """Enumerate acyclic paths src -> dst (ids).  Raises OverflowError above limit."""
        out = []
        stack = [(src, [src])]
        while stack:
            x, path = stack.pop()
            if x == dst:
                out.append(path)
                if len(out) > limit:
                    raise OverflowError("too many paths")
                continue
            for y in self.succs(x, exc):
                if y not in path:
                    stack.append((y, path + [y]))
        return out

    def writes(self, name_pred):
        """Nodes that (re)bind a local name / attribute chain satisfying name_pred(text)."""
        out = []
        for n in self.nodes:
            a = n.ast
            if a is None or n.kind in ("T", "F", "loop_body", "loop_exit", "finally", "with_exit", "loop", "cond", "except"):
                continue
            targets = []
            if n.kind == "for":
                targets = [a.target]
            elif n.kind == "with_enter":
                targets = [i.optional_vars for i in a.items if i.optional_vars is not None]
            elif isinstance(a, ast.Assign):
                targets = list(a.targets)
            elif isinstance(a, (ast.AugAssign, ast.AnnAssign)):
                targets = [a.target]
            elif isinstance(a, ast.Delete):
                targets = list(a.targets)
            flat = []
            for t in targets:
                if isinstance(t, (ast.Tuple, ast.List)):
                    flat.extend(t.elts)
                else:
                    flat.append(t)
            for t in flat:
                try:
                    txt = ast.unparse(t)
                except Exception:
                    continue
                if name_pred(txt):
                    out.append(n)
                    break
        return out


_CFG_CACHE = {}


def cfg_of(fi, program=None):
    key = (id(fi), id(program))
    c = _CFG_CACHE.get(key)
    if c is None:
        c = CFG(fi, program)
        _CFG_CACHE[key] = c
    return c


# ---------------------------------------------------------------- guard facts
def operand_names(expr):
    """Local names and self-attribute chains an expression reads."""
    out = set()
    for n in walk_no_nested(expr):
        if isinstance(n, ast.Name):
            out.add(n.id)
        elif isinstance(n, ast.Attribute):
            try:
                out.add(ast.unparse(n))
            except Exception:
                pass
    return out


def guarded_by(cfg, site_node, cond_pred, polarity=True, kill_names=None, exc=False):
    """Is CFG node ``site_node`` dominated by the ``polarity`` edge of a cond
    node whose expression satisfies ``cond_pred(expr)`` and whose operands
    (``kill_names(expr)`` or all names read) are not rebound in between?

    Returns the guarding cond Node or None."""
    for c in cfg.conds():
        try:
            ok = cond_pred(c.ast)
        except Exception:
            ok = False
        if not ok:
            continue
        edge = cfg.true_of(c) if polarity else cfg.false_of(c)
        if edge is None:
            continue
        if edge.id == site_node.id or not cfg.dominates(edge.id, site_node.id, exc=exc):
            if edge.id != site_node.id:
                continue
        names = kill_names(c.ast) if kill_names else operand_names(c.ast)
        names = {x for x in names if x not in ("self", "cls")}
        killed = False
        if names:
            after_edge = cfg.reach_strict(edge.id, blocked=[edge.id], exc=exc)
            for w in cfg.writes(lambda txt: txt in names):
                if w.id in after_edge and site_node.id in cfg.reach([w.id], blocked=[edge.id], exc=exc) and w.id != site_node.id:
                    killed = True
                    break
        if not killed:
            return c
    return None
